//! C17 — the open-addressing table (`linear_hashtbl::raw::RawTable<u32, u32>`) behaves as a set.
//!
//! Protocol `tbl`.  One table per case (plus a stack of saved clones for the exhaustive
//! depth-first enumeration).  Keys are `u32`, the hash of a key is *data* (given on the operation
//! line), so adversarial hash functions are just tables of numbers.
//!
//! ```text
//! hashes h0 h1 …          -> ok <n>          declares the key universe 0..n and the hash of each key
//! new                     -> ok
//! withcap n               -> ok
//! ins k h                 -> new <slot> | found <slot>       find_or_find_insert_slot (+ insert_in_slot_unchecked)
//! rem k h                 -> some | none                     remove_entry
//! find k h                -> <slot> | none
//! get k h                 -> <k> | none
//! retain m                -> dropped k…      keep k iff bit (k mod 64) of m is set; keys in the order `drop` is called
//! drain                   -> keys k…         in iteration (slot) order
//! drainpartial n          -> keys k…         take n elements, then drop the `Drain`
//! clear | clearnd | reset -> ok              clear, clear_no_drop, reset_no_drop
//! reserve n               -> ok
//! clone                   -> ok              the table is replaced by its clone
//! intoiter                -> keys k…         then the table is a fresh `new()`
//! iter                    -> keys k…
//! dump                    -> <len> <free> <slots> | F T <key>/<status> …
//! push | pop              -> ok              save a clone of the table / restore the last saved one
//! ```
//! A panic of the real code prints `PANIC` and the rest of the case prints `DEAD` (as in the shared
//! harness loop).  `free` and the `FREE`/`TOMBSTONE` distinction are private: `dump` reads them from
//! the table's memory with a layout that is *calibrated at start-up* on tables with known contents
//! (and refuses to run if the calibration is not unambiguous).
//!
//! Oracles (independent of the Lean model): a reference `BTreeSet` of the keys that were inserted
//! and not since removed.  After every operation: `len`, `find` of every key of the universe (and
//! the slot it reports holds that key), `iter` contents.  Per operation: the result of
//! `ins`/`rem`/`find`/`get`, the dropped/kept keys of `retain` (predicate called exactly once per
//! present key), the contents of `drain`/`drainpartial`/`intoiter`, the `reserve` contract.

use linear_hashtbl::raw::RawTable;
use oxv::*;
use std::collections::{BTreeMap, BTreeSet};
use std::io::Write;

type Tb = RawTable<u32, u32>;

const FREE: u32 = u32::MAX;
const TOMB: u32 = u32::MAX - 1;

// ------------------------------------------------------------------------------------------------
// peeking at the private state (calibrated)

#[derive(Clone, Copy, Debug)]
struct Layout {
    w_len: usize,
    w_free: usize,
    w_ptr: usize,
    w_slen: usize,
    status_first: bool,
}

fn words_of(t: &Tb) -> [usize; 4] {
    assert_eq!(std::mem::size_of::<Tb>(), 4 * std::mem::size_of::<usize>(), "unexpected RawTable size");
    // SAFETY: `Tb` consists of a boxed slice (pointer, length) and two `usize`, all initialised.
    unsafe { std::ptr::read(t as *const Tb as *const [usize; 4]) }
}

fn calibrate() -> Layout {
    assert_eq!(std::mem::size_of::<Tb>(), 32, "unexpected RawTable size");
    // table A: 64 slots, 2 elements; table B: 16 slots, 3 elements, one removed next to an element
    let mut a = Tb::with_capacity(40);
    assert_eq!(a.slots(), 64);
    for (k, h) in [(0xABCD01u32, 5u64), (0xABCD02u32, 9u64)] {
        match a.find_or_find_insert_slot(h, |&x| x == k) {
            Ok(_) => unreachable!(),
            Err(s) => unsafe {
                a.insert_in_slot_unchecked(h, s, k);
            },
        }
    }
    let wa = words_of(&a); // expect: len 2, free 62, slice len 64, pointer (large)
    let find = |w: &[usize; 4], v: usize| -> usize {
        let c: Vec<usize> = (0..4).filter(|&i| w[i] == v).collect();
        assert_eq!(c.len(), 1, "layout calibration ambiguous for value {v}: {w:?}");
        c[0]
    };
    let w_len = find(&wa, 2);
    let w_free = find(&wa, 62);
    let w_slen = find(&wa, 64);
    let w_ptr = 6 - w_len - w_free - w_slen;
    assert!(wa[w_ptr] > 4096, "layout calibration: pointer word implausible");
    // slot layout
    let p = wa[w_ptr] as *const u32;
    let (x0, x1) = unsafe { (*p.add(2 * 5), *p.add(2 * 5 + 1)) };
    let status_first = if x0 == 5 && x1 == 0xABCD01 {
        true
    } else if x1 == 5 && x0 == 0xABCD01 {
        false
    } else {
        panic!("slot layout calibration failed: {x0:#x} {x1:#x}");
    };
    assert_eq!(std::mem::size_of::<(u32, u32)>(), 8);
    let lay = Layout { w_len, w_free, w_ptr, w_slen, status_first };
    // cross-check on a second table with a tombstone and a free slot
    let mut b = Tb::with_capacity(3);
    for (k, h) in [(1u32, 7u64), (2, 7), (3, 7)] {
        match b.find_or_find_insert_slot(h, |&x| x == k) {
            Ok(_) => unreachable!(),
            Err(s) => unsafe {
                b.insert_in_slot_unchecked(h, s, k);
            },
        }
    }
    assert_eq!(b.remove_entry(7, |&x| x == 1), Some(1)); // successor occupied -> tombstone
    assert_eq!(b.remove_entry(7, |&x| x == 3), Some(3)); // successor free -> free
    let (len, free, sl) = peek(&b, &lay);
    assert_eq!((len, free, sl.len()), (1, 14, 16), "layout cross-check failed");
    assert_eq!(sl[7].0, TOMB);
    assert_eq!(sl[8], (7, 2));
    assert_eq!(sl[9].0, FREE);
    assert_eq!(sl[6].0, FREE);
    lay
}

/// (len, free, [(status, data)])
fn peek(t: &Tb, lay: &Layout) -> (usize, usize, Vec<(u32, u32)>) {
    let w = words_of(t);
    let n = w[lay.w_slen];
    assert_eq!(n, t.slots());
    assert_eq!(w[lay.w_len], t.len());
    let p = w[lay.w_ptr] as *const u32;
    let mut v = Vec::with_capacity(n);
    for i in 0..n {
        // SAFETY: the slice has `n` slots of two `u32` each; an uninitialised data word of a
        // non-occupied slot is never used below (only printed for occupied slots).
        let (x0, x1) = unsafe { (std::ptr::read_volatile(p.add(2 * i)), std::ptr::read_volatile(p.add(2 * i + 1))) };
        v.push(if lay.status_first { (x0, x1) } else { (x1, x0) });
    }
    (w[lay.w_len], w[lay.w_free], v)
}

/// reference computation: does a request for `n` elements need more than 2^31 slots?
fn too_large(n: u128) -> bool {
    n != 0 && (n * 4 / 3).next_power_of_two().max(16) > (1u128 << 31)
}

// ------------------------------------------------------------------------------------------------
// scenario

struct Sc {
    t: Tb,
    set: BTreeSet<u32>,
    stack: Vec<(Tb, BTreeSet<u32>)>,
    hashes: Vec<u64>,
    lay: Layout,
    dead: bool,
    ops: u64,
}

fn keys_line(v: &[u32]) -> String {
    let mut s = String::from("keys");
    for k in v {
        s.push(' ');
        s.push_str(&k.to_string());
    }
    s
}

impl Sc {
    fn hash_ok(&self, k: u32, h: u64, ctx: &mut Ctx) {
        if let Some(&hh) = self.hashes.get(k as usize) {
            if hh != h {
                ctx.fail("generator-hash-mismatch", &format!("key {k} used with hash {h}, declared {hh}"));
            }
        }
    }

    /// the property, evaluated on the real table against the reference set
    fn audit(&mut self, op: &str, ctx: &mut Ctx) {
        let (len, free, sl) = peek(&self.t, &self.lay);
        let n_free = sl.iter().filter(|s| s.0 == FREE).count();
        let n_tomb = sl.iter().filter(|s| s.0 == TOMB).count();
        if free > n_free {
            ctx.count("state.free_counter_above_FREE_slots");
        } else if free < n_free {
            ctx.count("state.free_counter_below_FREE_slots");
        }
        if n_tomb > 0 {
            ctx.count("state.with_tombstones");
        }
        if n_tomb * 4 >= sl.len() && !sl.is_empty() {
            ctx.count("state.tombstones_ge_quarter");
        }
        match sl.len() {
            0 => ctx.count("state.slots=0"),
            16 => ctx.count("state.slots=16"),
            32 => ctx.count("state.slots=32"),
            64 => ctx.count("state.slots=64"),
            128 => ctx.count("state.slots=128"),
            _ => ctx.count("state.slots>=256"),
        }
        if len != self.set.len() {
            ctx.fail("len", &format!("after `{op}`: len() = {len}, reference set has {} elements", self.set.len()));
        }
        if !sl.is_empty() && n_free == 0 {
            // `find` of an absent key / the next `find_or_find_insert_slot` would never return:
            // report instead of hanging
            ctx.fail("no-free-slot", &format!("after `{op}`: {len} elements and no FREE slot: lookups of absent keys do not terminate"));
            self.dead = true;
            return;
        }
        for k in 0..self.hashes.len() as u32 {
            let h = self.hashes[k as usize];
            let r = self.t.find(h, |&x| x == k);
            let want = self.set.contains(&k);
            match r {
                Some(i) => {
                    let ok = i < self.t.slots() && unsafe { self.t.is_slot_occupied_unchecked(i) } && unsafe { *self.t.get_at_slot_unchecked(i) } == k;
                    if !ok {
                        ctx.fail("find-slot", &format!("after `{op}`: find({k}) returned slot {i} which does not hold {k}"));
                    }
                    if !want {
                        ctx.fail("find-ghost", &format!("after `{op}`: find({k}) = Some({i}) but {k} is not in the set"));
                    }
                }
                None => {
                    if want {
                        ctx.fail("find-lost", &format!("after `{op}`: find({k}) = None but {k} was inserted and not removed"));
                    }
                }
            }
        }
        self.ops += 1;
        if sl.len() <= 512 || self.ops % 8 == 0 {
            let it = self.t.iter();
            let il = it.len();
            let mut v: Vec<u32> = it.copied().collect();
            v.sort();
            let want: Vec<u32> = self.set.iter().copied().collect();
            if il != want.len() || v != want {
                ctx.fail("iter", &format!("after `{op}`: iter() yields {v:?} (len {il}), reference set {want:?}"));
            }
        }
    }

    fn ins(&mut self, k: u32, h: u64, ctx: &mut Ctx) -> String {
        self.hash_ok(k, h, ctx);
        let present = self.set.contains(&k);
        let (_, free, sl) = peek(&self.t, &self.lay);
        if sl.is_empty() && free >= 1 {
            // reserve(1) will not allocate (free >= 1 + 0) and the probe loop then computes
            // `0usize - 1` as mask and indexes an empty slice: a panic with debug assertions /
            // overflow checks, an out-of-bounds read without them.
            ctx.count("ins.on_zero_slots_with_stale_free");
            let r = if cfg!(debug_assertions) {
                let t = &mut self.t;
                std::panic::catch_unwind(std::panic::AssertUnwindSafe(|| t.find_or_find_insert_slot(h, |&x| x == k))).is_err()
            } else {
                true
            };
            if r {
                ctx.fail(
                    "reset-stale-free",
                    &format!("find_or_find_insert_slot on a table with 0 slots and free = {free} (left behind by reset_no_drop) panics (debug assertions) / reads out of bounds"),
                );
                self.dead = true;
                return "PANIC".into();
            }
            unreachable!("find_or_find_insert_slot returned on an empty slice");
        }
        match self.t.find_or_find_insert_slot(h, |&x| x == k) {
            Ok(i) => {
                ctx.count("ins.found");
                if !present {
                    ctx.fail("ins-ghost", &format!("ins {k}: reported as present in slot {i} but it is not in the set"));
                } else if unsafe { *self.t.get_at_slot_unchecked(i) } != k {
                    ctx.fail("ins-slot", &format!("ins {k}: found slot {i} holds another key"));
                }
                format!("found {i}")
            }
            Err(i) => {
                ctx.count("ins.new");
                if present {
                    ctx.fail("ins-dup", &format!("ins {k}: reported as absent (slot {i}) although it is in the set"));
                }
                if i >= self.t.slots() || unsafe { self.t.is_slot_occupied_unchecked(i) } {
                    ctx.fail("ins-bad-slot", &format!("ins {k}: insertion slot {i} is out of range or occupied"));
                    self.dead = true;
                    return format!("new {i}");
                }
                let tomb = peek(&self.t, &self.lay).2[i].0 == TOMB;
                if tomb {
                    ctx.count("ins.into_tombstone");
                }
                unsafe {
                    self.t.insert_in_slot_unchecked(h, i, k);
                }
                self.set.insert(k);
                format!("new {i}")
            }
        }
    }

    fn step_inner(&mut self, line: &str, ctx: &mut Ctx) -> String {
        let w = words(line);
        let num = |i: usize| -> Option<u64> { w.get(i).and_then(|s| s.parse::<u64>().ok()) };
        match (w[0], w.len()) {
            ("hashes", _) => {
                let mut v = Vec::new();
                for x in &w[1..] {
                    match x.parse::<u64>() {
                        Ok(h) => v.push(h),
                        Err(_) => return "bad-op".into(),
                    }
                }
                self.hashes = v;
                format!("ok {}", self.hashes.len())
            }
            ("new", 1) => {
                self.t = Tb::new();
                self.set.clear();
                "ok".into()
            }
            ("withcap", 2) => {
                let Some(n) = num(1) else { return "bad-op".into() };
                if too_large(n as u128) {
                    // more than 2^31 slots cannot be addressed with `u32` statuses: the documented
                    // behaviour is a panic of `Status::check_capacity` (before anything is allocated)
                    let r = std::panic::catch_unwind(|| Tb::with_capacity(n as usize));
                    if r.is_ok() {
                        ctx.fail("capacity-check", &format!("with_capacity({n}) did not panic"));
                    }
                    ctx.count("capacity_overflow_panics");
                    self.dead = true;
                    return "PANIC".into();
                }
                self.t = Tb::with_capacity(n as usize);
                self.set.clear();
                "ok".into()
            }
            ("ins", 3) => {
                let (Some(k), Some(h)) = (num(1), num(2)) else { return "bad-op".into() };
                if k > u32::MAX as u64 {
                    return "bad-op".into();
                }
                let slots0 = self.t.slots();
                let r = self.ins(k as u32, h, ctx);
                if self.t.slots() > slots0 {
                    ctx.count("ins.grew");
                } else if self.t.slots() < slots0 {
                    ctx.count("ins.shrank");
                }
                r
            }
            ("rem", 3) => {
                let (Some(k), Some(h)) = (num(1), num(2)) else { return "bad-op".into() };
                let k = k as u32;
                self.hash_ok(k, h, ctx);
                let present = self.set.contains(&k);
                match self.t.remove_entry(h, |&x| x == k) {
                    Some(v) => {
                        ctx.count("rem.some");
                        if v != k || !present {
                            ctx.fail("rem-wrong", &format!("rem {k}: returned Some({v}), present in reference set: {present}"));
                        }
                        self.set.remove(&k);
                        "some".into()
                    }
                    None => {
                        ctx.count("rem.none");
                        if present {
                            ctx.fail("rem-lost", &format!("rem {k}: returned None although {k} is in the set"));
                        }
                        "none".into()
                    }
                }
            }
            ("find", 3) => {
                let (Some(k), Some(h)) = (num(1), num(2)) else { return "bad-op".into() };
                let k = k as u32;
                self.hash_ok(k, h, ctx);
                match self.t.find(h, |&x| x == k) {
                    Some(i) => {
                        if !self.set.contains(&k) {
                            ctx.fail("find-ghost", &format!("find {k} = Some({i}) but not in the set"));
                        }
                        format!("{i}")
                    }
                    None => {
                        if self.set.contains(&k) {
                            ctx.fail("find-lost", &format!("find {k} = None but in the set"));
                        }
                        "none".into()
                    }
                }
            }
            ("get", 3) => {
                let (Some(k), Some(h)) = (num(1), num(2)) else { return "bad-op".into() };
                let k = k as u32;
                match self.t.get(h, |&x| x == k) {
                    Some(&v) => {
                        if v != k || !self.set.contains(&k) {
                            ctx.fail("get-wrong", &format!("get {k} = Some({v})"));
                        }
                        format!("{v}")
                    }
                    None => {
                        if self.set.contains(&k) {
                            ctx.fail("find-lost", &format!("get {k} = None but in the set"));
                        }
                        "none".into()
                    }
                }
            }
            ("retain", 2) => {
                let Some(m) = num(1) else { return "bad-op".into() };
                let keep = |k: u32| (m >> (k % 64)) & 1 == 1;
                let mut asked: Vec<u32> = Vec::new();
                let mut dropped: Vec<u32> = Vec::new();
                let slots0 = self.t.slots();
                self.t.retain(
                    |x| {
                        asked.push(*x);
                        keep(*x)
                    },
                    |x| dropped.push(x),
                );
                if self.t.slots() < slots0 {
                    ctx.count("retain.shrank");
                }
                if !dropped.is_empty() {
                    ctx.count("retain.dropped_some");
                }
                let mut a = asked.clone();
                a.sort();
                let want_asked: Vec<u32> = self.set.iter().copied().collect();
                if a != want_asked {
                    ctx.fail("retain-predicate-calls", &format!("retain: predicate called on {asked:?}, present keys {want_asked:?}"));
                }
                let mut d = dropped.clone();
                d.sort();
                let want_d: Vec<u32> = self.set.iter().copied().filter(|&k| !keep(k)).collect();
                if d != want_d {
                    ctx.fail("retain-dropped", &format!("retain {m}: dropped {dropped:?}, expected {want_d:?}"));
                }
                self.set.retain(|&k| keep(k));
                let mut s = String::from("dropped");
                for k in &dropped {
                    s.push(' ');
                    s.push_str(&k.to_string());
                }
                s
            }
            ("drain", 1) => {
                let v: Vec<u32> = self.t.drain().collect();
                let mut s = v.clone();
                s.sort();
                let want: Vec<u32> = self.set.iter().copied().collect();
                if s != want {
                    ctx.fail("drain-contents", &format!("drain yields {v:?}, reference set {want:?}"));
                }
                self.set.clear();
                keys_line(&v)
            }
            ("drainpartial", 2) => {
                let Some(n) = num(1) else { return "bad-op".into() };
                let mut v: Vec<u32> = Vec::new();
                {
                    let mut d = self.t.drain();
                    for _ in 0..n {
                        match d.next() {
                            Some(x) => v.push(x),
                            None => break,
                        }
                    }
                    // `d` dropped here with the remaining elements inside
                }
                ctx.count("drainpartial");
                let s: BTreeSet<u32> = v.iter().copied().collect();
                if s.len() != v.len() || !s.is_subset(&self.set) || v.len() != std::cmp::min(n as usize, self.set.len()) {
                    ctx.fail("drain-contents", &format!("drain().take({n}) yields {v:?}, reference set {:?}", self.set));
                }
                self.set.clear();
                keys_line(&v)
            }
            ("clear", 1) => {
                self.t.clear();
                self.set.clear();
                "ok".into()
            }
            ("clearnd", 1) => {
                self.t.clear_no_drop();
                self.set.clear();
                "ok".into()
            }
            ("reset", 1) => {
                self.t.reset_no_drop();
                self.set.clear();
                ctx.count("reset");
                "ok".into()
            }
            ("reserve", 2) => {
                let Some(n) = num(1) else { return "bad-op".into() };
                let slots0 = self.t.slots();
                self.t.reserve(n as usize);
                if self.t.slots() != slots0 {
                    ctx.count("reserve.rehashed");
                }
                if n >= 1 && n <= 64 {
                    // contract: "the next `additional` insertions are guaranteed to not cause a rehash"
                    let mut c = self.t.clone();
                    let s0 = c.slots();
                    let mut ok = s0 != 0;
                    for j in 0..n {
                        if !ok {
                            break;
                        }
                        let k = 0x4000_0000u32 + j as u32;
                        let h = (j.wrapping_mul(0x9E37_79B9_7F4A_7C15)) ^ (j << 7);
                        match c.find_or_find_insert_slot(h, |&x| x == k) {
                            Ok(_) => ok = false,
                            Err(s) => unsafe {
                                c.insert_in_slot_unchecked(h, s, k);
                            },
                        }
                        ok = ok && c.slots() == s0;
                    }
                    if s0 == 0 {
                        let free = peek(&self.t, &self.lay).1;
                        ctx.fail(
                            "reset-stale-free",
                            &format!("reserve({n}) left the table without slots (free = {free} left behind by reset_no_drop): the next insertion is not prepared"),
                        );
                    } else if !ok {
                        ctx.fail("reserve-contract", &format!("after reserve({n}) on {s0} slots, {n} insertions rehashed the table or found a ghost"));
                    }
                }
                "ok".into()
            }
            ("clone", 1) => {
                let c = self.t.clone();
                self.t = c;
                "ok".into()
            }
            ("intoiter", 1) => {
                let old = std::mem::replace(&mut self.t, Tb::new());
                let it = old.into_iter();
                let il = it.len();
                let v: Vec<u32> = it.collect();
                let mut s = v.clone();
                s.sort();
                let want: Vec<u32> = self.set.iter().copied().collect();
                if s != want || il != want.len() {
                    ctx.fail("intoiter-contents", &format!("into_iter yields {v:?} (len {il}), reference set {want:?}"));
                }
                self.set.clear();
                keys_line(&v)
            }
            ("iter", 1) => {
                let v: Vec<u32> = self.t.iter().copied().collect();
                keys_line(&v)
            }
            ("dump", 1) => {
                let (len, free, sl) = peek(&self.t, &self.lay);
                let mut s = format!("{} {} {} |", len, free, sl.len());
                for (st, d) in sl {
                    if st == FREE {
                        s.push_str(" F");
                    } else if st == TOMB {
                        s.push_str(" T");
                    } else {
                        s.push_str(&format!(" {}/{}", d, st));
                    }
                }
                return s;
            }
            ("push", 1) => {
                self.stack.push((self.t.clone(), self.set.clone()));
                return "ok".into();
            }
            ("pop", 1) => match self.stack.pop() {
                Some((t, s)) => {
                    self.t = t;
                    self.set = s;
                    return "ok".into();
                }
                None => return "bad-op".into(),
            },
            _ => "bad-op".into(),
        }
    }
}

impl Scenario for Sc {
    fn reset(&mut self) {
        self.t = Tb::new();
        self.set.clear();
        self.stack.clear();
        self.hashes.clear();
        self.dead = false;
        self.ops = 0;
    }
    fn step(&mut self, line: &str, ctx: &mut Ctx) -> String {
        if self.dead {
            return "DEAD".into();
        }
        let w = words(line);
        if w.is_empty() {
            return "bad-op".into();
        }
        let o = self.step_inner(line, ctx);
        if !self.dead && o != "bad-op" && !matches!(w[0], "dump" | "push" | "pop" | "hashes") {
            ctx.count(&format!("op.{}", w[0]));
            self.audit(line, ctx);
        }
        o
    }
}

// ------------------------------------------------------------------------------------------------
// generator

/// adversarial hash families; `k` is the key
fn family_hash(fam: &str, k: u64, c: u64, rng: &mut Rng) -> u64 {
    match fam {
        // every key has the same hash: one probe sequence for everything, equal statuses
        "const" => c,
        // same home slot for every table size up to 2^20, different statuses
        "abovemask" => (c & 0xF_FFFF) | ((k + 1) << 20),
        // same home slot and the same 31-bit status (only `eq` tells the keys apart)
        "abovestatus" => (c & 0x7FFF_FFFF) | ((k + 1) << 31),
        // cluster at the last slots of every table size: probe sequences wrap around
        "wrap" => u64::MAX - (k % 3),
        // two clusters that run into each other
        "two" => {
            if k % 2 == 0 {
                c & 0xFF
            } else {
                (c & 0xFF).wrapping_add(2)
            }
        }
        "ident" => k,
        "random" => rng.next(),
        // a mixture
        _ => match rng.below(5) {
            0 => c,
            1 => u64::MAX - (k % 4),
            2 => k,
            3 => (c & 0xF) | ((k + 1) << 31),
            _ => rng.next(),
        },
    }
}

fn write_hashes(w: &mut dyn Write, hs: &[u64]) {
    let mut s = String::from("hashes");
    for h in hs {
        s.push(' ');
        s.push_str(&h.to_string());
    }
    writeln!(w, "{}", s).unwrap();
}

fn dfs(w: &mut dyn Write, alphabet: &[String], depth: u32) {
    if depth == 0 {
        return;
    }
    for a in alphabet {
        writeln!(w, "push").unwrap();
        writeln!(w, "{}", a).unwrap();
        writeln!(w, "dump").unwrap();
        dfs(w, alphabet, depth - 1);
        writeln!(w, "pop").unwrap();
    }
}

/// exhaustive: every operation sequence of length `depth` over the alphabet, as one case per
/// (family, prefix) with the remaining levels enumerated depth-first via push/pop
fn gen_exhaustive(w: &mut dyn Write, rng: &mut Rng, nkeys: u64, depth: u32, fams: &[(&str, u64)], prefixes: &[Vec<String>], with_reset: bool) {
    for (fam, c) in fams {
        let hs: Vec<u64> = (0..nkeys).map(|k| family_hash(fam, k, *c, rng)).collect();
        let mut alphabet: Vec<String> = Vec::new();
        for k in 0..nkeys {
            alphabet.push(format!("ins {} {}", k, hs[k as usize]));
            alphabet.push(format!("rem {} {}", k, hs[k as usize]));
        }
        alphabet.push("clear".into());
        alphabet.push("drain".into());
        alphabet.push("retain 5".into()); // keep keys 0 and 2
        alphabet.push("retain 26".into()); // keep keys 1, 3, 4
        if with_reset {
            alphabet.push("reset".into());
        }
        for (pi, pre) in prefixes.iter().enumerate() {
            // the first level is split into separate cases to keep cases small
            for (ai, a) in alphabet.iter().enumerate() {
                writeln!(w, "case ex-{}-{}-p{}-a{}", fam, c, pi, ai).unwrap();
                write_hashes(w, &hs);
                writeln!(w, "new").unwrap();
                for p in pre {
                    // prefix lines may refer to keys by `$k`
                    let mut l = p.clone();
                    for k in 0..nkeys {
                        l = l.replace(&format!("${}", k), &format!("{} {}", k, hs[k as usize]));
                    }
                    writeln!(w, "{}", l).unwrap();
                }
                writeln!(w, "dump").unwrap();
                writeln!(w, "{}", a).unwrap();
                writeln!(w, "dump").unwrap();
                dfs(w, &alphabet, depth - 1);
            }
        }
    }
}

struct LongGen<'a> {
    w: &'a mut dyn Write,
    hs: Vec<u64>,
    present: Vec<u32>, // insertion order (oldest first)
    n_ops: u64,
    dump_every: u64,
}

impl LongGen<'_> {
    fn emit(&mut self, l: String) {
        writeln!(self.w, "{}", l).unwrap();
        self.n_ops += 1;
        if self.n_ops % self.dump_every == 0 {
            writeln!(self.w, "dump").unwrap();
        }
    }
    fn ins(&mut self, k: u32) {
        self.emit(format!("ins {} {}", k, self.hs[k as usize]));
        if !self.present.contains(&k) {
            self.present.push(k);
        }
    }
    fn rem(&mut self, k: u32) {
        self.emit(format!("rem {} {}", k, self.hs[k as usize]));
        self.present.retain(|&x| x != k);
    }
}

fn gen_long(w: &mut dyn Write, rng: &mut Rng, name: &str, fam: &str, nkeys: u64, phases: u64, dump_every: u64, with_reset: bool) {
    let c = match rng.below(4) {
        0 => 0,
        1 => 15,
        2 => u64::MAX,
        _ => rng.next(),
    };
    let hs: Vec<u64> = (0..nkeys).map(|k| family_hash(fam, k, c, rng)).collect();
    writeln!(w, "case {}", name).unwrap();
    write_hashes(w, &hs);
    match rng.below(3) {
        0 => writeln!(w, "new").unwrap(),
        1 => writeln!(w, "withcap {}", rng.below(nkeys + 1)).unwrap(),
        _ => writeln!(w, "withcap {}", rng.below(13)).unwrap(),
    }
    let mut g = LongGen { w, hs, present: Vec::new(), n_ops: 0, dump_every };
    for _ in 0..phases {
        let ph = rng.below(if with_reset { 15 } else { 14 });
        match ph {
            0 | 1 => {
                // fill: insert a run of random keys
                let n = rng.range(1, nkeys);
                for _ in 0..n {
                    let k = rng.below(nkeys) as u32;
                    g.ins(k);
                }
            }
            2 => {
                // remove oldest
                let n = rng.range(1, 1 + g.present.len() as u64);
                for _ in 0..n {
                    if let Some(&k) = g.present.first() {
                        g.rem(k);
                    }
                }
            }
            3 => {
                // remove newest / random, also absent keys
                let n = rng.range(1, nkeys / 2 + 1);
                for _ in 0..n {
                    let k = if rng.chance(1, 2) && !g.present.is_empty() { *g.present.last().unwrap() } else { rng.below(nkeys) as u32 };
                    g.rem(k);
                }
            }
            4 => {
                // churn: remove + insert alternating (tombstone build-up)
                let n = rng.range(4, 3 * nkeys);
                for _ in 0..n {
                    let k = rng.below(nkeys) as u32;
                    if g.present.contains(&k) && rng.chance(2, 3) {
                        g.rem(k);
                    } else {
                        g.ins(k);
                    }
                }
            }
            5 => {
                // sliding window: insert key i, remove key i - d
                let d = rng.range(1, 8);
                let s = rng.below(nkeys);
                let n = rng.range(4, 2 * nkeys);
                for i in 0..n {
                    g.ins(((s + i) % nkeys) as u32);
                    if i >= d {
                        g.rem(((s + i - d) % nkeys) as u32);
                    }
                }
            }
            6 => {
                g.emit("drain".into());
                g.present.clear();
            }
            7 => {
                let n = rng.below(g.present.len() as u64 + 2);
                g.emit(format!("drainpartial {}", n));
                g.present.clear();
            }
            8 | 9 => {
                let m = match rng.below(5) {
                    0 => 0,
                    1 => u64::MAX,
                    2 => rng.next() & rng.next(),
                    3 => rng.next() | rng.next(),
                    _ => rng.next(),
                };
                g.emit(format!("retain {}", m));
                g.present.retain(|&k| (m >> (k % 64)) & 1 == 1);
            }
            10 => {
                g.emit(if rng.chance(1, 2) { "clear".into() } else { "clearnd".into() });
                g.present.clear();
            }
            11 => {
                let n = match rng.below(4) {
                    0 => 0,
                    1 => 1,
                    2 => rng.below(8),
                    _ => rng.below(2 * nkeys),
                };
                g.emit(format!("reserve {}", n));
            }
            12 => {
                g.emit("clone".into());
                for _ in 0..rng.below(4) {
                    let k = rng.below(nkeys) as u32;
                    g.emit(format!("find {} {}", k, g.hs[k as usize]));
                    g.emit(format!("get {} {}", k, g.hs[k as usize]));
                }
                g.emit("iter".into());
            }
            13 => {
                g.emit("intoiter".into());
                g.present.clear();
            }
            _ => {
                g.emit("reset".into());
                g.present.clear();
                if rng.chance(1, 2) {
                    g.emit(format!("reserve {}", rng.below(3)));
                }
            }
        }
    }
    writeln!(g.w, "dump").unwrap();
    writeln!(g.w, "iter").unwrap();
}

fn generate(cfg: &GenCfg, rng: &mut Rng, w: &mut dyn Write) {
    let sc = cfg.scale.max(1);
    let reset = cfg.extra.get("reset").map(|s| s != "0").unwrap_or(true);
    // ---- fixed regression cases
    // (a) tombstones behind the last element, drain, refill at the end of the table (defect #5 of DESIGN §7)
    writeln!(w, "case reg-drain-tombstones").unwrap();
    write_hashes(w, &[11u64; 17]);
    writeln!(w, "new").unwrap();
    for k in 0..12 {
        writeln!(w, "ins {} 11", k).unwrap();
    }
    writeln!(w, "dump").unwrap();
    for k in 0..12 {
        writeln!(w, "rem {} 11", k).unwrap();
    }
    writeln!(w, "dump\ndrain\ndump").unwrap();
    for k in 12..17 {
        writeln!(w, "ins {} 11", k).unwrap();
    }
    writeln!(w, "dump\nfind 0 11\ndump").unwrap();
    // (b) the same with a partially consumed Drain and with clear
    for (i, mid) in ["drainpartial 0", "drainpartial 1", "clear", "clearnd", "retain 0", "intoiter"].iter().enumerate() {
        writeln!(w, "case reg-tombstones-{}", i).unwrap();
        write_hashes(w, &[11u64; 24]);
        writeln!(w, "new").unwrap();
        for k in 0..12 {
            writeln!(w, "ins {} 11", k).unwrap();
        }
        for k in 0..11 {
            writeln!(w, "rem {} 11", k).unwrap();
        }
        writeln!(w, "dump\n{}\ndump", mid).unwrap();
        for k in 12..24 {
            writeln!(w, "ins {} 11\ndump", k).unwrap();
        }
        writeln!(w, "find 0 11").unwrap();
    }
    // (c) capacity arithmetic: with_capacity / reserve for every small request
    writeln!(w, "case reg-capacity").unwrap();
    for n in (0..=40).chain([47, 48, 49, 95, 96, 97, 191, 192, 193, 383, 384, 385, 767, 768, 769, 1000]) {
        writeln!(w, "withcap {}\ndump", n).unwrap();
    }
    for n in 0..=26 {
        writeln!(w, "new\nreserve {}\ndump\nins 1 1\nreserve {}\ndump", n, n).unwrap();
    }
    // (d) capacity check of the status type: 2^31 slots are the maximum for u32 statuses
    writeln!(w, "case reg-capacity-overflow").unwrap();
    writeln!(w, "withcap 1610612737").unwrap(); // 1610612737*4/3 = 2147483649 -> 2^32 slots > 2^31: panics before allocating
    writeln!(w, "dump").unwrap();
    // (f) growth through several rehashes, then emptying by removal and refilling: the `free`
    //     accounting across rehashes decides whether the next growth happens in time
    for fam in ["const", "wrap", "ident", "random", "abovestatus"] {
        let n: u64 = if cfg.thorough { 400 } else { 100 };
        let hs: Vec<u64> = (0..n).map(|k| family_hash(fam, k, 9, rng)).collect();
        writeln!(w, "case reg-grow-{}", fam).unwrap();
        write_hashes(w, &hs);
        writeln!(w, "new").unwrap();
        for k in 0..n {
            writeln!(w, "ins {} {}", k, hs[k as usize]).unwrap();
            if k % 8 == 3 {
                writeln!(w, "dump").unwrap();
            }
        }
        writeln!(w, "dump\niter").unwrap();
        for k in 0..n - 3 {
            writeln!(w, "rem {} {}", k, hs[k as usize]).unwrap();
        }
        writeln!(w, "dump").unwrap();
        for k in 0..n {
            writeln!(w, "ins {} {}", (k * 7) % n, hs[((k * 7) % n) as usize]).unwrap();
        }
        writeln!(w, "dump\nretain 1\ndump").unwrap();
        for k in 0..n / 2 {
            writeln!(w, "ins {} {}", k, hs[k as usize]).unwrap();
        }
        writeln!(w, "dump").unwrap();
    }
    // (e) reset_no_drop followed by every other operation (regression for /repo f20789c: a stale
    //     `free` counter made the next insertion index an empty slot array)
    if reset {
        for (i, mid) in ["", "reserve 0", "reserve 1", "reserve 5", "drain", "clear", "retain 0", "clone", "find 1 1", "rem 1 1"].iter().enumerate() {
            writeln!(w, "case reset-{}", i).unwrap();
            write_hashes(w, &[1, 1, 2]);
            writeln!(w, "new\nins 1 1\ndump\nreset\ndump").unwrap();
            if !mid.is_empty() {
                writeln!(w, "{}\ndump", mid).unwrap();
            }
            writeln!(w, "ins 2 2\ndump\nfind 2 2\nfind 1 1").unwrap();
        }
        writeln!(w, "case reset-withcap").unwrap();
        write_hashes(w, &[1, 1, 2]);
        writeln!(w, "withcap 3\ndump\nreset\ndump\nins 2 2\ndump").unwrap();
        writeln!(w, "case reset-fresh").unwrap();
        write_hashes(w, &[1, 1, 2]);
        writeln!(w, "new\nreset\ndump\nins 2 2\ndump\nreset\nreserve 4\ndump\nins 1 1\ndump").unwrap();
    }

    // ---- exhaustive short sequences
    let fams_all: [(&str, u64); 6] = [("const", 7), ("abovemask", 3), ("abovestatus", 9), ("wrap", 0), ("two", 14), ("const", u64::MAX)];
    let empty: Vec<Vec<String>> = vec![vec![]];
    if cfg.thorough {
        // all sequences of length 5 over 14 operations (5 keys) for the main families,
        // length 4 for the others and behind prefixes that put tombstones / wrap-around in place
        gen_exhaustive(w, rng, 5, 5, &fams_all[..4], &empty, reset);
        gen_exhaustive(w, rng, 5, 4, &fams_all[4..], &empty, reset);
        let pre: Vec<Vec<String>> = vec![
            vec!["ins $0".into(), "ins $1".into(), "ins $2".into(), "rem $0".into(), "rem $1".into()],
            vec!["ins $0".into(), "ins $1".into(), "ins $2".into(), "ins $3".into(), "ins $4".into(), "rem $1".into(), "rem $3".into()],
            vec!["withcap 12".into(), "ins $4".into(), "ins $3".into(), "rem $4".into()],
        ];
        gen_exhaustive(w, rng, 5, 4, &fams_all[..4], &pre, reset);
    } else {
        gen_exhaustive(w, rng, 5, 4, &fams_all[..4], &empty, reset);
        gen_exhaustive(w, rng, 4, 3, &fams_all[4..], &empty, reset);
        let pre: Vec<Vec<String>> = vec![
            vec!["ins $0".into(), "ins $1".into(), "ins $2".into(), "rem $0".into(), "rem $1".into()],
            vec!["withcap 12".into(), "ins $3".into(), "ins $2".into(), "rem $3".into()],
        ];
        gen_exhaustive(w, rng, 4, 3, &fams_all[..4], &pre, reset);
    }

    // ---- long phase-structured random sequences
    let fams = ["const", "abovemask", "abovestatus", "wrap", "two", "ident", "random", "mixed"];
    let rounds = if cfg.thorough { 8 * sc } else { 3 * sc };
    for r in 0..rounds {
        for fam in fams {
            let nkeys = *rng.pick(&[6u64, 12, 13, 24, 24, 40, 96]);
            let nkeys = if cfg.thorough && r % 5 == 4 { 200 } else { nkeys };
            let phases = if cfg.thorough { 60 } else { 25 };
            let dump_every = if nkeys > 40 { 4 } else { 1 };
            gen_long(w, rng, &format!("long-{}-{}-{}", fam, nkeys, r), fam, nkeys, phases, dump_every, reset && r % 2 == 1);
        }
        if reset {
            let fam = fams[(r % 8) as usize];
            gen_long(w, rng, &format!("reset-long-{}-{}", fam, r), fam, 12, 20, 1, true);
        }
    }
}

fn make(_f: &BTreeMap<String, String>) -> Box<dyn Scenario> {
    let lay = calibrate();
    Box::new(Sc { t: Tb::new(), set: BTreeSet::new(), stack: Vec::new(), hashes: Vec::new(), lay, dead: false, ops: 0 })
}

fn main() {
    harness_main(generate, make)
}
