//! C18 extension: the AIGER parser on raw bytes against the byte-level Lean model
//! `OxiddModel.AigerParse` (protocol `aigparse`).
//!
//! One operation line = one input: `p <check_acyclic 0|1> <bytes as hex | ->` (`q …`: the same, but
//! run in spite of the resource rule below; used by the regression case). The real
//! `oxidd_parser::aiger::parse` runs under `catch_unwind`; the output line is
//!
//! * `OK <canonical problem>`: every field of the `Problem` — circuit input count and names, AND
//!   gates, `AIGERDetails` (inputs, latches, reset values as `latch_init_value` returns them,
//!   outputs, the literal map; bad / constraint / justice / fairness literals and the names of
//!   the 1.9 sections, read from the derived `Debug` rendering because they have no accessor;
//!   `Debug` of a problem with more than 16 latches panics in `TVBitVec`, these print `B ?`),
//! * `ERR` (a diagnostic), `PANIC <kind>`,
//! * `SKIP`: the input contains a decimal number in `10000 ..= usize::MAX/16`, which the parser may
//!   accept as a count and reserve memory for (known finding KF-parser-alloc; both sides decide
//!   this by the same scan of the bytes and do not run the parser).
//!
//! Oracles on the implementation (independent of the model): no panic; an accepted problem is
//! consistent (every literal names an existing input / latch / gate, counts fit, name lists are
//! empty or complete, the binary format is topologically ordered); in a `case pair…` the canonical
//! `aag` and the `aig` rendering of one structured problem parse to the same problem
//! (`aag-aig-differ`), and both are accepted when the generator says so (`valid-rejected`).
//!
//! Generator: structured AIGER 1.9 problems (inputs, latches with reset absent / 0 / 1 / self,
//! AND gates, outputs, bad, constraints, justice, fairness, symbols of all seven kinds incl.
//! repeated entries, comment section), each written as canonical `aag`, as `aig`, and as `aag`
//! with permuted / unused variable numbers and shuffled AND lines; loose white space and CR LF;
//! then all prefixes (short files) or sampled prefixes, byte mutations (replace / insert / delete /
//! duplicate / bit flip with a bias to structural bytes), numeric tokens replaced by small numbers
//! (negated inputs, second definitions, undefined literals, cycles, symbol indices out of range)
//! and by boundary values (u64 / usize::MAX/16 boundaries, long zero-padded numbers), 7-bit delta
//! boundaries in the binary AND section, invalid UTF-8 in symbol names.
use oxidd_parser::{AIGERDetails, Literal, ParseOptionsBuilder, Problem, ProblemDetails};
use oxv::*;
use std::collections::BTreeMap;
use std::io::Write;
use std::panic::{AssertUnwindSafe, catch_unwind};

const MAX_CAP: u128 = 1152921504606846975;
const SKIP_FROM: u128 = 10000;

fn hex(b: &[u8]) -> String {
    let mut s = String::with_capacity(2 * b.len());
    for x in b {
        s.push_str(&format!("{:02x}", x));
    }
    s
}
fn unhex(s: &str) -> Option<Vec<u8>> {
    if s == "-" {
        return Some(Vec::new());
    }
    if s.len() % 2 != 0 {
        return None;
    }
    let b = s.as_bytes();
    let v = |c: u8| match c {
        b'0'..=b'9' => Some(c - b'0'),
        b'a'..=b'f' => Some(c - b'a' + 10),
        _ => None,
    };
    (0..b.len() / 2).map(|i| Some(16 * v(b[2 * i])? + v(b[2 * i + 1])?)).collect()
}
fn panic_msg(e: &Box<dyn std::any::Any + Send>) -> String {
    if let Some(s) = e.downcast_ref::<String>() {
        s.clone()
    } else if let Some(s) = e.downcast_ref::<&str>() {
        s.to_string()
    } else {
        "?".into()
    }
}

/// the resource rule: some maximal run of ASCII digits has a value in `SKIP_FROM ..= MAX_CAP`
fn too_big(b: &[u8]) -> bool {
    let mut i = 0;
    while i < b.len() {
        if b[i].is_ascii_digit() {
            let mut v: u128 = 0;
            let mut sat = false;
            while i < b.len() && b[i].is_ascii_digit() {
                if !sat {
                    v = v * 10 + (b[i] - b'0') as u128;
                    if v > MAX_CAP {
                        sat = true;
                    }
                }
                i += 1;
            }
            if !sat && v >= SKIP_FROM {
                return true;
            }
        } else {
            i += 1;
        }
    }
    false
}

#[derive(Debug, Clone, PartialEq)]
enum Dv {
    Atom(String),
    Str(String),
    List(Vec<Dv>),
    Struct(Vec<(String, Dv)>),
    Tuple(String, Vec<Dv>),
}
struct DvRd<'a> {
    s: &'a str,
    pos: usize,
}
impl DvRd<'_> {
    fn peek(&self) -> Option<char> {
        self.s[self.pos..].chars().next()
    }
    fn bump(&mut self) {
        if let Some(c) = self.peek() {
            self.pos += c.len_utf8();
        }
    }
    fn ws(&mut self) {
        while matches!(self.peek(), Some(' ') | Some('\n')) {
            self.bump()
        }
    }
    fn eat(&mut self, c: char) -> bool {
        self.ws();
        if self.peek() == Some(c) {
            self.bump();
            true
        } else {
            false
        }
    }
    /// values up to the closing character, separated by commas
    fn seq(&mut self, close: char, depth: u32) -> Option<Vec<Dv>> {
        let mut v = Vec::new();
        loop {
            if self.eat(close) {
                return Some(v);
            }
            v.push(self.value(depth + 1)?);
            if !self.eat(',') {
                return if self.eat(close) { Some(v) } else { None };
            }
        }
    }
    fn value(&mut self, depth: u32) -> Option<Dv> {
        if depth > 40 {
            return None;
        }
        self.ws();
        match self.peek()? {
            '[' => {
                self.bump();
                Some(Dv::List(self.seq(']', depth)?))
            }
            '"' => {
                self.bump();
                let mut out = String::new();
                loop {
                    let c = self.peek()?;
                    self.bump();
                    match c {
                        '"' => break,
                        '\\' => {
                            let e = self.peek()?;
                            self.bump();
                            match e {
                                'n' => out.push('\n'),
                                't' => out.push('\t'),
                                'r' => out.push('\r'),
                                '0' => out.push('\0'),
                                'u' => {
                                    if self.peek()? != '{' {
                                        return None;
                                    }
                                    self.bump();
                                    let st = self.pos;
                                    while self.peek()? != '}' {
                                        self.bump();
                                    }
                                    out.push(char::from_u32(u32::from_str_radix(&self.s[st..self.pos], 16).ok()?)?);
                                    self.bump();
                                }
                                e => out.push(e),
                            }
                        }
                        c => out.push(c),
                    }
                }
                Some(Dv::Str(out))
            }
            _ => {
                let st = self.pos;
                while let Some(c) = self.peek() {
                    if ",]})({ \n".contains(c) {
                        break;
                    }
                    self.bump();
                }
                let atom = self.s[st..self.pos].to_string();
                if atom.is_empty() {
                    return None;
                }
                if self.peek() == Some('(') {
                    self.bump();
                    return Some(Dv::Tuple(atom, self.seq(')', depth)?));
                }
                if self.s[self.pos..].starts_with(" {") {
                    self.pos += 2;
                    let mut f = Vec::new();
                    loop {
                        if self.eat('}') {
                            break;
                        }
                        self.ws();
                        let st = self.pos;
                        while self.peek()? != ':' {
                            self.bump();
                        }
                        let name = self.s[st..self.pos].to_string();
                        self.bump();
                        f.push((name, self.value(depth + 1)?));
                        if !self.eat(',') {
                            if self.eat('}') {
                                break;
                            }
                            return None;
                        }
                    }
                    return Some(Dv::Struct(f));
                }
                Some(Dv::Atom(atom))
            }
        }
    }
}

/// the `Display` form of a literal back to the literal
fn lit_of_atom(a: &str) -> Option<Literal> {
    match a {
        "⊥" => return Some(Literal::FALSE),
        "⊤" => return Some(Literal::TRUE),
        "+U" => return Some(Literal::UNDEF),
        "-U" => return Some(!Literal::UNDEF),
        _ => {}
    }
    let mut ch = a.chars();
    let neg = match ch.next()? {
        '+' => false,
        '-' => true,
        _ => return None,
    };
    let kind = ch.next()?;
    let n: usize = ch.as_str().parse().ok()?;
    match kind {
        'i' if n <= Literal::MAX_INPUT => Some(Literal::from_input(neg, n)),
        'g' if n <= Literal::MAX_GATE => Some(Literal::from_gate(neg, n)),
        _ => None,
    }
}

const SECTION_NAMES: [&str; 5] = ["outputs", "bad", "invariants", "justice", "fairness"];

/// every field of an `AIGERDetails`
#[derive(Debug, Clone, PartialEq, Default)]
struct Sections {
    inputs: usize,
    latches: Vec<Literal>,
    init: Vec<Option<bool>>,
    outputs: Vec<Literal>,
    bad: Vec<Literal>,
    invariants: Vec<Literal>,
    justice: Vec<Vec<Literal>>,
    fairness: Vec<Literal>,
    map: Vec<Literal>,
    /// names of outputs, bad, invariants, justice, fairness (see `SECTION_NAMES`)
    names: [Vec<Option<String>>; 5],
}

fn sections(a: &AIGERDetails) -> Result<Sections, String> {
    let text = format!("{:?}", a);
    let bad = |what: &str| format!("Debug rendering of AIGERDetails not understood ({}): {}", what, text.chars().take(400).collect::<String>());
    let mut rd = DvRd { s: &text, pos: 0 };
    let Some(Dv::Struct(fields)) = rd.value(0) else {
        return Err(bad("not a struct"));
    };
    let get = |n: &str| fields.iter().find(|(k, _)| k.trim() == n).map(|x| &x.1).ok_or_else(|| bad(&format!("no field {}", n)));
    let lits = |n: &str, v: &Dv| -> Result<Vec<Literal>, String> {
        let Dv::List(xs) = v else {
            return Err(bad(&format!("{} is not a list", n)));
        };
        xs.iter()
            .map(|x| match x {
                Dv::Atom(a) => lit_of_atom(a).ok_or_else(|| bad(&format!("literal {:?} in {}", a, n))),
                _ => Err(bad(&format!("element of {}", n))),
            })
            .collect()
    };
    let names = |n: &str| -> Result<Vec<Option<String>>, String> {
        let Dv::List(xs) = get(n)? else {
            return Err(bad(&format!("{} is not a list", n)));
        };
        xs.iter()
            .map(|x| match x {
                Dv::Atom(a) if a == "None" => Ok(None),
                Dv::Tuple(t, v) if t == "Some" && v.len() == 1 => match &v[0] {
                    Dv::Str(s) => Ok(Some(s.clone())),
                    _ => Err(bad(&format!("name in {}", n))),
                },
                _ => Err(bad(&format!("element of {}", n))),
            })
            .collect()
    };
    let inputs = match get("inputs")? {
        Dv::Atom(a) => a.parse::<usize>().map_err(|_| bad("inputs"))?,
        _ => return Err(bad("inputs")),
    };
    let init = match get("latch_init_values")? {
        Dv::List(xs) => xs
            .iter()
            .map(|x| match x {
                Dv::Atom(a) if a == "-" => Ok(None),
                Dv::Atom(a) if a == "0" => Ok(Some(false)),
                Dv::Atom(a) if a == "1" => Ok(Some(true)),
                _ => Err(bad("latch_init_values element")),
            })
            .collect::<Result<Vec<_>, _>>()?,
        _ => return Err(bad("latch_init_values")),
    };
    let justice = match get("justice")? {
        Dv::List(xs) => xs.iter().map(|x| lits("justice", x)).collect::<Result<Vec<_>, _>>()?,
        _ => return Err(bad("justice")),
    };
    Ok(Sections {
        inputs,
        latches: lits("latches", get("latches")?)?,
        init,
        outputs: lits("outputs", get("outputs")?)?,
        bad: lits("bad", get("bad")?)?,
        invariants: lits("invariants", get("invariants")?)?,
        justice,
        fairness: lits("fairness", get("fairness")?)?,
        map: lits("map", get("map")?)?,
        names: [names("output_names")?, names("bad_names")?, names("invariant_names")?, names("justice_names")?, names("fairness_names")?],
    })
}


// ------------------------------------------------------------------ canonical rendering

fn show_lit(l: Literal) -> String {
    if l == Literal::FALSE {
        return "F".into();
    }
    if l == Literal::TRUE {
        return "T".into();
    }
    let neg = if l.is_negative() { "!" } else { "" };
    if l.positive() == Literal::UNDEF {
        return format!("{}U", neg);
    }
    if let Some(g) = l.get_gate_no() {
        return format!("{}g{}", neg, g);
    }
    match l.get_input() {
        Some(i) => format!("{}i{}", neg, i),
        None => format!("{}?", neg),
    }
}
fn show_lits(ls: &[Literal]) -> String {
    format!("[{}]", ls.iter().map(|&l| show_lit(l)).collect::<Vec<_>>().join(","))
}
fn show_names(ns: &[Option<String>]) -> String {
    format!(
        "[{}]",
        ns.iter()
            .map(|n| match n {
                None => "~".to_string(),
                Some(s) => format!("x{}", hex(s.as_bytes())),
            })
            .collect::<Vec<_>>()
            .join(",")
    )
}

fn lit_in_range(p: &Problem, l: Literal) -> bool {
    if l == Literal::FALSE || l == Literal::TRUE {
        return true;
    }
    if let Some(g) = l.get_gate_no() {
        return g < p.circuit.num_gates();
    }
    match l.get_input() {
        Some(i) => i < p.circuit.inputs().len(),
        None => false,
    }
}

/// canonical line of an accepted problem; `Err` = the problem cannot be read or is inconsistent
fn show_problem(p: &Problem, binary: bool) -> Result<String, String> {
    let ProblemDetails::AIGER(a) = &p.details else {
        return Err("not an AIGER problem".into());
    };
    let a: &AIGERDetails = a;
    let c = &p.circuit;
    let n = c.inputs().len();
    let mut insane: Option<String> = None;
    let mut chk = |what: &str, l: Literal| {
        if insane.is_none() && !lit_in_range(p, l) {
            insane = Some(format!("{} holds {:?}, which is not in the circuit ({} inputs, {} gates)", what, l, n, c.num_gates()));
        }
    };
    let in_names: Vec<Option<String>> =
        if c.inputs().has_names() { (0..n).map(|i| c.inputs().name(i).map(|s| s.to_string())).collect() } else { Vec::new() };
    let mut gates = Vec::new();
    for g in 0..c.num_gates() {
        let gate = c.gate_for_no(g).ok_or_else(|| format!("gate {} not accessible", g))?;
        if gate.inputs.len() != 2 {
            return Err(format!("gate {} has {} inputs", g, gate.inputs.len()));
        }
        for &x in gate.inputs {
            chk("a gate", x);
            if binary {
                if let Some(k) = x.get_gate_no() {
                    if k >= g {
                        return Err(format!("binary format: gate {} refers to gate {}", g, k));
                    }
                }
            }
        }
        gates.push(format!("{},{}", show_lit(gate.inputs[0]), show_lit(gate.inputs[1])));
    }
    if a.inputs() + a.latches().len() != n {
        return Err(format!("{} inputs + {} latches, but the circuit has {} inputs", a.inputs(), a.latches().len(), n));
    }
    for &l in a.latches() {
        chk("latches", l);
    }
    for &l in a.outputs() {
        chk("outputs", l);
    }
    let nl = a.latches().len();
    let init: String = (0..nl)
        .map(|i| match catch_unwind(AssertUnwindSafe(|| a.latch_init_value(i))) {
            Err(_) => '!',
            Ok(None) => '-',
            Ok(Some(false)) => '0',
            Ok(Some(true)) => '1',
        })
        .collect();
    // the map: `map_aiger_literal(2k)` until it returns None
    let mut map = Vec::new();
    let mut k = 0usize;
    while let Some(l) = a.map_aiger_literal(2 * k) {
        if l != Literal::UNDEF {
            chk("the literal map", l);
        }
        if a.map_aiger_literal(2 * k + 1) != Some(!l) {
            return Err(format!("map_aiger_literal({}) is not the negation of map_aiger_literal({})", 2 * k + 1, 2 * k));
        }
        map.push(l);
        k += 1;
    }
    let mut s = format!(
        "OK c={} in={} g=[{}] i={} l={} init={} o={} m={}",
        n,
        show_names(&in_names),
        gates.join(";"),
        a.inputs(),
        show_lits(a.latches()),
        init,
        show_lits(a.outputs()),
        show_lits(&map)
    );
    if !in_names.is_empty() && in_names.len() != n {
        return Err("input names neither empty nor complete".into());
    }
    if nl > 16 {
        s.push_str(" B ?");
    } else {
        let sec = sections(a)?;
        if sec.inputs != a.inputs() || sec.latches != a.latches() || sec.outputs != a.outputs() || sec.map != map {
            return Err("accessors and Debug rendering disagree".into());
        }
        for (what, list) in [("bad", &sec.bad), ("invariants", &sec.invariants), ("fairness", &sec.fairness)] {
            for &l in list.iter() {
                chk(what, l);
            }
        }
        for j in &sec.justice {
            for &l in j {
                chk("justice", l);
            }
        }
        let lens = [sec.outputs.len(), sec.bad.len(), sec.invariants.len(), sec.justice.len(), sec.fairness.len()];
        for k in 0..5 {
            if !sec.names[k].is_empty() && sec.names[k].len() != lens[k] {
                return Err(format!("{} names for {} {}", sec.names[k].len(), lens[k], SECTION_NAMES[k]));
            }
        }
        s.push_str(&format!(
            " B b={} k={} j=[{}] f={} on={} bn={} kn={} jn={} fn={}",
            show_lits(&sec.bad),
            show_lits(&sec.invariants),
            sec.justice.iter().map(|j| show_lits(j)).collect::<Vec<_>>().join(";"),
            show_lits(&sec.fairness),
            show_names(&sec.names[0]),
            show_names(&sec.names[1]),
            show_names(&sec.names[2]),
            show_names(&sec.names[3]),
            show_names(&sec.names[4])
        ));
    }
    if let Some(m) = insane {
        return Err(m);
    }
    Ok(s)
}

fn panic_kind(msg: &str) -> &'static str {
    if msg.contains("with overflow") {
        "arith"
    } else if msg.contains("index out of bounds") || msg.contains("out of range") {
        "index"
    } else if msg.contains("unwrap()") {
        "unwrap"
    } else if msg.contains("capacity overflow") {
        "capacity"
    } else if msg.contains("too large") || msg.contains("assertion") {
        "debug-assert"
    } else {
        "other"
    }
}

struct Sc {
    /// outputs of the `p` lines of the current case
    outs: Vec<String>,
    /// `run --no-skip 1`: run the parser also on inputs of the resource rule (protocol
    /// `aigparse-noskip`)
    no_skip: bool,
}

impl Scenario for Sc {
    fn reset(&mut self) {
        self.outs.clear();
    }
    fn step(&mut self, line: &str, ctx: &mut Ctx) -> String {
        let w = words(line);
        if w.len() != 3 || (w[0] != "p" && w[0] != "q") || (w[1] != "0" && w[1] != "1") {
            return "bad-op".into();
        }
        let Some(bytes) = unhex(w[2]) else {
            return "bad-op".into();
        };
        // `q`: a regression line that is run in spite of the resource rule
        if !self.no_skip && w[0] == "p" && too_big(&bytes) {
            ctx.count("skip");
            return "SKIP".into();
        }
        let opts = ParseOptionsBuilder::default().check_acyclic(w[1] == "1").build().unwrap();
        let r = catch_unwind(AssertUnwindSafe(|| oxidd_parser::aiger::parse::<()>(&opts)(&bytes).ok().map(|x| (x.0.len(), x.1))));
        let binary = bytes.starts_with(b"aig");
        let known = ctx.case.starts_with("case kf-");
        let out = match r {
            Err(e) => {
                let m = panic_msg(&e);
                ctx.count("panic");
                if !known {
                    ctx.fail("parser-panic", &format!("aiger::parse panics on hex {}: {}", w[2], m));
                }
                format!("PANIC {}", panic_kind(&m))
            }
            Ok(None) => {
                ctx.count("err");
                "ERR".to_string()
            }
            Ok(Some((rest, p))) => {
                ctx.count(if binary { "ok-aig" } else { "ok-aag" });
                if rest != 0 {
                    ctx.fail("parser-rest", &format!("accepted with {} bytes left over (hex {})", rest, w[2]));
                }
                if w[1] == "1" {
                    // accepted with `check_acyclic`: an independent check (Kahn's algorithm over the
                    // gate → gate-input edges) must find the circuit acyclic
                    let c = &p.circuit;
                    let g = c.num_gates();
                    let mut indeg = vec![0usize; g];
                    let mut users: Vec<Vec<usize>> = vec![Vec::new(); g];
                    let mut readable = true;
                    for k in 0..g {
                        match c.gate_for_no(k) {
                            Some(gate) => {
                                for &x in gate.inputs {
                                    if let Some(j) = x.get_gate_no() {
                                        if j < g {
                                            indeg[k] += 1;
                                            users[j].push(k);
                                        }
                                    }
                                }
                            }
                            None => readable = false,
                        }
                    }
                    let mut stack: Vec<usize> = (0..g).filter(|&k| indeg[k] == 0).collect();
                    let mut done = 0;
                    while let Some(k) = stack.pop() {
                        done += 1;
                        for &u in &users[k] {
                            indeg[u] -= 1;
                            if indeg[u] == 0 {
                                stack.push(u);
                            }
                        }
                    }
                    if readable && done != g {
                        ctx.fail("cyclic-accepted", &format!("accepted with check_acyclic although {} of {} gates lie on or behind a cycle (hex {})", g - done, g, w[2]));
                    } else {
                        ctx.count("acyclic-confirmed");
                    }
                }
                match catch_unwind(AssertUnwindSafe(|| show_problem(&p, binary))) {
                    Ok(Ok(s)) => s,
                    Ok(Err(m)) => {
                        ctx.fail("parsed-problem-insane", &format!("hex {}: {}", w[2], m));
                        format!("OK insane {}", m)
                    }
                    Err(e) => {
                        ctx.fail("parsed-problem-insane", &format!("hex {}: panic while reading the problem: {}", w[2], panic_msg(&e)));
                        "OK unreadable".to_string()
                    }
                }
            }
        };
        self.outs.push(out.clone());
        // `case pair-valid…`: line 1 = canonical aag, line 2 = aig of one problem
        if ctx.case.starts_with("case pair") && self.outs.len() == 2 {
            ctx.count("pairs");
            if self.outs[0] != self.outs[1] {
                ctx.fail("aag-aig-differ", &format!("canonical aag and aig of one problem parse differently:\n{}\n{}", self.outs[0], self.outs[1]));
            }
            if !self.outs[0].starts_with("OK") {
                ctx.fail("valid-rejected", &format!("generated valid file is not accepted: {}", self.outs[0]));
            }
        }
        if ctx.case.starts_with("case regress-justice-sum") && out != "ERR" {
            ctx.fail("justice-sum-regression", &format!("17 justice properties of usize::MAX/16 literals each must give a diagnostic, got {}", out));
        }
        if ctx.case.starts_with("case perm") && !out.starts_with("OK") && self.outs.len() == 1 {
            ctx.fail("valid-rejected", &format!("generated valid (renumbered) aag file is not accepted: {}", out));
        }
        out
    }
}

// ------------------------------------------------------------------ generator

/// a structured AIGER 1.9 problem in canonical numbering (inputs 1..=i, latches, AND gates)
#[derive(Clone)]
struct Prob {
    i: usize,
    l: usize,
    /// (rhs0, rhs1) with lhs = 2 * (i + l + 1 + k) > rhs0 >= rhs1
    ands: Vec<(usize, usize)>,
    /// next-state literal and reset: 0 absent, 1 `0`, 2 `1`, 3 the latch literal itself
    latches: Vec<(usize, u8)>,
    outs: Vec<usize>,
    bad: Vec<usize>,
    cons: Vec<usize>,
    just: Vec<Vec<usize>>,
    fair: Vec<usize>,
    /// symbol lines (kind letter, index, name) and the comment section
    syms: Vec<(u8, usize, Vec<u8>)>,
    comment: Option<Vec<u8>>,
}

#[derive(Clone, Copy)]
struct Style {
    sep: &'static str,
    eol: &'static str,
    final_eol: bool,
    full_header: bool,
}

fn rand_name(rng: &mut Rng) -> Vec<u8> {
    let n = rng.below(6) as usize;
    let mut v = Vec::new();
    for _ in 0..n {
        let c = match rng.below(12) {
            0 => b' ',
            1 => b'\t',
            2 => 0xc3, // UTF-8 lead byte, often without continuation
            3 => 0xa9,
            4 => *rng.pick(&[0xe2u8, 0x82, 0xac, 0xf0, 0x9f, 0x98, 0x80, 0xff, 0xc0, 0xed, 0xa0]),
            5 => b'0' + rng.below(10) as u8,
            _ => b'a' + rng.below(26) as u8,
        };
        v.push(c);
    }
    v
}

fn rand_prob(rng: &mut Rng, big: bool) -> Prob {
    let sz = |rng: &mut Rng| -> usize {
        match rng.below(8) {
            0 | 1 => 0,
            2 | 3 => 1,
            4 | 5 => 2,
            6 => 3,
            _ => if big { 5 + rng.below(14) as usize } else { 4 },
        }
    };
    let i = sz(rng);
    let l = sz(rng);
    let a = sz(rng);
    let first_and = i + l + 1;
    let mut ands = Vec::new();
    for k in 0..a {
        let lhs = 2 * (first_and + k);
        let r0 = rng.below(lhs as u64) as usize;
        let r1 = rng.below(r0 as u64 + 1) as usize;
        ands.push((r0, r1));
    }
    let maxlit = 2 * (first_and + a);
    let lit = |rng: &mut Rng| rng.below(maxlit as u64) as usize;
    let latches = (0..l).map(|_| (lit(rng), rng.below(4) as u8)).collect();
    let mut list = |rng: &mut Rng, p: u64| -> Vec<usize> {
        if rng.chance(p, 10) { let n = 1 + rng.below(3) as usize; (0..n).map(|_| lit(rng)).collect() } else { Vec::new() }
    };
    let outs = list(rng, 7);
    let bad = list(rng, 3);
    let cons = list(rng, 3);
    let fair = list(rng, 3);
    let just: Vec<Vec<usize>> = if rng.chance(3, 10) {
        let n = 1 + rng.below(3) as usize;
        (0..n).map(|_| { let m = rng.below(4) as usize; (0..m).map(|_| lit(rng)).collect() }).collect()
    } else {
        Vec::new()
    };
    let mut syms = Vec::new();
    if rng.chance(4, 10) {
        let counts: [(u8, usize); 7] = [(b'i', i), (b'l', l), (b'o', outs.len()), (b'b', bad.len()), (b'c', cons.len()), (b'j', just.len()), (b'f', fair.len())];
        let n = 1 + rng.below(4);
        for _ in 0..n {
            let &(k, c) = rng.pick(&counts);
            if c > 0 {
                let mut name = rand_name(rng);
                // a symbol needs at least one blank after the index; an empty name is allowed
                if rng.chance(1, 8) {
                    name.clear();
                }
                syms.push((k, rng.below(c as u64) as usize, name));
            }
        }
    }
    let comment = if rng.chance(3, 10) { Some(rand_name(rng)) } else { None };
    Prob { i, l, ands, latches, outs, bad, cons, just, fair, syms, comment }
}

impl Prob {
    fn header(&self, fmt: &str, m: usize, st: Style) -> String {
        let mut nums = vec![m, self.i, self.l, self.outs.len(), self.ands.len(), self.bad.len(), self.cons.len(), self.just.len(), self.fair.len()];
        if !st.full_header {
            while nums.len() > 5 && *nums.last().unwrap() == 0 {
                nums.pop();
            }
        }
        let mut s = fmt.to_string();
        for n in nums {
            s.push_str(st.sep);
            s.push_str(&n.to_string());
        }
        s.push_str(st.eol);
        s
    }
    /// symbols, comment; `text_before`: what precedes them ends with a text line (false after the
    /// binary AND section, whose last delta byte may well be a `\n`)
    fn tail(&self, out: &mut Vec<u8>, st: Style, text_before: bool) {
        for (k, idx, name) in &self.syms {
            out.push(*k);
            out.extend(idx.to_string().bytes());
            out.push(b' ');
            out.extend(name);
            out.extend(st.eol.bytes());
        }
        if let Some(c) = &self.comment {
            out.push(b'c');
            out.extend(st.eol.bytes());
            out.extend(c);
            out.extend(st.eol.bytes());
        }
        if !st.final_eol && (text_before || !self.syms.is_empty() || self.comment.is_some()) {
            // drop the last line ending (the parser accepts the end of the input instead)
            let e = st.eol.as_bytes();
            if out.ends_with(e) {
                out.truncate(out.len() - e.len());
            }
        }
    }
    /// `ren[v]` = variable number written for canonical variable `v` (`ren[0] == 0`)
    fn aag(&self, ren: &[usize], m: usize, order: &[usize], st: Style) -> Vec<u8> {
        let r = |lit: usize| 2 * ren[lit / 2] + lit % 2;
        let mut s = self.header("aag", m, st);
        let line = |s: &mut String, toks: &[usize]| {
            for (k, t) in toks.iter().enumerate() {
                if k > 0 {
                    s.push_str(st.sep);
                }
                s.push_str(&t.to_string());
            }
            s.push_str(st.eol);
        };
        for v in 1..=self.i {
            line(&mut s, &[r(2 * v)]);
        }
        for (k, &(nx, init)) in self.latches.iter().enumerate() {
            let me = r(2 * (self.i + 1 + k));
            match init {
                0 => line(&mut s, &[me, r(nx)]),
                1 => line(&mut s, &[me, r(nx), 0]),
                2 => line(&mut s, &[me, r(nx), 1]),
                _ => line(&mut s, &[me, r(nx), me]),
            }
        }
        for &x in self.outs.iter().chain(&self.bad).chain(&self.cons) {
            line(&mut s, &[r(x)]);
        }
        for j in &self.just {
            line(&mut s, &[j.len()]);
        }
        for j in &self.just {
            for &x in j {
                line(&mut s, &[r(x)]);
            }
        }
        for &x in &self.fair {
            line(&mut s, &[r(x)]);
        }
        let fa = self.i + self.l + 1;
        for &k in order {
            let (a, b) = self.ands[k];
            line(&mut s, &[r(2 * (fa + k)), r(a), r(b)]);
        }
        let mut out = s.into_bytes();
        self.tail(&mut out, st, true);
        out
    }
    fn aag_canonical(&self, st: Style) -> Vec<u8> {
        let m = self.i + self.l + self.ands.len();
        let ren: Vec<usize> = (0..=m).collect();
        let order: Vec<usize> = (0..self.ands.len()).collect();
        self.aag(&ren, m, &order, st)
    }
    fn aag_permuted(&self, rng: &mut Rng, st: Style) -> Vec<u8> {
        let n = self.i + self.l + self.ands.len();
        let m = n + rng.below(4) as usize;
        let mut nums: Vec<usize> = (1..=m).collect();
        rng.shuffle(&mut nums);
        let mut ren = vec![0];
        ren.extend(nums.into_iter().take(n));
        let mut order: Vec<usize> = (0..self.ands.len()).collect();
        rng.shuffle(&mut order);
        self.aag(&ren, m, &order, st)
    }
    fn aig(&self, st: Style) -> Vec<u8> {
        let m = self.i + self.l + self.ands.len();
        let mut s = self.header("aig", m, st);
        let line = |s: &mut String, toks: &[usize]| {
            for (k, t) in toks.iter().enumerate() {
                if k > 0 {
                    s.push_str(st.sep);
                }
                s.push_str(&t.to_string());
            }
            s.push_str(st.eol);
        };
        for (k, &(nx, init)) in self.latches.iter().enumerate() {
            let me = 2 * (self.i + 1 + k);
            match init {
                0 => line(&mut s, &[nx]),
                1 => line(&mut s, &[nx, 0]),
                2 => line(&mut s, &[nx, 1]),
                _ => line(&mut s, &[nx, me]),
            }
        }
        for &x in self.outs.iter().chain(&self.bad).chain(&self.cons) {
            line(&mut s, &[x]);
        }
        for j in &self.just {
            line(&mut s, &[j.len()]);
        }
        for j in &self.just {
            for &x in j {
                line(&mut s, &[x]);
            }
        }
        for &x in &self.fair {
            line(&mut s, &[x]);
        }
        let mut out = s.into_bytes();
        let fa = self.i + self.l + 1;
        let enc = |out: &mut Vec<u8>, mut x: usize| {
            while x >= 128 {
                out.push((x % 128) as u8 | 128);
                x /= 128;
            }
            out.push(x as u8);
        };
        for (k, &(a, b)) in self.ands.iter().enumerate() {
            enc(&mut out, 2 * (fa + k) - a);
            enc(&mut out, a - b);
        }
        self.tail(&mut out, st, self.ands.is_empty());
        out
    }
}

const STRICT: Style = Style { sep: " ", eol: "\n", final_eol: true, full_header: false };

fn rand_style(rng: &mut Rng) -> Style {
    Style {
        sep: *rng.pick(&[" ", " ", " ", "  ", "\t", " \t "]),
        eol: *rng.pick(&["\n", "\n", "\n", "\r\n", " \n", "\t\r\n"]),
        final_eol: !rng.chance(1, 4),
        full_header: rng.chance(1, 4),
    }
}

const BOUNDARY: [&str; 22] = [
    "0", "1", "2", "3", "9999", "18446744073709551615", "18446744073709551616", "18446744073709551614",
    "1152921504606846976", "1152921504606846977", "4611686018427387904", "9223372036854775808",
    "99999999999999999999999999999", "0000000000000000000000000000001", "00", "-1", "+1", "", " ", "2a", "0x2", "\u{665}",
];

/// positions (start, end) of the decimal tokens of `b`
fn num_tokens(b: &[u8]) -> Vec<(usize, usize)> {
    let mut v = Vec::new();
    let mut i = 0;
    while i < b.len() {
        if b[i].is_ascii_digit() {
            let s = i;
            while i < b.len() && b[i].is_ascii_digit() {
                i += 1;
            }
            v.push((s, i));
        } else {
            i += 1;
        }
    }
    v
}

fn mutate(rng: &mut Rng, base: &[u8]) -> Vec<u8> {
    let mut v = base.to_vec();
    let n = 1 + rng.below(2);
    for _ in 0..n {
        let interesting: [u8; 24] = [b' ', b'\t', b'\n', b'\r', b'0', b'1', b'2', b'9', b'a', b'g', b'i', b'l', b'o', b'b', b'c', b'j', b'f', 0, 0x7f, 0x80, 0xff, b'-', b'3', b'5'];
        let pos = if v.is_empty() { 0 } else { rng.below(v.len() as u64) as usize };
        match rng.below(9) {
            0 | 1 if !v.is_empty() => v[pos] = *rng.pick(&interesting),
            2 => v.insert(pos, *rng.pick(&interesting)),
            3 if !v.is_empty() => {
                v.remove(pos);
            }
            4 if !v.is_empty() => v[pos] ^= 1 << rng.below(8),
            5 => {
                // replace a numeric token by a small number
                let t = num_tokens(&v);
                if !t.is_empty() {
                    let &(s, e) = rng.pick(&t);
                    let x = rng.below(24).to_string();
                    v.splice(s..e, x.bytes());
                }
            }
            6 => {
                // replace a numeric token by a boundary value
                let t = num_tokens(&v);
                if !t.is_empty() {
                    let &(s, e) = rng.pick(&t);
                    v.splice(s..e, rng.pick(&BOUNDARY).bytes());
                }
            }
            7 => {
                // duplicate or delete a line
                let lines: Vec<usize> = std::iter::once(0).chain(v.iter().enumerate().filter(|x| *x.1 == b'\n').map(|x| x.0 + 1)).collect();
                let k = rng.below(lines.len() as u64) as usize;
                let s = lines[k];
                let e = if k + 1 < lines.len() { lines[k + 1] } else { v.len() };
                if rng.chance(1, 2) {
                    let l = v[s..e].to_vec();
                    v.splice(s..s, l);
                } else {
                    v.drain(s..e);
                }
            }
            _ => {
                // random byte
                if !v.is_empty() {
                    v[pos] = rng.below(256) as u8;
                }
            }
        }
    }
    v
}

fn generate(cfg: &GenCfg, rng: &mut Rng, w: &mut dyn Write) {
    let scale = cfg.scale.max(1) as usize;
    let nprob = if cfg.thorough { 10000 * scale } else { 1000 * scale };
    let emit = |w: &mut dyn Write, acyc: bool, b: &[u8]| {
        writeln!(w, "p {} {}", if acyc { 1 } else { 0 }, if b.is_empty() { "-".to_string() } else { hex(b) }).unwrap();
    };
    // fixed inputs: the examples of the AIGER documentation, degenerate inputs
    writeln!(w, "case fixed").unwrap();
    let fixed: [&[u8]; 28] = [
        b"", b"a", b"aag", b"aig", b"aag 0 0 0 0 0", b"aag 0 0 0 0 0\n", b"aig 0 0 0 0 0\n", b"aag 0 0 0 0 0\r\n", b"aag 0 0 0 0 0\r",
        b"aagx 0 0 0 0 0\n", b"aag0 0 0 0 0\n", b"aag\t0 0 0 0 0 \t\n", b"aag 0 0 0 0\n", b"aag 0 0 0 0 0 0 0 0 0 0\n", b"aag 0 0 0 0 0 0 0 0 0\nc",
        b"aag 3 2 0 1 1\n2\n4\n6\n6 4 2\n", b"aig 3 2 0 1 1\n6\n\x02\x02", b"aag 1 0 0 0 1\n2 2 2\n", b"aag 2 0 0 0 2\n2 4 4\n4 2 2\n",
        b"aag 7 2 0 2 3\n2\n4\n6\n12\n6 13 15\n12 2 4\n14 3 5\ni0 x\ni1 y\no0 s\no1 c\nc\nhalf adder\n",
        b"aig 5 2 0 2 3\n10\n6\n\x02\x02\x03\x02\x01\x02i0 x\ni1 y\no0 s\no1 c\nc\nhalf adder\n",
        b"aag 1 0 1 2 0\n2 3\n2\n3\n", b"aig 1 0 1 2 0\n3\n2\n3\n",
        b"aag 5 1 1 0 3 1 1\n2\n4 10 0\n4\n3\n6 5 3\n8 4 2\n10 9 7\n", b"aig 5 1 1 0 3 1 1\n10 0\n4\n3\n\x01\x02\x04\x02\x01\x02",
        b"aag 3 2 0 1 1 1 1 2 1\n2\n4\n6\n2\n3\n1\n2\n1\n4\n5\n6\n6 4 2\n", b"aig 3 2 0 1 1 1 1 2 1\n6\n2\n3\n1\n2\n1\n4\n5\n6\n\x02\x02",
        b"aag 0 0 0 0 0\nc0 x\n",
    ];
    for f in fixed {
        emit(w, true, f);
        emit(w, false, f);
    }
    // latch reset values: TVBitVec keeps everything in its first block
    writeln!(w, "case latches").unwrap();
    for n in [1usize, 2, 3, 4, 5, 16, 17, 18, 33] {
        for pat in 0..4u8 {
            let mut p = rand_prob(rng, false);
            p.i = 0;
            p.l = n;
            p.ands.clear();
            p.latches = (0..n).map(|k| (0, if pat == 3 { (k % 4) as u8 } else { pat + 1 })).collect();
            p.outs = vec![2];
            p.bad.clear();
            p.cons.clear();
            p.just.clear();
            p.fair.clear();
            p.syms.clear();
            p.comment = None;
            emit(w, true, &p.aag_canonical(STRICT));
            emit(w, true, &p.aig(STRICT));
        }
    }
    for k in 0..nprob {
        let p = rand_prob(rng, k % 7 == 0);
        let acyc = !rng.chance(1, 5);
        writeln!(w, "case pair-{}", k).unwrap();
        let st = if rng.chance(1, 2) { STRICT } else { rand_style(rng) };
        let aag = p.aag_canonical(st);
        let aig = p.aig(st);
        emit(w, acyc, &aag);
        emit(w, acyc, &aig);
        writeln!(w, "case perm-{}", k).unwrap();
        let st2 = rand_style(rng);
        let perm = p.aag_permuted(rng, st2);
        emit(w, acyc, &perm);
        writeln!(w, "case mut-{}", k).unwrap();
        for base in [&aag, &aig, &perm] {
            // prefixes
            if base.len() <= 40 || k % 10 == 0 {
                for n in 0..base.len() {
                    emit(w, acyc, &base[..n]);
                }
            } else {
                for _ in 0..4 {
                    let n = rng.below(base.len() as u64) as usize;
                    emit(w, acyc, &base[..n]);
                }
            }
            let nm = if cfg.thorough { 12 } else { 8 };
            for _ in 0..nm {
                let m = mutate(rng, base);
                emit(w, acyc, &m);
            }
        }
        // 7-bit delta boundaries in the AND section of the binary file
        if !p.ands.is_empty() && k % 3 == 0 {
            let encs: [&[u8]; 12] = [&[0], &[1], &[0x7f], &[0x80, 0], &[0x80, 0x80, 0], &[0x80], &[0xff, 0xff, 0xff, 0xff, 0xff, 0xff, 0xff, 0xff, 0xff, 0x01],
                &[0xff, 0xff, 0xff, 0xff, 0xff, 0xff, 0xff, 0xff, 0xff, 0x7f], &[0x80, 0x80, 0x80, 0x80, 0x80, 0x80, 0x80, 0x80, 0x80, 0x80, 0x01], &[0x82, 0x00], &[0x02], &[0xff]];
            // the AND section starts where the file without AND gates, symbols and comment ends
            let mut q = p.clone();
            q.syms.clear();
            q.comment = None;
            let with_ands = q.aig(Style { final_eol: true, ..st }).len();
            let delta_bytes: usize = q.ands.iter().enumerate().map(|(kk, &(a, b))| {
                let l = |mut x: usize| { let mut n = 1; while x >= 128 { x /= 128; n += 1; } n };
                l(2 * (q.i + q.l + 1 + kk) - a) + l(a - b)
            }).sum();
            let text_len = with_ands - delta_bytes;
            for _ in 0..3 {
                let e = *rng.pick(&encs);
                let mut v = aig.clone();
                let at = (text_len + rng.below(delta_bytes as u64) as usize).min(v.len() - 1);
                v.splice(at..at + 1, e.iter().copied());
                emit(w, acyc, &v);
            }
        }
    }
    // ASCII files whose AND gates are defined in an arbitrary order and refer to arbitrary gates
    // (forward, backward, themselves): cycles through every position of the definition order
    let ncyc = if cfg.thorough { 6000 * scale } else { 600 * scale };
    for k in 0..ncyc {
        let i = rng.range(1, 3) as usize;
        let a = rng.range(2, 7) as usize;
        let mut def: Vec<usize> = (0..a).collect();
        rng.shuffle(&mut def);
        let lit_of_gate = |g: usize| 2 * (i + 1 + g);
        let mut body = String::new();
        for v in 1..=i {
            body.push_str(&format!("{}\n", 2 * v));
        }
        let out = lit_of_gate(rng.below(a as u64) as usize) + rng.below(2) as usize;
        body.push_str(&format!("{}\n", out));
        let dense = rng.chance(1, 2);
        for &g in &def {
            let mut rhs = [0usize; 2];
            for r in rhs.iter_mut() {
                let base = if rng.chance(if dense { 3 } else { 1 }, 4) {
                    lit_of_gate(rng.below(a as u64) as usize)
                } else if rng.chance(1, 8) {
                    0
                } else {
                    2 * rng.range(1, i as u64) as usize
                };
                *r = base + rng.below(2) as usize;
            }
            body.push_str(&format!("{} {} {}\n", lit_of_gate(g), rhs[0], rhs[1]));
        }
        let file = format!("aag {} {} 0 1 {}\n{}", i + a, i, a, body);
        writeln!(w, "case cyc-{}", k).unwrap();
        emit(w, true, file.as_bytes());
        emit(w, false, file.as_bytes());
    }
    // resource rule and known-finding candidates
    writeln!(w, "case skip-rule").unwrap();
    for f in [&b"aag 10000 0 0 0 0\n"[..], b"aag 9999 0 0 0 0\n", b"aag 1152921504606846975 0 0 0 0\n", b"aag 1152921504606846976 0 0 0 0\n", b"aag 0 0 0 0 0 0 0 1\n010000\n", b"aag 0 0 0 0 0\nc 10000"] {
        emit(w, true, f);
    }
    // regression of the repaired justice-sum overflow (commit a6ab3b1 of /repo): 17 justice
    // properties of usize::MAX/16 literals each; `q` lines are run in spite of the resource rule
    // (the fixed parser bounds the reservation by the input length) and must give a diagnostic
    writeln!(w, "case regress-justice-sum").unwrap();
    for fmt in ["aag", "aig"] {
        for n in [16usize, 17, 18, 40] {
            let mut f = format!("{} 0 0 0 0 0 0 0 {}\n", fmt, n).into_bytes();
            for _ in 0..n {
                f.extend(b"1152921504606846975\n");
            }
            for acyc in [0, 1] {
                writeln!(w, "q {} {}", acyc, hex(&f)).unwrap();
            }
        }
    }
}

fn make(_f: &BTreeMap<String, String>) -> Box<dyn Scenario> {
    Box::new(Sc { outs: Vec::new(), no_skip: _f.get("no-skip").map(|s| s == "1").unwrap_or(false) })
}
fn main() {
    harness_main(generate, make)
}
