//! C18 (part 1): `oxidd_parser::Circuit::simplify` on the real code.
//!
//! Protocol `circ`. One operation line is one circuit plus its roots:
//!
//! ```text
//! circ <ninputs> ; <kind> <lit>* ; <kind> <lit>* ; ... ; roots <lit>*
//! ```
//!
//! `<kind>` is `and|or|xor`, `<lit>` is `F T i<k> !i<k> g<k> !g<k> U !U` (`U` is
//! `Literal::UNDEF`). Output (identical to the Lean driver's):
//!
//! ```text
//! ok ; <kind> <lit>* ; ... ; map <lit|U>*        simplified gates in order, then the gate map
//! err cycle g<k>                                  Err(l) with l a gate
//! err input <lit>                                 Err(l) with l not a gate
//! panic index | panic bitset | panic other        the call panicked (classified by message)
//! ```
//!
//! A second operation ties the model of the binary AIGER delta coding to the real parser:
//!
//! ```text
//! aigand <ninputs> <hex bytes>      file "aig <n+1> <n> 0 0 1\n" followed by the bytes
//! ```
//!
//! with output `ok <lit> <lit>` (the two inputs of the AND gate as parsed), `err` (diagnostic),
//! `panic`, or `bad-op` when the bytes are not a prefix of exactly two 7-bit integers.
//!
//! Oracles (independent of the Lean model): own DFS for reachability / cycles / unknown inputs,
//! truth tables of every reachable gate before and after, the five documented normal-form
//! conditions, topological order and well-scopedness of the result, gate-map consistency, error
//! contract, no panic.
use oxidd_parser::{Circuit, GateKind, Literal, VarSet};
use oxv::*;
use std::collections::BTreeMap;
use std::io::Write;
use std::panic::{AssertUnwindSafe, catch_unwind};

// ------------------------------------------------------------------ own representation

#[derive(Clone, Copy, PartialEq, Eq, PartialOrd, Ord, Debug, Hash)]
enum L {
    F,
    T,
    In(bool, usize),
    Gate(bool, usize),
    /// `Literal::UNDEF` (negated: the internal DISCOVERED marker)
    U(bool),
}

#[derive(Clone, Copy, PartialEq, Eq, PartialOrd, Ord, Debug, Hash)]
enum K {
    And,
    Or,
    Xor,
}

#[derive(Clone, Debug)]
struct Src {
    n: usize,
    gates: Vec<(K, Vec<L>)>,
    roots: Vec<L>,
}

fn show_l(l: L) -> String {
    match l {
        L::F => "F".into(),
        L::T => "T".into(),
        L::In(neg, i) => format!("{}i{}", if neg { "!" } else { "" }, i),
        L::Gate(neg, g) => format!("{}g{}", if neg { "!" } else { "" }, g),
        L::U(neg) => format!("{}U", if neg { "!" } else { "" }),
    }
}
fn show_k(k: K) -> &'static str {
    match k {
        K::And => "and",
        K::Or => "or",
        K::Xor => "xor",
    }
}
fn parse_l(s: &str) -> Option<L> {
    let (neg, r) = match s.strip_prefix('!') {
        Some(r) => (true, r),
        None => (false, s),
    };
    match r {
        "F" if !neg => Some(L::F),
        "T" if !neg => Some(L::T),
        "U" => Some(L::U(neg)),
        _ => {
            let (c, num) = r.split_at(r.chars().next()?.len_utf8());
            if num.is_empty() || !num.bytes().all(|b| b.is_ascii_digit()) || num.len() > 9 {
                return None;
            }
            let k: usize = num.parse().ok()?;
            match c {
                "i" => Some(L::In(neg, k)),
                "g" => Some(L::Gate(neg, k)),
                _ => None,
            }
        }
    }
}
fn parse_line(line: &str) -> Option<Src> {
    let mut parts = line.split(';').map(|p| words(p));
    let head = parts.next()?;
    if head.len() != 2 || head[0] != "circ" {
        return None;
    }
    if head[1].is_empty() || !head[1].bytes().all(|b| b.is_ascii_digit()) || head[1].len() > 9 {
        return None;
    }
    let n: usize = head[1].parse().ok()?;
    let mut gates = Vec::new();
    let mut roots = None;
    for p in parts {
        if roots.is_some() || p.is_empty() {
            return None;
        }
        let lits: Option<Vec<L>> = p[1..].iter().map(|s| parse_l(s)).collect();
        let lits = lits?;
        match p[0] {
            "and" => gates.push((K::And, lits)),
            "or" => gates.push((K::Or, lits)),
            "xor" => gates.push((K::Xor, lits)),
            "roots" => roots = Some(lits),
            _ => return None,
        }
    }
    Some(Src { n, gates, roots: roots? })
}
fn show_src(s: &Src) -> String {
    let mut o = format!("circ {}", s.n);
    for (k, ls) in &s.gates {
        o.push_str(" ; ");
        o.push_str(show_k(*k));
        for l in ls {
            o.push(' ');
            o.push_str(&show_l(*l));
        }
    }
    o.push_str(" ; roots");
    for l in &s.roots {
        o.push(' ');
        o.push_str(&show_l(*l));
    }
    o
}

// ------------------------------------------------------------------ to / from the real types

fn to_real(l: L) -> Literal {
    match l {
        L::F => Literal::FALSE,
        L::T => Literal::TRUE,
        L::In(neg, i) => Literal::from_input(neg, i),
        L::Gate(neg, g) => Literal::from_gate(neg, g),
        L::U(false) => Literal::UNDEF,
        L::U(true) => !Literal::UNDEF,
    }
}
fn from_real(l: Literal) -> L {
    if l == Literal::FALSE {
        L::F
    } else if l == Literal::TRUE {
        L::T
    } else if l == Literal::UNDEF {
        L::U(false)
    } else if l == !Literal::UNDEF {
        L::U(true)
    } else if let Some(g) = l.get_gate_no() {
        L::Gate(l.is_negative(), g)
    } else {
        L::In(l.is_negative(), l.get_input().unwrap())
    }
}
fn to_real_kind(k: K) -> GateKind {
    match k {
        K::And => GateKind::And,
        K::Or => GateKind::Or,
        K::Xor => GateKind::Xor,
    }
}
fn from_real_kind(k: GateKind) -> K {
    match k {
        GateKind::And => K::And,
        GateKind::Or => K::Or,
        GateKind::Xor => K::Xor,
    }
}
fn build(s: &Src) -> Circuit {
    let mut c = Circuit::new(VarSet::new(s.n));
    for (k, ls) in &s.gates {
        c.push_gate(to_real_kind(*k));
        c.push_gate_inputs(ls.iter().map(|l| to_real(*l)));
    }
    c
}

// ------------------------------------------------------------------ reference semantics

/// What the harness's own DFS finds in the fragment reachable from the roots
#[derive(Default, Debug)]
struct Reach {
    /// reachable gates in post-order (children first); only meaningful if acyclic and in range
    post: Vec<usize>,
    seen: Vec<bool>,
    oob_gate: bool,
    /// gates that lie on a reachable cycle
    on_cycle: Vec<bool>,
    any_cycle: bool,
    /// unknown input literals (index >= n, or U) occurring in reachable gates
    unknown_in_gates: Vec<L>,
    /// unknown input literals among the roots themselves
    unknown_roots: Vec<L>,
}

fn is_unknown(l: L, n: usize) -> bool {
    match l {
        L::In(_, i) => i >= n,
        L::U(_) => true,
        _ => false,
    }
}

fn reach(s: &Src) -> Reach {
    let g = s.gates.len();
    let mut r = Reach { seen: vec![false; g], on_cycle: vec![false; g], ..Default::default() };
    // iterative DFS with colours: 0 white, 1 grey, 2 black
    let mut colour = vec![0u8; g];
    for root in &s.roots {
        if is_unknown(*root, s.n) {
            r.unknown_roots.push(*root);
        }
        let L::Gate(_, start) = *root else { continue };
        if start >= g {
            r.oob_gate = true;
            continue;
        }
        if colour[start] != 0 {
            continue;
        }
        let mut stack: Vec<(usize, usize)> = vec![(start, 0)];
        colour[start] = 1;
        while let Some(&mut (v, ref mut k)) = stack.last_mut() {
            let ins = &s.gates[v].1;
            if *k < ins.len() {
                let l = ins[*k];
                *k += 1;
                if is_unknown(l, s.n) {
                    r.unknown_in_gates.push(l);
                }
                if let L::Gate(_, w) = l {
                    if w >= g {
                        r.oob_gate = true;
                    } else if colour[w] == 0 {
                        colour[w] = 1;
                        stack.push((w, 0));
                    } else if colour[w] == 1 {
                        r.any_cycle = true;
                    }
                }
            } else {
                colour[v] = 2;
                r.post.push(v);
                stack.pop();
            }
        }
    }
    for v in 0..g {
        r.seen[v] = colour[v] == 2;
    }
    // a gate is on a cycle iff it can reach itself (small circuits: plain search per gate)
    if r.any_cycle {
        for v in 0..g {
            if !r.seen[v] {
                continue;
            }
            let mut vis = vec![false; g];
            let mut st = vec![v];
            let mut first = true;
            while let Some(x) = st.pop() {
                if x == v && !first {
                    r.on_cycle[v] = true;
                    break;
                }
                first = false;
                for l in &s.gates[x].1 {
                    if let L::Gate(_, w) = *l {
                        if w < g && (!vis[w] || w == v) {
                            vis[w] = true;
                            st.push(w);
                        }
                    }
                }
            }
        }
    }
    r
}

fn lit_val(l: L, asg: u32, gate_vals: &[bool]) -> bool {
    match l {
        L::F => false,
        L::T => true,
        L::In(neg, i) => (((asg >> i) & 1) != 0) ^ neg,
        L::Gate(neg, g) => gate_vals[g] ^ neg,
        L::U(_) => unreachable!(),
    }
}
fn gate_val(k: K, ins: &[L], asg: u32, gate_vals: &[bool]) -> bool {
    match k {
        K::And => ins.iter().all(|l| lit_val(*l, asg, gate_vals)),
        K::Or => ins.iter().any(|l| lit_val(*l, asg, gate_vals)),
        K::Xor => ins.iter().fold(false, |a, l| a ^ lit_val(*l, asg, gate_vals)),
    }
}

// ------------------------------------------------------------------ the scenario

struct Circ;

enum Outcome {
    Ok(Vec<(K, Vec<L>)>, Vec<L>),
    Err(L),
    Panic(String),
}

fn run_real(s: &Src) -> Outcome {
    let r = catch_unwind(AssertUnwindSafe(|| {
        let c = build(s);
        c.simplify(s.roots.iter().map(|l| to_real(*l)))
    }));
    match r {
        Ok(Ok((c, map))) => {
            let gates = c.iter_gates().map(|g| (from_real_kind(g.kind), g.inputs.iter().map(|l| from_real(*l)).collect())).collect();
            Outcome::Ok(gates, map.iter().map(|l| from_real(*l)).collect())
        }
        Ok(Err(l)) => Outcome::Err(from_real(l)),
        Err(e) => {
            let msg = if let Some(s) = e.downcast_ref::<String>() {
                s.clone()
            } else if let Some(s) = e.downcast_ref::<&str>() {
                s.to_string()
            } else {
                "?".into()
            };
            Outcome::Panic(msg)
        }
    }
}

fn render(o: &Outcome) -> String {
    match o {
        Outcome::Ok(gates, map) => {
            let mut out = String::from("ok");
            for (k, ls) in gates {
                out.push_str(" ; ");
                out.push_str(show_k(*k));
                for l in ls {
                    out.push(' ');
                    out.push_str(&show_l(*l));
                }
            }
            out.push_str(" ; map");
            for l in map {
                out.push(' ');
                out.push_str(&show_l(*l));
            }
            out
        }
        Outcome::Err(l @ L::Gate(..)) => format!("err cycle {}", show_l(*l)),
        Outcome::Err(l) => format!("err input {}", show_l(*l)),
        Outcome::Panic(m) => {
            if m.contains("exceeds fixedbitset size") {
                "panic bitset".into()
            } else if m.contains("index out of bounds") {
                "panic index".into()
            } else {
                "panic other".into()
            }
        }
    }
}

fn var_key(l: L) -> (u8, usize) {
    match l {
        L::F | L::T => (0, 0),
        L::In(_, i) => (1, i),
        L::Gate(_, g) => (2, g),
        L::U(_) => (3, 0),
    }
}
fn is_neg(l: L) -> bool {
    matches!(l, L::T | L::In(true, _) | L::Gate(true, _) | L::U(true))
}

fn oracle(s: &Src, out: &Outcome, line: &str, ctx: &mut Ctx) {
    let r = reach(s);
    if r.oob_gate {
        // a literal naming a gate that does not exist: outside the documented contract
        ctx.count("precondition:dangling-gate-reference");
        if matches!(out, Outcome::Panic(_)) {
            ctx.count("dangling-gate-reference panics (index out of bounds)");
        }
        return;
    }
    let has_unknown = !r.unknown_in_gates.is_empty();
    if let Outcome::Panic(m) = out {
        let sig = if has_unknown && m.contains("fixedbitset") { "unknown-input-panic" } else { "simplify-panic" };
        ctx.fail(sig, &format!("`{}`: simplify panicked: {}", line, m));
        return;
    }
    let has_unknown_root = !r.unknown_roots.is_empty();
    if r.any_cycle || has_unknown {
        ctx.count(if r.any_cycle && has_unknown {
            "expect-err:cycle+unknown"
        } else if r.any_cycle {
            "expect-err:cycle"
        } else {
            "expect-err:unknown-input"
        });
        match out {
            Outcome::Ok(..) => {
                let sig = if r.any_cycle { "cycle-accepted" } else { "unknown-input-accepted" };
                ctx.fail(
                    sig,
                    &format!(
                        "`{}`: reachable fragment has {} but simplify returned Ok: {}",
                        line,
                        if r.any_cycle { "a cycle".to_string() } else { format!("unknown input {}", show_l(r.unknown_in_gates[0])) },
                        render(out)
                    ),
                );
            }
            Outcome::Err(L::Gate(_, g)) => {
                if !(r.any_cycle && *g < s.gates.len() && r.on_cycle[*g]) {
                    ctx.fail("wrong-error-literal", &format!("`{}`: Err names gate g{} which is not on a reachable cycle", line, g));
                }
            }
            Outcome::Err(l) => {
                // polarity of the reported literal is not specified; compare the variable
                if !r.unknown_in_gates.iter().chain(r.unknown_roots.iter()).any(|u| var_key(*u) == var_key(*l)) {
                    ctx.fail("wrong-error-literal", &format!("`{}`: Err names {} which is not a reachable unknown input", line, show_l(*l)));
                }
            }
            Outcome::Panic(_) => unreachable!(),
        }
        return;
    }
    // acyclic and well-scoped gates: must succeed (unless a root itself is an unknown input)
    let (gates, map) = match out {
        Outcome::Ok(g, m) => (g, m),
        Outcome::Err(l) => {
            if has_unknown_root && r.unknown_roots.iter().any(|u| var_key(*u) == var_key(*l)) {
                ctx.count("expect-err:unknown-input-root");
            } else {
                ctx.fail("spurious-error", &format!("`{}`: acyclic, well-scoped circuit but simplify returned Err({})", line, show_l(*l)));
            }
            return;
        }
        Outcome::Panic(_) => unreachable!(),
    };
    ctx.count("expect-ok");
    if has_unknown_root {
        ctx.count("root-is-unknown-input");
        ctx.fail(
            "unknown-input-root-accepted",
            &format!("`{}`: root {} is an unknown input but simplify returned Ok", line, show_l(r.unknown_roots[0])),
        );
    }
    let ng = gates.len();
    // ---- well-scoped + topologically sorted result
    let mut scoped = true;
    for (j, (_, ins)) in gates.iter().enumerate() {
        for l in ins {
            let ok = match *l {
                L::F | L::T => true,
                L::In(_, i) => i < s.n,
                L::Gate(_, g) => g < j,
                L::U(_) => false,
            };
            if !ok {
                scoped = false;
                ctx.fail("not-topo", &format!("`{}`: new gate g{} has input {} (not a known input / earlier gate): {}", line, j, show_l(*l), render(out)));
            }
        }
    }
    // ---- normal form 1..5
    for (j, (k, ins)) in gates.iter().enumerate() {
        if ins.iter().any(|l| matches!(l, L::F | L::T)) {
            ctx.fail("nf1-const-input", &format!("`{}`: new gate g{} has a constant input: {}", line, j, render(out)));
        }
        if *k == K::Xor && ins.iter().any(|l| is_neg(*l) && !matches!(l, L::T)) {
            ctx.fail("nf2-xor-neg-input", &format!("`{}`: new XOR gate g{} has a negated input: {}", line, j, render(out)));
        }
        let mut vs: Vec<_> = ins.iter().map(|l| var_key(*l)).collect();
        vs.sort();
        if vs.windows(2).any(|w| w[0] == w[1]) {
            ctx.fail("nf3-dup-input", &format!("`{}`: new gate g{} has two inputs over the same variable: {}", line, j, render(out)));
        }
        if ins.len() < 2 {
            ctx.fail("nf4-arity", &format!("`{}`: new gate g{} has {} input(s): {}", line, j, ins.len(), render(out)));
        }
    }
    let mut keys: Vec<(K, Vec<L>)> = gates.iter().map(|(k, ins)| { let mut v = ins.clone(); v.sort(); (*k, v) }).collect();
    keys.sort();
    if keys.windows(2).any(|w| w[0] == w[1]) {
        ctx.fail("nf5-dup-gate", &format!("`{}`: two structurally equal gates: {}", line, render(out)));
    }
    // ---- gate map
    if map.len() != s.gates.len() {
        ctx.fail("map-inconsistent", &format!("`{}`: gate map has {} entries for {} gates", line, map.len(), s.gates.len()));
        return;
    }
    let mut map_ok = true;
    for g in 0..s.gates.len() {
        let ok = match map[g] {
            L::F | L::T => r.seen[g],
            L::In(_, i) => r.seen[g] && i < s.n,
            L::Gate(_, k) => r.seen[g] && k < ng,
            L::U(false) => !r.seen[g],
            L::U(true) => false,
        };
        if !ok {
            map_ok = false;
            ctx.fail("map-inconsistent", &format!("`{}`: gate map entry {} of {} gate g{}: {}", line, show_l(map[g]),
                if r.seen[g] { "reachable" } else { "unreachable" }, g, render(out)));
        }
    }
    if !scoped || !map_ok {
        return;
    }
    // ---- truth tables: every reachable gate (hence every root) before and after
    if s.n > 10 {
        ctx.count("skipped-truth-table (more than 10 inputs)");
        return;
    }
    let mut old_vals = vec![false; s.gates.len()];
    let mut new_vals = vec![false; ng];
    for asg in 0..(1u32 << s.n) {
        for &g in &r.post {
            old_vals[g] = gate_val(s.gates[g].0, &s.gates[g].1, asg, &old_vals);
        }
        for j in 0..ng {
            new_vals[j] = gate_val(gates[j].0, &gates[j].1, asg, &new_vals);
        }
        for &g in &r.post {
            if lit_val(map[g], asg, &new_vals) != old_vals[g] {
                ctx.fail("not-equivalent", &format!("`{}`: gate g{} is {} under assignment {:#b} but its image {} is {}: {}", line, g,
                    old_vals[g], asg, show_l(map[g]), !old_vals[g], render(out)));
                return;
            }
        }
    }
    ctx.count("truth-table-equivalent");
    // coverage of the interesting outcomes
    ctx.count(match ng {
        0 => "cover:new-gates=0",
        1 => "cover:new-gates=1",
        2..=4 => "cover:new-gates=2-4",
        _ => "cover:new-gates>=5",
    });
    let mut images: Vec<usize> = r.post.iter().filter_map(|&g| if let L::Gate(_, k) = map[g] { Some(k) } else { None }).collect();
    let n_img = images.len();
    images.sort();
    images.dedup();
    if images.len() < n_img {
        ctx.count("cover:two-old-gates-share-one-new-gate (hashing or forwarding)");
    }
    if r.post.iter().any(|&g| matches!(map[g], L::F | L::T) && !s.gates[g].1.iter().all(|l| matches!(l, L::F | L::T))) {
        ctx.count("cover:non-constant gate folded to a constant");
    }
    if r.post.iter().any(|&g| matches!(map[g], L::In(..))) {
        ctx.count("cover:gate forwarded to an input");
    }
    if gates.iter().any(|(k, _)| *k == K::Xor) && map.iter().any(|l| matches!(l, L::Gate(true, _))) {
        ctx.count("cover:xor with negated output");
    }
    if ng == 0 { ctx.count("result:no-gates"); }
    if ng < r.post.len() { ctx.count("result:fewer-gates-than-reachable"); }
}

fn hex_bytes(s: &str) -> Option<Vec<u8>> {
    if s == "-" {
        return Some(Vec::new());
    }
    if s.len() % 2 != 0 || s.len() > 64 {
        return None;
    }
    (0..s.len() / 2).map(|i| u8::from_str_radix(s.get(2 * i..2 * i + 2)?, 16).ok()).collect()
}

/// `aigand <ninputs> <hex>`: one AND gate of a binary AIGER file
fn step_aigand(w: &[&str], ctx: &mut Ctx) -> String {
    if w.len() != 3 || w[1].is_empty() || w[1].len() > 6 || !w[1].bytes().all(|b| b.is_ascii_digit()) {
        return "bad-op".into();
    }
    let n: usize = w[1].parse().unwrap();
    let Some(bytes) = hex_bytes(w[2]) else { return "bad-op".into() };
    // only prefixes of exactly two 7-bit integers (nothing may follow the AND gate)
    let terms: Vec<usize> = bytes.iter().enumerate().filter(|(_, b)| **b < 128).map(|(i, _)| i).collect();
    if terms.len() > 2 || (terms.len() == 2 && terms[1] + 1 != bytes.len()) {
        return "bad-op".into();
    }
    let mut file = format!("aig {} {} 0 0 1\n", n + 1, n).into_bytes();
    file.extend_from_slice(&bytes);
    let opts = oxidd_parser::ParseOptionsBuilder::default().build().unwrap();
    let r = catch_unwind(AssertUnwindSafe(|| match oxidd_parser::aiger::parse::<()>(&opts)(&file) {
        Ok((_, p)) => {
            let g = p.circuit.gate_for_no(0).unwrap();
            Some(g.inputs.iter().map(|l| from_real(*l)).collect::<Vec<_>>())
        }
        Err(_) => None,
    }));
    match r {
        Ok(Some(ins)) => {
            ctx.count("aigand:ok");
            // oracle: the decoded inputs are smaller than the gate and ordered (in1 >= in2)
            let code = |l: &L| match *l {
                L::F => 0,
                L::T => 1,
                L::In(s, i) => 2 * (i + 1) + s as usize,
                L::Gate(s, g) => 2 * (n + 1 + g) + s as usize,
                L::U(_) => usize::MAX,
            };
            if ins.len() != 2 || !(code(&ins[0]) < 2 * (n + 1) && code(&ins[1]) <= code(&ins[0])) {
                ctx.fail("aig-delta-order", &format!("`aigand {} {}`: decoded inputs {:?} violate lhs > rhs0 >= rhs1", n, w[2], ins));
            }
            format!("ok {}", ins.iter().map(|l| show_l(*l)).collect::<Vec<_>>().join(" "))
        }
        Ok(None) => {
            ctx.count("aigand:err");
            "err".into()
        }
        Err(_) => {
            ctx.fail("parser-panic", &format!("`aigand {} {}`: the AIGER parser panicked", n, w[2]));
            "panic".into()
        }
    }
}

impl Scenario for Circ {
    fn reset(&mut self) {}
    fn step(&mut self, line: &str, ctx: &mut Ctx) -> String {
        let w = words(line);
        if w.first() == Some(&"aigand") {
            return step_aigand(&w, ctx);
        }
        let Some(s) = parse_line(line) else { return "bad-op".into() };
        let out = run_real(&s);
        match &out {
            Outcome::Ok(..) => ctx.count("out:ok"),
            Outcome::Err(L::Gate(..)) => ctx.count("out:err-cycle"),
            Outcome::Err(_) => ctx.count("out:err-input"),
            Outcome::Panic(_) => ctx.count("out:panic"),
        }
        oracle(&s, &out, line, ctx);
        render(&out)
    }
}

// ------------------------------------------------------------------ generator

fn alphabet(n_alpha: usize, g_alpha: usize) -> Vec<L> {
    let mut a = vec![L::F, L::T];
    for i in 0..n_alpha {
        a.push(L::In(false, i));
        a.push(L::In(true, i));
    }
    for g in 0..g_alpha {
        a.push(L::Gate(false, g));
        a.push(L::Gate(true, g));
    }
    a
}

/// all gates (kind, literal list) with at most `max_len` literals over `alpha`
fn all_gates(alpha: &[L], min_len: usize, max_len: usize) -> Vec<(K, Vec<L>)> {
    let mut out = Vec::new();
    for k in [K::And, K::Or, K::Xor] {
        for len in min_len..=max_len {
            let total = alpha.len().pow(len as u32);
            for mut code in 0..total {
                let mut ins = Vec::with_capacity(len);
                for _ in 0..len {
                    ins.push(alpha[code % alpha.len()]);
                    code /= alpha.len();
                }
                out.push((k, ins));
            }
        }
    }
    out
}

struct Emit<'a> {
    w: &'a mut dyn Write,
    in_case: usize,
    cases: usize,
    group: String,
}
impl Emit<'_> {
    fn group(&mut self, g: &str) {
        self.group = g.to_string();
        self.in_case = 0;
        self.cases += 1;
        writeln!(self.w, "case {} {}", self.group, self.cases).unwrap();
    }
    fn line(&mut self, s: &Src) {
        if self.in_case >= 40 {
            self.in_case = 0;
            self.cases += 1;
            writeln!(self.w, "case {} {}", self.group, self.cases).unwrap();
        }
        self.in_case += 1;
        writeln!(self.w, "{}", show_src(s)).unwrap();
    }
}

fn random_lit(rng: &mut Rng, n: usize, avail_gates: &[usize], g_total: usize, wild: bool, p_const: u64) -> L {
    let r = rng.below(100);
    if r < p_const {
        if rng.chance(1, 2) { L::F } else { L::T }
    } else if r < 50 || avail_gates.is_empty() {
        if wild && rng.chance(1, 6) {
            // unknown input: just past the end, inside the (wrong) bound G + 2N, past it, or UNDEF
            match rng.below(4) {
                0 => L::In(rng.chance(1, 2), n),
                1 => L::In(rng.chance(1, 2), n + rng.below((g_total + n + 1) as u64) as usize),
                2 => L::In(rng.chance(1, 2), g_total + 2 * n + 1 + rng.below(3) as usize),
                _ => L::U(rng.chance(1, 4)),
            }
        } else if n == 0 {
            if rng.chance(1, 2) { L::F } else { L::T }
        } else {
            L::In(rng.chance(1, 2), rng.below(n as u64) as usize)
        }
    } else {
        L::Gate(rng.chance(1, 2), *rng.pick(avail_gates))
    }
}

/// random circuit biased toward duplicates, complements, constants and shared sub-terms
fn random_circuit(rng: &mut Rng, max_n: usize, max_g: usize, max_fan: usize, cyc: bool, wild: bool, degenerate: bool) -> Src {
    let (p_const, dup_den) = if degenerate { (8, 5) } else { (1, 25) };
    let n = rng.range(0, max_n as u64) as usize;
    let g = rng.range(1, max_g as u64) as usize;
    // random topological rank: gate a may use gate b iff rank[b] < rank[a]
    let mut rank: Vec<usize> = (0..g).collect();
    if rng.chance(2, 3) {
        rng.shuffle(&mut rank);
    }
    let mut gates: Vec<(K, Vec<L>)> = Vec::new();
    for a in 0..g {
        let avail: Vec<usize> = if cyc && rng.chance(1, 4) { (0..g).collect() } else { (0..g).filter(|&b| rank[b] < rank[a]).collect() };
        // shared sub-term: copy an earlier gate (same kind, permuted inputs, maybe with repeats)
        if a > 0 && rng.chance(1, 6) {
            let (k, mut ins) = gates[rng.below(a as u64) as usize].clone();
            if ins.iter().all(|l| match l { L::Gate(_, b) => rank[*b] < rank[a] || cyc, _ => true }) {
                rng.shuffle(&mut ins);
                if !ins.is_empty() && rng.chance(1, 3) {
                    let d = *rng.pick(&ins);
                    ins.push(d);
                }
                gates.push((k, ins));
                continue;
            }
        }
        let k = *rng.pick(&[K::And, K::Or, K::Xor]);
        let fan = if rng.chance(1, if degenerate { 12 } else { 60 }) { rng.below(2) as usize } else { rng.range(2, max_fan as u64) as usize };
        let mut ins: Vec<L> = Vec::new();
        for _ in 0..fan {
            if !ins.is_empty() && rng.chance(1, dup_den) {
                // duplicate or complement of an earlier input
                let d = *rng.pick(&ins);
                let d = if rng.chance(1, 2) {
                    d
                } else {
                    match d {
                        L::F => L::T,
                        L::T => L::F,
                        L::In(s, i) => L::In(!s, i),
                        L::Gate(s, i) => L::Gate(!s, i),
                        L::U(s) => L::U(!s),
                    }
                };
                ins.push(d);
            } else {
                ins.push(random_lit(rng, n, &avail, g, wild, p_const));
            }
        }
        gates.push((k, ins));
    }
    let nroots = rng.range(1, 3) as usize;
    let mut roots = Vec::new();
    // the gate of maximal rank first (reaches most), then arbitrary literals
    let top = (0..g).max_by_key(|&b| rank[b]).unwrap();
    roots.push(L::Gate(rng.chance(1, 2), top));
    for _ in 1..nroots {
        let all: Vec<usize> = (0..g).collect();
        roots.push(random_lit(rng, n, &all, g, false, p_const));
    }
    Src { n, gates, roots }
}

fn generate(cfg: &GenCfg, rng: &mut Rng, w: &mut dyn Write) {
    let scale = cfg.scale.max(1) as usize;
    let thorough = cfg.thorough;
    let mut e = Emit { w, in_case: 0, cases: 0, group: String::new() };

    // ---- documented example and the defects repaired by fix commit c066e71 (regression lines)
    e.group("fixed");
    for l in [
        "circ 3 ; xor !i0 i1 i2 ; and g0 ; roots g1",
        "circ 1 ; and i0 i1 ; roots g0",
        "circ 1 ; and i0 i1 i1 ; roots g0",
        "circ 2 ; xor i0 i0 ; roots g0",
        "circ 2 ; xor F ; roots g0",
        "circ 2 ; xor T ; roots g0",
        "circ 2 ; xor ; roots g0",
        "circ 2 ; and ; roots g0",
        "circ 2 ; or ; roots g0",
        "circ 2 ; and i0 F ; xor g0 i1 i0 ; roots g1",
        "circ 2 ; and i0 F ; xor g0 i1 ; roots g1",
        "circ 2 ; or i0 T ; xor g0 i1 ; roots g1",
        "circ 2 ; and i0 !i0 ; roots g0",
        "circ 2 ; or i1 i0 !i1 ; roots g0",
        "circ 2 ; and g1 i0 ; or g0 i1 ; roots g0",
        "circ 2 ; and i0 i1 ; and i1 i0 ; or g0 g1 ; roots g2",
        "circ 2 ; and i0 U ; roots g0",
        "circ 2 ; and i0 i1 ; roots i5",
        // boundary: the first input number that does not exist, as a root and as a gate input
        "circ 2 ; and i0 i1 ; roots i2",
        "circ 2 ; and i0 i1 ; roots !i2",
        "circ 2 ; and i0 i1 ; roots g0 i2",
        "circ 2 ; and i0 i1 ; roots i1 g0",
        "circ 2 ; and i0 i2 ; roots g0",
        "circ 0 ; roots i0",
        "circ 1 ; roots i0 i1",
        "circ 2 ; and i0 g7 ; roots g0",
        "circ 2 ; roots",
        "circ 0 ; roots T F",
    ] {
        let s = parse_line(l).unwrap();
        e.line(&s);
    }

    // ---- exhaustive: one gate, up to 3 literals, 2 known inputs; alphabet includes the unknown
    //      input i2, the self reference g0 and the dangling reference g1
    e.group("ex1");
    {
        let alpha = alphabet(3, 2);
        for gate in all_gates(&alpha, 0, 3) {
            e.line(&Src { n: 2, gates: vec![gate], roots: vec![L::Gate(false, 0)] });
        }
    }
    // ---- exhaustive: two gates with up to 2 literals each over {F,T,±i0,±i1,±i2(unknown),±g0,±g1}
    //      (n = 2), root g1 (g0 reachable iff referenced); quick: every `stride`-th
    e.group("ex2");
    {
        let alpha = alphabet(3, 2);
        let gs = all_gates(&alpha, 0, 2);
        let stride = if thorough { 1 } else { 23 };
        let mut k = rng.below(stride) as usize;
        for a in &gs {
            for b in &gs {
                if k % stride as usize == 0 {
                    e.line(&Src { n: 2, gates: vec![a.clone(), b.clone()], roots: vec![L::Gate(false, 1)] });
                }
                k += 1;
            }
        }
    }
    // ---- two gates, the root with exactly 3 literals (slow de-duplication path over a mapped gate)
    e.group("ex2x3");
    {
        let alpha = alphabet(2, 2);
        let g0s = all_gates(&alpha, 0, 2);
        let g1s = all_gates(&alpha, 3, 3);
        let total = g0s.len() * g1s.len();
        let want = if thorough { 250_000 * scale } else { 9_000 * scale };
        for _ in 0..want.min(total) {
            let a = rng.pick(&g0s).clone();
            let b = rng.pick(&g1s).clone();
            e.line(&Src { n: 2, gates: vec![a, b], roots: vec![L::Gate(rng.chance(1, 8), 1)] });
        }
    }
    // ---- three gates with up to 3 literals over 3 inputs incl. cyclic and out-of-range references
    e.group("ex3");
    {
        let want = if thorough { 300_000 * scale } else { 10_000 * scale };
        let alpha = alphabet(4, 4);
        for _ in 0..want {
            let n = rng.range(1, 3) as usize;
            let mut gates = Vec::new();
            for _ in 0..3 {
                let k = *rng.pick(&[K::And, K::Or, K::Xor]);
                let len = rng.range(0, 3) as usize;
                let mut ins = Vec::new();
                for _ in 0..len {
                    // mostly in range; the unknown input i3 / dangling gate g3 rarely
                    let l = loop {
                        let l = *rng.pick(&alpha);
                        match l {
                            L::In(_, i) if i >= n && !rng.chance(1, 6) => continue,
                            L::Gate(_, 3) if !rng.chance(1, 20) => continue,
                            _ => break l,
                        }
                    };
                    ins.push(l);
                }
                gates.push((k, ins));
            }
            let mut roots = vec![L::Gate(rng.chance(1, 4), 2)];
            if rng.chance(1, 3) {
                roots.push(L::Gate(rng.chance(1, 2), rng.below(3) as usize));
            }
            e.line(&Src { n, gates, roots });
        }
    }
    // ---- random larger circuits (acyclic, well scoped): equivalence + normal form
    e.group("rand-ok");
    {
        let want = if thorough { 120_000 * scale } else { 8_000 * scale };
        for _ in 0..want {
            let degenerate = rng.chance(1, 2);
            let s = random_circuit(rng, 8, 20, 6, false, false, degenerate);
            e.line(&s);
        }
    }
    // ---- random larger circuits with cycles and unknown inputs: error contract
    e.group("rand-wild");
    {
        let want = if thorough { 40_000 * scale } else { 3_000 * scale };
        for _ in 0..want {
            let cyc = rng.chance(1, 2);
            let s = random_circuit(rng, 6, 12, 5, cyc, true, true);
            e.line(&s);
        }
    }
    gen_aigand(cfg, rng, &mut e);
}

fn enc7(mut x: u128, out: &mut Vec<u8>) {
    loop {
        let b = (x & 127) as u8;
        x >>= 7;
        if x == 0 {
            out.push(b);
            return;
        }
        out.push(b | 128);
    }
}

/// binary AIGER AND gates: valid deltas, invalid deltas, over-long and truncated integers
fn gen_aigand(cfg: &GenCfg, rng: &mut Rng, e: &mut Emit) {
    e.group("aigand");
    let want = if cfg.thorough { 60_000 } else { 4_000 } * cfg.scale.max(1) as usize;
    for k in 0..want {
        let n = match rng.below(4) {
            0 => rng.below(3) as usize,
            1 => rng.below(70) as usize,
            2 => rng.below(10_000) as usize,
            _ => rng.below(400_000) as usize,
        };
        let lhs = 2 * (n as u128 + 1);
        let (d1, d2): (u128, u128) = match k % 8 {
            // valid
            0..=3 => {
                let d1 = 1 + rng.below(lhs as u64) as u128;
                let in1 = lhs - d1;
                (d1, if rng.chance(1, 5) { in1 } else { rng.below(in1 as u64 + 1) as u128 })
            }
            // boundary / invalid
            4 => (rng.below(3) as u128 * lhs / 2, rng.below(4) as u128),
            5 => (lhs + rng.below(3) as u128, 0),
            6 => (1 + rng.below(lhs as u64) as u128, lhs + rng.below(200) as u128),
            // huge: more than 64 bits (wrapping shifts in `usize_7bit`)
            _ => ((rng.next() as u128) << rng.below(40), (rng.next() as u128) << rng.below(40)),
        };
        let mut bytes = Vec::new();
        enc7(d1, &mut bytes);
        enc7(d2, &mut bytes);
        // redundant leading groups (0x80 continuation bytes) keep the value but lengthen the integer
        if rng.chance(1, 10) {
            let last = bytes.pop().unwrap();
            bytes.push(last | 128);
            for _ in 0..rng.below(9) {
                bytes.push(128);
            }
            bytes.push(rng.below(2) as u8);
        }
        if rng.chance(1, 12) {
            bytes.truncate(rng.below(bytes.len() as u64 + 1) as usize);
        }
        if bytes.len() > 32 {
            bytes.truncate(32);
        }
        let hex: String = if bytes.is_empty() { "-".into() } else { bytes.iter().map(|b| format!("{:02x}", b)).collect() };
        if e.in_case >= 40 {
            e.in_case = 0;
            e.cases += 1;
            writeln!(e.w, "case aigand {}", e.cases).unwrap();
        }
        e.in_case += 1;
        writeln!(e.w, "aigand {} {}", n, hex).unwrap();
    }
}

fn make(_f: &BTreeMap<String, String>) -> Box<dyn Scenario> {
    Box::new(Circ)
}
fn main() {
    harness_main(generate, make)
}
