//! C18 extension: the DIMACS parser on raw bytes against the byte-level Lean model
//! `OxiddModel.DimacsParse` (protocol `dimacsparse`).
//!
//! One operation line = one input: `p <opts 0..3> <bytes as hex | ->` (`opts` bit 0 =
//! `ParseOptions::var_order`, bit 1 = `ParseOptions::clause_tree`; `q …` = the same without the
//! resource rule). The real `oxidd_parser::dimacs::parse` runs under `catch_unwind`; the output is
//!
//! * `OK <canonical problem>`: `n` (number of variables), `ord` (`VarSet::order()`), `tree`
//!   (`VarSet::order_tree()`), `hn` (`has_names()`), `names` (`name(i)` for all `i`, UTF-8 as hex),
//!   every gate (kind and inputs), the root,
//! * `ERR` (a diagnostic), `PANIC <kind>`,
//! * `SKIP`: the input contains a decimal number in `10000 ..= usize::MAX/16`, which the parser may
//!   accept as a count and reserve memory for (KF-parser-alloc), or more than 1000 bytes `(` / `[`
//!   (recursion depth, KF-parser-deep-nesting); both sides decide this by the same scan of the
//!   bytes and do not run the parser.
//!
//! Open finding (`known_findings.json`): KF-parser-co-zero-clauses. The generator routes every
//! input that can trigger it (decided by a scan of the bytes, `co_zero_candidate`: option
//! `clause_tree`, a `c … co …` line and a problem line `p cnf <n> 0`) into the one
//! `case kf-parser-co-zero-clauses` at the end of the stream, so that its panics are matched with
//! the listed finding; a panic anywhere else is a violation. The two repaired findings have
//! regression cases (`case regress-empty-order-tree`, 393b137; `case regress-order-names`, 8fca6ca —
//! found with the Lean model: an order tree plus an unnamed record for the highest recorded
//! variable while a lower one has no record left the name table ending with `None`).
//!
//! Oracles on the implementation (independent of the model): no panic; nothing is left over
//! after an accepted file; an accepted problem is consistent (`sane`: every literal
//! names an existing input / an earlier … existing gate, the order is a permutation of the
//! variables and the flattened tree, names are distinct, non-empty, and only present when
//! `has_names`); generated valid files are accepted (`valid-rejected`) and, for CNF, denote the
//! function an independent ten-line reader of the clauses computes (`cnf-semantics`).
use oxidd_parser::{Circuit, GateKind, Literal, ParseOptionsBuilder, Problem, ProblemDetails, Tree};
use oxv::*;
use std::collections::BTreeMap;
use std::io::Write;
use std::panic::{AssertUnwindSafe, catch_unwind};

const MAX_CAP: u128 = 1152921504606846975;
const SKIP_FROM: u128 = 10000;

fn hex(b: &[u8]) -> String {
    let mut s = String::with_capacity(2 * b.len());
    for x in b {
        s.push_str(&format!("{:02x}", x));
    }
    s
}
fn unhex(s: &str) -> Option<Vec<u8>> {
    if s == "-" {
        return Some(Vec::new());
    }
    if s.len() % 2 != 0 {
        return None;
    }
    let b = s.as_bytes();
    let v = |c: u8| match c {
        b'0'..=b'9' => Some(c - b'0'),
        b'a'..=b'f' => Some(c - b'a' + 10),
        _ => None,
    };
    (0..b.len() / 2).map(|i| Some(16 * v(b[2 * i])? + v(b[2 * i + 1])?)).collect()
}
fn panic_msg(e: &Box<dyn std::any::Any + Send>) -> String {
    if let Some(s) = e.downcast_ref::<String>() {
        s.clone()
    } else if let Some(s) = e.downcast_ref::<&str>() {
        s.to_string()
    } else {
        "?".into()
    }
}

/// the resource rule, part 1: some maximal run of ASCII digits has a value in `SKIP_FROM ..= MAX_CAP`
fn too_big(b: &[u8]) -> bool {
    let mut i = 0;
    while i < b.len() {
        if b[i].is_ascii_digit() {
            let mut v: u128 = 0;
            let mut sat = false;
            while i < b.len() && b[i].is_ascii_digit() {
                if !sat {
                    v = v * 10 + (b[i] - b'0') as u128;
                    if v > MAX_CAP {
                        sat = true;
                    }
                }
                i += 1;
            }
            if !sat && v >= SKIP_FROM {
                return true;
            }
        } else {
            i += 1;
        }
    }
    false
}
/// the resource rule, part 2: more than 1000 opening parentheses / brackets
fn too_deep(b: &[u8]) -> bool {
    b.iter().filter(|&&c| c == b'(' || c == b'[').count() > 1000
}

// ------------------------------------------------------------------ canonical rendering

fn show_lit(l: Literal) -> String {
    if l == Literal::FALSE {
        return "F".into();
    }
    if l == Literal::TRUE {
        return "T".into();
    }
    let neg = if l.is_negative() { "!" } else { "" };
    if let Some(g) = l.get_gate_no() {
        return format!("{}g{}", neg, g);
    }
    match l.get_input() {
        Some(i) => format!("{}i{}", neg, i),
        None => format!("{}?", neg),
    }
}
fn show_tree(t: &Tree<usize>, out: &mut String, depth: usize) {
    if depth > 2000 {
        out.push('?');
        return;
    }
    match t {
        Tree::Leaf(n) => out.push_str(&n.to_string()),
        Tree::Inner(cs) => {
            out.push('[');
            for (k, c) in cs.iter().enumerate() {
                if k > 0 {
                    out.push(',');
                }
                show_tree(c, out, depth + 1);
            }
            out.push(']');
        }
    }
}
fn flatten(t: &Tree<usize>, out: &mut Vec<usize>) {
    match t {
        Tree::Leaf(n) => out.push(*n),
        Tree::Inner(cs) => cs.iter().for_each(|c| flatten(c, out)),
    }
}
fn kind_letter(k: GateKind) -> char {
    match k {
        GateKind::And => 'a',
        GateKind::Or => 'o',
        GateKind::Xor => 'x',
    }
}

fn show_problem(p: &Problem) -> Result<String, String> {
    let ProblemDetails::Root(root) = &p.details else {
        return Err("not a Root problem".into());
    };
    let c = &p.circuit;
    let v = c.inputs();
    let n = v.len();
    let ord = match v.order() {
        None => "-".to_string(),
        Some(o) => format!("[{}]", o.iter().map(|x| x.to_string()).collect::<Vec<_>>().join(",")),
    };
    let mut tree = String::new();
    match v.order_tree() {
        None => tree.push('-'),
        Some(t) => show_tree(t, &mut tree, 0),
    }
    let names = if !v.has_names() {
        String::new()
    } else {
        (0..n)
            .map(|i| match v.name(i) {
                None => "~".to_string(),
                Some(s) => format!("x{}", hex(s.as_bytes())),
            })
            .collect::<Vec<_>>()
            .join(",")
    };
    let mut gates = Vec::new();
    for g in 0..c.num_gates() {
        let gate = c.gate_for_no(g).ok_or_else(|| format!("gate {} not accessible", g))?;
        gates.push(format!("{}:{}", kind_letter(gate.kind), gate.inputs.iter().map(|&l| show_lit(l)).collect::<Vec<_>>().join(",")));
    }
    Ok(format!(
        "OK n={} ord={} tree={} hn={} names=[{}] g=[{}] r={}",
        n,
        ord,
        tree,
        if v.has_names() { 1 } else { 0 },
        names,
        gates.join(";"),
        show_lit(*root)
    ))
}

/// internal consistency of an accepted problem (independent of the model)
fn sane(p: &Problem) -> Result<(), String> {
    let ProblemDetails::Root(root) = &p.details else {
        return Err("not a Root problem".into());
    };
    let c = &p.circuit;
    let v = c.inputs();
    let n = v.len();
    let ng = c.num_gates();
    let in_range = |l: Literal| -> bool {
        if l == Literal::FALSE || l == Literal::TRUE {
            return true;
        }
        if let Some(g) = l.get_gate_no() {
            return g < ng;
        }
        matches!(l.get_input(), Some(i) if i < n)
    };
    if !in_range(*root) {
        return Err(format!("root {:?} is not in the circuit ({} inputs, {} gates)", root, n, ng));
    }
    for g in 0..ng {
        let gate = c.gate_for_no(g).ok_or("gate not accessible")?;
        for &l in gate.inputs {
            if !in_range(l) {
                return Err(format!("gate {} holds {:?}, which is not in the circuit ({} inputs, {} gates)", g, l, n, ng));
            }
            if let Some(k) = l.get_gate_no() {
                if k >= g {
                    return Err(format!("gate {} refers to the later gate {}", g, k));
                }
            }
        }
    }
    if let Some(o) = v.order() {
        if n > 0 || !o.is_empty() {
            let mut seen = vec![false; n];
            if o.len() != n {
                return Err("order of the wrong length".into());
            }
            for &x in o {
                if x >= n || seen[x] {
                    return Err(format!("order {:?} is not a permutation of 0..{}", o, n));
                }
                seen[x] = true;
            }
        }
    }
    if let Some(t) = v.order_tree() {
        let mut f = Vec::new();
        flatten(t, &mut f);
        if v.order() != Some(&f[..]) {
            return Err(format!("order {:?} is not the flattened tree {:?}", v.order(), f));
        }
    }
    let mut seen_names: Vec<&str> = Vec::new();
    let mut any = false;
    for i in 0..n {
        if let Some(s) = v.name(i) {
            any = true;
            if s.is_empty() {
                return Err(format!("variable {} has the empty name", i));
            }
            if seen_names.contains(&s) {
                return Err(format!("name {:?} given twice", s));
            }
            seen_names.push(s);
        }
    }
    if any != v.has_names() {
        return Err(format!("has_names() = {} but some name present = {}", v.has_names(), any));
    }
    if v.name(n).is_some() {
        return Err("a name beyond the last variable".into());
    }
    Ok(())
}

fn eval(c: &Circuit, l: Literal, asg: u32, memo: &mut Vec<Option<bool>>) -> Option<bool> {
    if l == Literal::FALSE {
        return Some(false);
    }
    if l == Literal::TRUE {
        return Some(true);
    }
    let neg = l.is_negative();
    if let Some(i) = l.get_input() {
        return Some(((asg >> i) & 1 == 1) != neg);
    }
    let g = l.get_gate_no()?;
    if let Some(b) = memo.get(g).copied().flatten() {
        return Some(b != neg);
    }
    let gate = c.gate_for_no(g)?;
    let mut acc = match gate.kind {
        GateKind::And => true,
        _ => false,
    };
    for &x in gate.inputs {
        // gates refer to earlier gates only (checked by `sane` before)
        if x.get_gate_no().map(|k| k >= g).unwrap_or(false) {
            return None;
        }
        let b = eval(c, x, asg, memo)?;
        match gate.kind {
            GateKind::And => acc &= b,
            GateKind::Or => acc |= b,
            GateKind::Xor => acc ^= b,
        }
    }
    memo[g] = Some(acc);
    Some(acc != neg)
}

/// an independent reader of a CNF body: clauses of `(is_xor, literals)`, the last clause may lack
/// its `0`; `None` when the text is not of the plain shape the generator writes
fn ref_cnf(body: &[u8]) -> Option<Vec<(bool, Vec<i64>)>> {
    let text = std::str::from_utf8(body).ok()?;
    let mut out = Vec::new();
    let mut cur: (bool, Vec<i64>) = (false, Vec::new());
    let mut open = false;
    let mut neg = false;
    for tok in text.split_ascii_whitespace() {
        let mut tok = tok;
        if let Some(r) = tok.strip_prefix('x').or_else(|| tok.strip_prefix('X')) {
            cur.0 = true;
            open = true;
            tok = r;
        }
        if let Some(r) = tok.strip_prefix('-') {
            neg = true;
            tok = r;
        }
        if tok.is_empty() {
            continue;
        }
        let v: i64 = tok.parse().ok()?;
        if v == 0 {
            out.push(std::mem::take(&mut cur));
            open = false;
        } else {
            cur.1.push(if neg { -v } else { v });
            neg = false;
            open = true;
        }
    }
    if open {
        out.push(cur);
    }
    Some(out)
}

fn panic_kind(msg: &str) -> &'static str {
    if msg.contains("order_tree.is_none()") {
        "valid-tree"
    } else if msg.contains("order.len() == self.len") {
        "valid-order"
    } else if msg.contains("left != right") {
        "valid-names"
    } else if msg.contains("with overflow") {
        "arith"
    } else if msg.contains("index out of bounds") || msg.contains("out of range") {
        "index"
    } else if msg.contains("unwrap()") {
        "unwrap"
    } else if msg.contains("unreachable") {
        "unreachable"
    } else if msg.contains("capacity overflow") {
        "capacity"
    } else if msg.contains("too large") || msg.contains("assertion") || msg.contains("outer vector is empty") || msg.contains("no gates") {
        "debug-assert"
    } else {
        "other"
    }
}

fn lines_of(b: &[u8]) -> impl Iterator<Item = &[u8]> {
    b.split(|&c| c == b'\n')
}
fn has_word(l: &[u8], w: &[u8]) -> bool {
    l.windows(w.len()).any(|x| x == w)
}

/// can this input reach `max_clause.1 != num_clauses.1 - 1` with `num_clauses.1 == 0`
/// (KF-parser-co-zero-clauses)? Decided by a scan of the bytes, independent of the model: the option
/// `clause_tree`, a `c … co …` line, and a problem line `p cnf <n> 0`
fn co_zero_candidate(opts: u32, input: &[u8]) -> bool {
    opts & 2 != 0
        && lines_of(input).any(|l| l.starts_with(b"c") && has_word(l, b"co"))
        && lines_of(input).any(|l| {
            let w: Vec<&[u8]> = l.split(|b| b.is_ascii_whitespace()).filter(|x| !x.is_empty()).collect();
            w.len() == 4 && w[0] == b"p" && w[1] == b"cnf" && !w[3].is_empty() && w[3].iter().all(|&b| b == b'0')
        })
}

struct Sc {
    no_skip: bool,
}

impl Scenario for Sc {
    fn reset(&mut self) {}
    fn step(&mut self, line: &str, ctx: &mut Ctx) -> String {
        let w = words(line);
        if w.len() != 3 || (w[0] != "p" && w[0] != "q") {
            return "bad-op".into();
        }
        let opts: u32 = match w[1] {
            "0" => 0,
            "1" => 1,
            "2" => 2,
            "3" => 3,
            _ => return "bad-op".into(),
        };
        let Some(bytes) = unhex(w[2]) else {
            return "bad-op".into();
        };
        if !self.no_skip && w[0] == "p" && (too_big(&bytes) || too_deep(&bytes)) {
            ctx.count("skip");
            return "SKIP".into();
        }
        let o = ParseOptionsBuilder::default().var_order(opts & 1 != 0).clause_tree(opts & 2 != 0).build().unwrap();
        let r = catch_unwind(AssertUnwindSafe(|| oxidd_parser::dimacs::parse::<()>(&o)(&bytes).ok().map(|x| (x.0.len(), x.1))));
        let valid = ctx.case.starts_with("case valid");
        match r {
            Err(e) => {
                let m = panic_msg(&e);
                let kind = panic_kind(&m);
                ctx.count("panic");
                ctx.fail("parser-panic", &format!("dimacs::parse (options {}) panics on hex {}: {}", opts, w[2], m));
                format!("PANIC {}", kind)
            }
            Ok(None) => {
                ctx.count("err");
                if valid {
                    ctx.fail("valid-rejected", &format!("generated valid file is not accepted (options {}, hex {})", opts, w[2]));
                }
                "ERR".to_string()
            }
            Ok(Some((rest, p))) => {
                ctx.count(if p.circuit.inputs().order_tree().is_some() {
                    "ok-tree"
                } else if p.circuit.inputs().order().is_some() && p.circuit.inputs().len() > 0 {
                    "ok-order"
                } else {
                    "ok-plain"
                });
                if p.circuit.inputs().has_names() {
                    ctx.count("ok-names");
                }
                if rest != 0 {
                    ctx.fail("parser-rest", &format!("accepted with {} bytes left over (hex {})", rest, w[2]));
                }
                match catch_unwind(AssertUnwindSafe(|| sane(&p))) {
                    Ok(Ok(())) => {}
                    Ok(Err(m)) => ctx.fail("parsed-problem-insane", &format!("options {} hex {}: {}", opts, w[2], m)),
                    Err(e) => ctx.fail("parsed-problem-insane", &format!("options {} hex {}: panic while reading the problem: {}", opts, w[2], panic_msg(&e))),
                }
                // generated valid CNF files: the circuit denotes the conjunction of the clauses
                if ctx.case.starts_with("case valid-cnf") {
                    let n = p.circuit.inputs().len();
                    let body_at = bytes.windows(6).position(|x| x == b"p cnf ").and_then(|i| bytes[i..].iter().position(|&c| c == b'\n').map(|j| i + j + 1));
                    if let (Some(at), true) = (body_at, n <= 10) {
                        if let (Some(cl), ProblemDetails::Root(root)) = (ref_cnf(&bytes[at..]), &p.details) {
                            ctx.count("cnf-semantics-checked");
                            for asg in 0..(1u32 << n) {
                                let want = cl.iter().all(|(x, ls)| {
                                    let vals = ls.iter().map(|&l| ((asg >> (l.unsigned_abs() - 1)) & 1 == 1) != (l < 0));
                                    if *x { vals.fold(false, |a, b| a ^ b) } else { vals.fold(false, |a, b| a | b) }
                                });
                                let mut memo = vec![None; p.circuit.num_gates()];
                                if eval(&p.circuit, *root, asg, &mut memo) != Some(want) {
                                    ctx.fail("cnf-semantics", &format!("options {} hex {}: assignment {:b} evaluates differently from the clauses", opts, w[2], asg));
                                    break;
                                }
                            }
                        }
                    }
                }
                match catch_unwind(AssertUnwindSafe(|| show_problem(&p))) {
                    Ok(Ok(s)) => s,
                    Ok(Err(m)) => {
                        ctx.fail("parsed-problem-insane", &format!("hex {}: {}", w[2], m));
                        format!("OK insane {}", m)
                    }
                    Err(e) => {
                        ctx.fail("parsed-problem-insane", &format!("hex {}: panic while reading the problem: {}", w[2], panic_msg(&e)));
                        "OK unreadable".to_string()
                    }
                }
            }
        }
    }
}

// ------------------------------------------------------------------ generator

#[derive(Clone, Copy)]
struct Style {
    sep: &'static str,
    eol: &'static str,
    final_eol: bool,
}
const STRICT: Style = Style { sep: " ", eol: "\n", final_eol: true };

fn rand_style(rng: &mut Rng) -> Style {
    Style {
        sep: *rng.pick(&[" ", " ", " ", "  ", "\t", " \t "]),
        eol: *rng.pick(&["\n", "\n", "\n", "\r\n", " \n", "\t\r\n"]),
        final_eol: !rng.chance(1, 4),
    }
}

fn rand_name(rng: &mut Rng) -> Vec<u8> {
    let n = 1 + rng.below(5) as usize;
    let mut v = Vec::new();
    for k in 0..n {
        let c = match rng.below(14) {
            0 if k > 0 && k + 1 < n => b' ',
            1 if k > 0 && k + 1 < n => b'\t',
            2 => {
                v.extend("é".bytes());
                continue;
            }
            3 => {
                v.extend("€".bytes());
                continue;
            }
            4 => b'0' + rng.below(10) as u8,
            _ => b'a' + rng.below(26) as u8,
        };
        v.push(c);
    }
    v
}

/// a random tree over the leaves `leaves` (in this order), written like `[0, [2, 1]]`
fn rand_tree(rng: &mut Rng, leaves: &[usize], st: Style, top: bool) -> String {
    if leaves.len() == 1 && !(top && rng.chance(1, 2)) {
        return if rng.chance(1, 6) { format!("[{}]", leaves[0]) } else { leaves[0].to_string() };
    }
    let mut parts = Vec::new();
    let mut i = 0;
    while i < leaves.len() {
        let k = 1 + rng.below((leaves.len() - i).min(3) as u64) as usize;
        // avoid the infinite regress of one part covering everything
        let k = if k == leaves.len() && leaves.len() > 1 { k - 1 } else { k };
        parts.push(rand_tree(rng, &leaves[i..i + k], st, false));
        i += k;
    }
    if rng.chance(1, 10) {
        parts.push("[]".to_string());
    }
    let sep = *rng.pick(&[", ", ",", " , ", ",\t"]);
    let pad = *rng.pick(&["", "", " "]);
    format!("[{}{}{}{}]", pad, parts.join(sep), if rng.chance(1, 12) { "," } else { "" }, pad)
}

struct Cnf {
    nvars: usize,
    /// (is_xor, literals)
    clauses: Vec<(bool, Vec<i64>)>,
    /// the last clause is terminated by 0
    last_zero: bool,
}

fn rand_cnf(rng: &mut Rng) -> Cnf {
    let nvars = rng.below(6) as usize;
    let nclauses = if nvars == 0 { rng.below(3) as usize } else { rng.below(6) as usize };
    let mut clauses = Vec::new();
    for _ in 0..nclauses {
        let len = if nvars == 0 {
            0
        } else {
            match rng.below(8) {
                0 => 0,
                1 | 2 => 1,
                _ => 2 + rng.below(3) as usize,
            }
        };
        let ls: Vec<i64> = (0..len).map(|_| (1 + rng.below(nvars as u64) as i64) * if rng.chance(1, 2) { -1 } else { 1 }).collect();
        clauses.push((rng.chance(1, 4), ls));
    }
    Cnf { nvars, clauses, last_zero: rng.chance(2, 3) }
}

/// the preamble lines for the order mode: records, names, variable tree; clause tree
fn order_lines(rng: &mut Rng, nvars: usize, nclauses: Option<usize>, opts: u32, st: Style, out: &mut Vec<u8>) {
    let mut lines: Vec<Vec<u8>> = Vec::new();
    let with_tree = nvars > 0 && rng.chance(1, 3);
    let with_records = nvars > 0 && (!with_tree && rng.chance(2, 3) || with_tree && rng.chance(1, 2));
    if with_records {
        let mut vars: Vec<usize> = (1..=nvars).collect();
        rng.shuffle(&mut vars);
        // with a tree the records need not be complete
        let keep = if with_tree { 1 + rng.below(nvars as u64) as usize } else { nvars };
        let mut named_any = false;
        let mut recs = Vec::new();
        for &v in vars.iter().take(keep) {
            let mut l = format!("c{}{}", st.sep, v).into_bytes();
            if rng.chance(1, 2) {
                l.extend(st.sep.bytes());
                l.extend(rand_name(rng));
                l.extend(format!("_{}", v).bytes());
                named_any = true;
            }
            recs.push((v, l));
        }
        // avoid the open finding names-trailing-none in the valid stream: with a tree and
        // incomplete records the highest recorded variable must be named
        if with_tree {
            let has: Vec<usize> = recs.iter().map(|r| r.0).collect();
            let complete_prefix = (1..=*has.iter().max().unwrap()).all(|v| has.contains(&v));
            if !complete_prefix || named_any {
                for r in recs.iter_mut() {
                    if !r.1.iter().any(|&b| b == b'_') {
                        r.1.extend(st.sep.bytes());
                        r.1.extend(format!("n_{}", r.0).bytes());
                    }
                }
            }
        }
        lines.extend(recs.into_iter().map(|r| r.1));
    }
    if with_tree {
        let mut vars: Vec<usize> = (1..=nvars).collect();
        rng.shuffle(&mut vars);
        let t = rand_tree(rng, &vars, st, true);
        let l = format!("c{}vo{}{}", st.sep, st.sep, t).into_bytes();
        let at = rng.below(lines.len() as u64 + 1) as usize;
        lines.insert(at, l);
    }
    if let Some(nc) = nclauses {
        if nc > 0 && (opts & 2 != 0 && rng.chance(2, 3) || opts & 2 == 0 && rng.chance(1, 6)) {
            let mut cl: Vec<usize> = (0..nc).collect();
            if rng.chance(1, 3) {
                cl.push(rng.below(nc as u64) as usize);
            }
            rng.shuffle(&mut cl);
            let t = rand_tree(rng, &cl, st, true);
            let l = format!("c{}co{}{}", st.sep, st.sep, t).into_bytes();
            let at = rng.below(lines.len() as u64 + 1) as usize;
            lines.insert(at, l);
        }
    }
    for l in lines {
        out.extend(l);
        out.extend(st.eol.bytes());
    }
}

fn plain_comments(rng: &mut Rng, st: Style, out: &mut Vec<u8>) {
    for _ in 0..rng.below(3) {
        out.push(b'c');
        match rng.below(4) {
            0 => {}
            1 => out.extend(b" a comment 12 [3"),
            2 => out.extend(b"omment"),
            _ => {
                out.push(b' ');
                out.extend(rand_name(rng));
            }
        }
        out.extend(st.eol.bytes());
    }
}

impl Cnf {
    /// the format of the Lean printer `OxiddModel.DimacsParse.printCnf` (theorem `parse_printCnf`)
    fn print_canonical(&self) -> Vec<u8> {
        let mut out = format!("p cnf {} {}\n", self.nvars, self.clauses.len()).into_bytes();
        for (x, ls) in &self.clauses {
            if *x {
                out.push(b'x');
            }
            for &l in ls {
                out.push(b' ');
                if l < 0 {
                    out.push(b'-');
                }
                out.extend(l.unsigned_abs().to_string().bytes());
            }
            out.extend(b" 0\n");
        }
        out
    }
    fn render(&self, rng: &mut Rng, opts: u32, st: Style) -> Vec<u8> {
        let mut out = Vec::new();
        if opts == 0 {
            plain_comments(rng, st, &mut out);
        } else {
            order_lines(rng, self.nvars, Some(self.clauses.len()), opts, st, &mut out);
        }
        out.extend(format!("p{}cnf{}{}{}{}{}", st.sep, st.sep, self.nvars, st.sep, self.clauses.len(), st.eol).bytes());
        let ws = |rng: &mut Rng| -> &'static str { *rng.pick(&[" ", " ", " ", "\n", "\t", "  ", "\r\n"]) };
        for (k, (x, ls)) in self.clauses.iter().enumerate() {
            if *x {
                out.extend(if rng.chance(1, 4) { "X" } else { "x" }.bytes());
                out.extend(if rng.chance(1, 3) { "" } else { ws(rng) }.bytes());
            }
            for &l in ls {
                if l < 0 {
                    out.push(b'-');
                    if rng.chance(1, 8) {
                        out.push(b' ');
                    }
                }
                out.extend(l.unsigned_abs().to_string().bytes());
                out.extend(ws(rng).bytes());
            }
            let last = k + 1 == self.clauses.len();
            // a final clause without literals needs its `0` (or it would not be there at all)
            if !last || self.last_zero || (ls.is_empty() && !*x) || (ls.is_empty() && *x) {
                out.push(b'0');
                out.extend(if last && !st.final_eol { "" } else { "\n" }.bytes());
            }
        }
        out
    }
}

/// a random SAT formula over `nvars >= 1` variables; `xor` / `eq`: operators that may occur
fn rand_formula(rng: &mut Rng, nvars: usize, depth: u32, xor: bool, eq: bool, out: &mut String) {
    let ws = |rng: &mut Rng| -> &'static str { *rng.pick(&["", "", " ", "\n", "\t "]) };
    let leaf = depth == 0 || rng.chance(2, 5);
    if leaf {
        let v = 1 + rng.below(nvars as u64);
        match rng.below(4) {
            0 => out.push_str(&format!("-{}", v)),
            1 => out.push_str(&format!("-{}{}", ws(rng), v)),
            _ => out.push_str(&v.to_string()),
        }
        return;
    }
    match rng.below(8) {
        0 => {
            out.push('(');
            out.push_str(ws(rng));
            rand_formula(rng, nvars, depth - 1, xor, eq, out);
            out.push_str(ws(rng));
            out.push(')');
        }
        1 => {
            out.push_str("-(");
            rand_formula(rng, nvars, depth - 1, xor, eq, out);
            out.push(')');
        }
        k => {
            let op = match k {
                2 | 3 => "*",
                4 | 5 => "+",
                6 if xor => "xor",
                7 if eq => "=",
                _ => "+",
            };
            out.push_str(op);
            out.push_str(ws(rng));
            out.push('(');
            let n = rng.below(4);
            for j in 0..n {
                if j > 0 {
                    out.push(' ');
                }
                rand_formula(rng, nvars, depth - 1, xor, eq, out);
            }
            out.push_str(ws(rng));
            out.push(')');
        }
    }
}

fn rand_sat(rng: &mut Rng, opts: u32, st: Style) -> Vec<u8> {
    let nvars = 1 + rng.below(5) as usize;
    let (fmt, xor, eq) = *rng.pick(&[("sat", false, false), ("satx", true, false), ("sate", false, false), ("satex", true, true)]);
    let mut out = Vec::new();
    if opts == 0 {
        plain_comments(rng, st, &mut out);
    } else {
        order_lines(rng, nvars, None, opts, st, &mut out);
    }
    out.extend(format!("p{}{}{}{}{}", st.sep, fmt, st.sep, nvars, st.eol).bytes());
    let mut f = String::new();
    rand_formula(rng, nvars, 3, xor, eq, &mut f);
    out.extend(f.bytes());
    if st.final_eol {
        out.extend(st.eol.bytes());
    }
    out
}

const BOUNDARY: [&str; 22] = [
    "0", "1", "2", "3", "9999", "18446744073709551615", "18446744073709551616", "18446744073709551614",
    "1152921504606846976", "1152921504606846977", "4611686018427387904", "9223372036854775808",
    "99999999999999999999999999999", "0000000000000000000000000000001", "00", "-1", "+1", "", " ", "2a", "0x2", "\u{665}",
];

fn num_tokens(b: &[u8]) -> Vec<(usize, usize)> {
    let mut v = Vec::new();
    let mut i = 0;
    while i < b.len() {
        if b[i].is_ascii_digit() {
            let s = i;
            while i < b.len() && b[i].is_ascii_digit() {
                i += 1;
            }
            v.push((s, i));
        } else {
            i += 1;
        }
    }
    v
}

const SNIPPETS: [&[u8]; 20] = [
    b"c vo []\n", b"c vo [[],[]]\n", b"c co []\n", b"c co [0]\n", b"c vo [1]\n", b"c vo [1,2]\n", b"c 1\n", b"c 2\n", b"c 1 a\n", b"c 2 a\n", b"c 3 \xff\n",
    b"c co [0,0]\n", b"c vo [2,1]\n", b"c\n", b"c x\n", b"p cnf 1 0\n", b"p cnf 2 1\n", b"p sat 2\n", b"c 2 \n", b"c 1\r\n",
];

fn mutate(rng: &mut Rng, base: &[u8]) -> Vec<u8> {
    let mut v = base.to_vec();
    let n = 1 + rng.below(2);
    for _ in 0..n {
        let interesting: [u8; 32] = [
            b' ', b'\t', b'\n', b'\r', b'0', b'1', b'2', b'9', b'c', b'p', b'o', b'v', b'x', b'X', b'-', b'+', b'*', b'=', b'(', b')', b'[', b']', b',', b's', b'a', b't', b'e', b'n',
            0, 0x80, 0xff, b'f',
        ];
        let pos = if v.is_empty() { 0 } else { rng.below(v.len() as u64) as usize };
        match rng.below(11) {
            0 | 1 if !v.is_empty() => v[pos] = *rng.pick(&interesting),
            2 => v.insert(pos, *rng.pick(&interesting)),
            3 if !v.is_empty() => {
                v.remove(pos);
            }
            4 if !v.is_empty() => v[pos] ^= 1 << rng.below(8),
            5 => {
                let t = num_tokens(&v);
                if !t.is_empty() {
                    let &(s, e) = rng.pick(&t);
                    let x = rng.below(8).to_string();
                    v.splice(s..e, x.bytes());
                }
            }
            6 => {
                let t = num_tokens(&v);
                if !t.is_empty() {
                    let &(s, e) = rng.pick(&t);
                    v.splice(s..e, rng.pick(&BOUNDARY).bytes());
                }
            }
            7 => {
                // duplicate or delete a line
                let lines: Vec<usize> = std::iter::once(0).chain(v.iter().enumerate().filter(|x| *x.1 == b'\n').map(|x| x.0 + 1)).collect();
                let k = rng.below(lines.len() as u64) as usize;
                let s = lines[k];
                let e = if k + 1 < lines.len() { lines[k + 1] } else { v.len() };
                if rng.chance(1, 2) {
                    let l = v[s..e].to_vec();
                    v.splice(s..s, l);
                } else {
                    v.drain(s..e);
                }
            }
            8 | 9 => {
                // insert a preamble line at a line start
                let lines: Vec<usize> = std::iter::once(0).chain(v.iter().enumerate().filter(|x| *x.1 == b'\n').map(|x| x.0 + 1)).collect();
                let s = *rng.pick(&lines);
                let sn = *rng.pick(&SNIPPETS);
                v.splice(s..s, sn.iter().copied());
            }
            _ => {
                if !v.is_empty() {
                    v[pos] = rng.below(256) as u8;
                }
            }
        }
    }
    v
}

fn generate(cfg: &GenCfg, rng: &mut Rng, w: &mut dyn Write) {
    let scale = cfg.scale.max(1) as usize;
    let nprob = if cfg.thorough { 40000 * scale } else { 4000 * scale };
    // inputs that can trigger the open finding are collected and written in one case at the end
    let kf: std::cell::RefCell<Vec<String>> = std::cell::RefCell::new(Vec::new());
    let emit = |w: &mut dyn Write, opts: u32, b: &[u8]| {
        let line = format!("p {} {}", opts, if b.is_empty() { "-".to_string() } else { hex(b) });
        if co_zero_candidate(opts, b) {
            kf.borrow_mut().push(line);
        } else {
            writeln!(w, "{}", line).unwrap();
        }
    };
    // fixed inputs: the examples of the crate's tests, degenerate inputs; under all options
    writeln!(w, "case fixed").unwrap();
    let fixed: [&[u8]; 44] = [
        b"", b"c", b"p", b"c\n", b"p cnf", b"p cnf 0 0", b"p cnf 0 0\n", b"p cnf 0 0\r\n", b"p cnf 0 0\r", b"p  cnf\t0 0 \t\n", b"p cnf 0\n", b"p cnfx 0 0\n", b"p cnf0 0\n",
        b"c Example CNF format file\nc\np cnf 4 3\n1 3 -4 0\n4 0 2\n-3",
        b"c Example CNF format file\nc\np cnf 4 3\n1 3 -4 0\n4 0 2\n-3 0",
        b"c Sample SAT format\nc\np sat 4\n(*(+(1 3 -4)\n    +(4)\n    +(2 3)))",
        b"p satx 1337 \n", b"p sate 1\n", b"p satex 42 \n", b"p sate 2\n=(1 2)\n", b"p satex 2\n=(1 2)\n", b"p satex 3\n=(1 2 3)\n", b"p sat 2\nxor(1 2)\n", b"p satx 2\nxor(1 2)\n",
        b"p satx 2\nxor1(1 2)\n", b"p sat 1\n()\n", b"p sat 1\n*(()\n", b"p sat 1\n*(\n", b"p sat 1\n-\n", b"p sat 1\n- 1", b"p sat 1\n-(1)", b"p sat 1\n-(-(1))", b"p sat 1\n1 1",
        b"p sat 1\n0", b"p sat 1\n2", b"p sat 1\n*()+()", b"p sat 1\n+(*() +() xor() =())",
        b"c 1 a\nc 2 b\nc 3\nc co [[0, 1], [2]]\np cnf 3 3\n1 2 0 -1 3 0 x 1 2 3 0\n",
        b"c vo [[2, 3], [1]]\np satex 3\n=(xor(1 2) -(3))\n",
        b"p cnf 2 2\n- - 1 0\n", b"p cnf 2 2\n-0 1 0 2\n", b"p cnf 2 1\n1 x 2 0\n", b"p cnf 2 2\nx 0 x1 2", b"p cnf 1 1\n1 0 0\n",
    ];
    for f in fixed {
        for o in 0..4 {
            emit(w, o, f);
        }
    }
    // the open finding (these three are routed to the case at the end like all candidates)
    emit(w, 2, b"c co [0]\np cnf 1 0\n");
    emit(w, 3, b"c 1 a\nc co [[0, 1]]\np cnf 1 0\n");
    emit(w, 2, b"c co []\np cnf 0 0\n");
    // the repaired findings: must give a diagnostic / be accepted
    writeln!(w, "case regress-empty-order-tree").unwrap();
    emit(w, 1, b"c vo []\np cnf 1 1\n1 0\n");
    emit(w, 3, b"c vo [[],[[]]]\np sat 1\n1\n");
    emit(w, 2, b"c vo []\np cnf 1 1\n");
    emit(w, 2, b"c co []\np cnf 1 1\n1 0\n");
    writeln!(w, "case regress-order-names").unwrap();
    emit(w, 1, b"c vo [1, 2]\nc 2\np cnf 2 1\n1 0\n");
    emit(w, 1, b"c 2\nc vo [1,2]\np cnf 2 0\n");
    emit(w, 2, b"c 3 \nc vo [3,1,2]\nc 1 a\np sat 3\n1\n");
    // trees on their own: every shape of bracket / comma / blank
    writeln!(w, "case trees").unwrap();
    let trees: [&str; 30] = [
        "1", "[1]", "[[1]]", "[1,2]", "[1, 2]", "[ 1 , 2 ]", "[1,2,]", "[1,,2]", "[,1]", "[1 2]", "[1", "1]", "[]", "[[]]", "[[],1]", "[1,[]]", "[2,1]", "[2]", "[0]", "[1,1]",
        "[[1,2],[3]]", "[3,[1,2]]", "[1,2,4]", " [1]", "[1] ", "[1]x", "1 2", "[1152921504606846976]", "[18446744073709551616]", "[1,[2,[3,[4]]]]",
    ];
    for t in trees {
        for (o, key) in [(1, "vo"), (2, "co"), (3, "vo"), (3, "co")] {
            // declared counts around the number of leaves / the largest leaf
            for n in 0..=4 {
                emit(w, o, format!("c {} {}\np cnf {} {}\n", key, t, n, n).as_bytes());
            }
        }
    }
    for k in 0..nprob {
        let st = if rng.chance(1, 2) { STRICT } else { rand_style(rng) };
        let opts = rng.below(4) as u32;
        let is_sat = k % 3 == 2;
        let base = if is_sat {
            writeln!(w, "case valid-sat-{}", k).unwrap();
            let f = rand_sat(rng, opts, st);
            emit(w, opts, &f);
            f
        } else {
            let c = rand_cnf(rng);
            // the clause tree lines are only consistent with clause counts > 0
            writeln!(w, "case valid-cnf-{}", k).unwrap();
            let f = c.render(rng, opts, st);
            emit(w, opts, &f);
            // the same CNF as the Lean printer writes it (round trip theorem), default options
            writeln!(w, "case valid-cnf-print-{}", k).unwrap();
            emit(w, 0, &c.print_canonical());
            f
        };
        writeln!(w, "case mut-{}", k).unwrap();
        // the same file under the other options
        for o in 0..4 {
            if o != opts {
                emit(w, o, &base);
            }
        }
        // prefixes
        if base.len() <= 48 || k % 10 == 0 {
            for n in 0..base.len() {
                emit(w, opts, &base[..n]);
            }
        } else {
            for _ in 0..4 {
                let n = rng.below(base.len() as u64) as usize;
                emit(w, opts, &base[..n]);
            }
        }
        let nm = if cfg.thorough { 16 } else { 12 };
        for _ in 0..nm {
            let m = mutate(rng, &base);
            let o = if rng.chance(3, 4) { opts } else { rng.below(4) as u32 };
            emit(w, o, &m);
        }
    }
    // resource rule
    writeln!(w, "case skip-rule").unwrap();
    for f in [&b"p cnf 10000 0\n"[..], b"p cnf 9999 0\n", b"p cnf 0 10000\n", b"p sat 1152921504606846975\n1", b"p sat 1152921504606846976\n1", b"c 10000\np cnf 1 0\n", b"c vo [99999]\np cnf 1 0\n"] {
        for o in 0..4 {
            emit(w, o, f);
        }
    }
    let deep: Vec<u8> = b"p sat 1\n".iter().copied().chain(std::iter::repeat(b'(').take(1001)).collect();
    emit(w, 0, &deep);
    let deep1: Vec<u8> = b"p sat 1\n".iter().copied().chain(std::iter::repeat(b'(').take(1000)).chain(*b"1").chain(std::iter::repeat(b')').take(1000)).collect();
    emit(w, 0, &deep1);
    // the open finding: every generated input that can reach `num_clauses.1 - 1` with 0 clauses
    writeln!(w, "case kf-parser-co-zero-clauses").unwrap();
    for l in kf.borrow().iter() {
        writeln!(w, "{}", l).unwrap();
    }
}

fn make(f: &BTreeMap<String, String>) -> Box<dyn Scenario> {
    Box::new(Sc { no_skip: f.get("no-skip").map(|s| s == "1").unwrap_or(false) })
}
fn main() {
    harness_main(generate, make)
}
