//! C18: `oxidd_parser::Circuit::find_cycle` on the real code.
//!
//! Protocol `findcycle` (Lean side: `OxiddModel/Circuit/DriverFindCycle.lean`):
//!
//! ```text
//! circuit <ninputs> ; <kind> <lit>* ; <kind> <lit>* ; ...    set the current circuit   -> ok <ngates>
//! findcycle                                                    Circuit::find_cycle()     -> none | gate <i> | panic index
//! ```
//!
//! `<kind>` is `and|or|xor`, `<lit>` is `F T i<k> !i<k> g<k> !g<k>`. `lit <l>` is printed should
//! the call ever return something that is not a positive gate literal, `panic other` for a panic
//! with an unexpected message.
//!
//! Oracles (independent of the Lean model, all evaluated on the real result):
//! * Kahn's algorithm: the circuit is acyclic iff `find_cycle().is_none()`;
//! * `Some(l)`: `l` is a positive literal of an existing gate, a cycle is reachable from it
//!   (per-gate breadth-first searches), and no gate with a smaller index reaches a cycle;
//! * no panic if every gate literal names an existing gate;
//! * `simplify` with all gates as roots (all input literals known): `Ok` iff `None`,
//!   `Err(gate)` iff `Some`.
//! The documentation's claim "`literal` depends on itself" is *counted* (`doc-deviation: …`), not
//! failed: it is a known documentation deviation (see REPORT.md of ext-c18-findcycle).
use oxidd_parser::{Circuit, GateKind, Literal, VarSet};
use oxv::*;
use std::collections::BTreeMap;
use std::io::Write;
use std::panic::{AssertUnwindSafe, catch_unwind};

#[derive(Clone, Copy, PartialEq, Eq, Debug)]
enum L {
    F,
    T,
    In(bool, usize),
    Gate(bool, usize),
}

#[derive(Clone, Copy, PartialEq, Eq, Debug)]
enum K {
    And,
    Or,
    Xor,
}

#[derive(Clone, Debug)]
struct Src {
    n: usize,
    gates: Vec<(K, Vec<L>)>,
}

fn show_l(l: L) -> String {
    match l {
        L::F => "F".into(),
        L::T => "T".into(),
        L::In(neg, i) => format!("{}i{}", if neg { "!" } else { "" }, i),
        L::Gate(neg, g) => format!("{}g{}", if neg { "!" } else { "" }, g),
    }
}
fn show_k(k: K) -> &'static str {
    match k {
        K::And => "and",
        K::Or => "or",
        K::Xor => "xor",
    }
}
fn parse_num(s: &str) -> Option<usize> {
    if s.is_empty() || !s.bytes().all(|b| b.is_ascii_digit()) || s.len() > 9 {
        return None;
    }
    s.parse().ok()
}
fn parse_l(s: &str) -> Option<L> {
    let (neg, r) = match s.strip_prefix('!') {
        Some(r) => (true, r),
        None => (false, s),
    };
    match r {
        "F" if !neg => Some(L::F),
        "T" if !neg => Some(L::T),
        _ => {
            let c = r.chars().next()?;
            let k = parse_num(&r[c.len_utf8()..])?;
            match c {
                'i' => Some(L::In(neg, k)),
                'g' => Some(L::Gate(neg, k)),
                _ => None,
            }
        }
    }
}
fn parse_circuit(line: &str) -> Option<Src> {
    let mut parts = line.split(';').map(|p| words(p));
    let head = parts.next()?;
    if head.len() != 2 || head[0] != "circuit" {
        return None;
    }
    let n = parse_num(head[1])?;
    let mut gates = Vec::new();
    for p in parts {
        if p.is_empty() {
            return None;
        }
        let lits: Option<Vec<L>> = p[1..].iter().map(|s| parse_l(s)).collect();
        let k = match p[0] {
            "and" => K::And,
            "or" => K::Or,
            "xor" => K::Xor,
            _ => return None,
        };
        gates.push((k, lits?));
    }
    Some(Src { n, gates })
}
fn show_src(s: &Src) -> String {
    let mut o = format!("circuit {}", s.n);
    for (k, ls) in &s.gates {
        o.push_str(" ; ");
        o.push_str(show_k(*k));
        for l in ls {
            o.push(' ');
            o.push_str(&show_l(*l));
        }
    }
    o
}

fn to_real(l: L) -> Literal {
    match l {
        L::F => Literal::FALSE,
        L::T => Literal::TRUE,
        L::In(neg, i) => Literal::from_input(neg, i),
        L::Gate(neg, g) => Literal::from_gate(neg, g),
    }
}
fn build(s: &Src) -> Circuit {
    let mut c = Circuit::new(VarSet::new(s.n));
    for (k, ls) in &s.gates {
        c.push_gate(match k {
            K::And => GateKind::And,
            K::Or => GateKind::Or,
            K::Xor => GateKind::Xor,
        });
        c.push_gate_inputs(ls.iter().map(|l| to_real(*l)));
    }
    c
}

// ------------------------------------------------------------------ reference computations

/// successors (gate numbers among the inputs, in range only) and whether all are in range
fn succs(s: &Src) -> (Vec<Vec<usize>>, bool) {
    let g = s.gates.len();
    let mut in_range = true;
    let adj = s
        .gates
        .iter()
        .map(|(_, ls)| {
            ls.iter()
                .filter_map(|l| match l {
                    L::Gate(_, j) if *j < g => Some(*j),
                    L::Gate(..) => {
                        in_range = false;
                        None
                    }
                    _ => None,
                })
                .collect()
        })
        .collect();
    (adj, in_range)
}

/// Kahn's algorithm: repeatedly remove gates without remaining predecessors ("users"); the graph
/// is acyclic iff all gates get removed
fn kahn_acyclic(adj: &[Vec<usize>]) -> bool {
    let g = adj.len();
    let mut indeg = vec![0usize; g];
    for v in 0..g {
        for &w in &adj[v] {
            indeg[w] += 1;
        }
    }
    let mut queue: Vec<usize> = (0..g).filter(|&v| indeg[v] == 0).collect();
    let mut removed = 0;
    while let Some(v) = queue.pop() {
        removed += 1;
        for &w in &adj[v] {
            indeg[w] -= 1;
            if indeg[w] == 0 {
                queue.push(w);
            }
        }
    }
    removed == g
}

/// `reach[v][w]`: `w` reachable from `v` through at least one edge
fn reach_plus(adj: &[Vec<usize>]) -> Vec<Vec<bool>> {
    let g = adj.len();
    let mut out = Vec::with_capacity(g);
    for v in 0..g {
        let mut seen = vec![false; g];
        let mut st: Vec<usize> = adj[v].clone();
        while let Some(x) = st.pop() {
            if seen[x] {
                continue;
            }
            seen[x] = true;
            st.extend(adj[x].iter().copied());
        }
        out.push(seen);
    }
    out
}

// ------------------------------------------------------------------ the scenario

struct Fc {
    cur: Option<Src>,
}

enum Outcome {
    None,
    Some(Literal),
    Panic(String),
}

fn panic_msg(e: Box<dyn std::any::Any + Send>) -> String {
    if let Some(s) = e.downcast_ref::<String>() {
        s.clone()
    } else if let Some(s) = e.downcast_ref::<&str>() {
        s.to_string()
    } else {
        "?".into()
    }
}

fn run_real(s: &Src) -> Outcome {
    match catch_unwind(AssertUnwindSafe(|| build(s).find_cycle())) {
        Ok(None) => Outcome::None,
        Ok(Some(l)) => Outcome::Some(l),
        Err(e) => Outcome::Panic(panic_msg(e)),
    }
}

fn render(o: &Outcome) -> String {
    match o {
        Outcome::None => "none".into(),
        Outcome::Some(l) => match l.get_gate_no() {
            Some(g) if !l.is_negative() => format!("gate {}", g),
            Some(g) => format!("lit !g{}", g),
            None => "lit ?".into(),
        },
        Outcome::Panic(m) => {
            if m.contains("exceeds fixedbitset size") || m.contains("index out of bounds") || m.contains("unwrap") {
                "panic index".into()
            } else {
                "panic other".into()
            }
        }
    }
}

fn oracle(s: &Src, out: &Outcome, ctx: &mut Ctx) {
    let line = show_src(s);
    let (adj, in_range) = succs(s);
    if !in_range {
        ctx.count("precondition:dangling-gate-reference");
        match out {
            Outcome::Panic(_) => ctx.count("dangling-gate-reference: panic"),
            Outcome::Some(_) => ctx.count("dangling-gate-reference: cycle found first"),
            Outcome::None => ctx.count("dangling-gate-reference: none"),
        }
        return;
    }
    let g = adj.len();
    let acyclic = kahn_acyclic(&adj);
    match out {
        Outcome::Panic(m) => {
            ctx.fail("findcycle-panic", &format!("`{}`: find_cycle panicked although all gate references are in range: {}", line, m));
            return;
        }
        Outcome::None => {
            ctx.count("result:none");
            if !acyclic {
                ctx.fail("findcycle-none-but-cyclic", &format!("`{}`: find_cycle() = None but Kahn's algorithm leaves gates", line));
            }
        }
        Outcome::Some(l) => {
            ctx.count("result:some");
            if acyclic {
                ctx.fail("findcycle-some-but-acyclic", &format!("`{}`: find_cycle() = Some but the circuit is acyclic (Kahn)", line));
            }
            match l.get_gate_no() {
                Some(i) if !l.is_negative() && i < g => {
                    let rp = reach_plus(&adj);
                    let on_cycle: Vec<bool> = (0..g).map(|v| rp[v][v]).collect();
                    let cycle_from = |v: usize| on_cycle[v] || (0..g).any(|w| rp[v][w] && on_cycle[w]);
                    if !cycle_from(i) {
                        ctx.fail("findcycle-no-cycle-from-result", &format!("`{}`: no cycle is reachable from the reported gate {}", line, i));
                    }
                    if let Some(j) = (0..i).find(|&j| cycle_from(j)) {
                        ctx.fail("findcycle-not-least", &format!("`{}`: reported gate {} but a cycle is reachable from gate {} already", line, i, j));
                    }
                    if on_cycle[i] {
                        ctx.count("reported gate depends on itself (doc claim holds)");
                    } else {
                        ctx.count("doc-deviation: reported gate does not depend on itself");
                    }
                }
                _ => ctx.fail("findcycle-result-not-gate", &format!("`{}`: result is not a positive literal of an existing gate", line)),
            }
        }
    }
    // relation to `simplify` with all gates as roots (only when every input literal is known)
    let known = s.gates.iter().all(|(_, ls)| ls.iter().all(|l| !matches!(l, L::In(_, i) if *i >= s.n)));
    if known {
        let r = catch_unwind(AssertUnwindSafe(|| {
            let c = build(s);
            c.simplify((0..g).map(|i| Literal::from_gate(false, i))).map(|_| ())
        }));
        let is_some = matches!(out, Outcome::Some(_));
        match r {
            Ok(Ok(())) => {
                ctx.count("simplify(all gates): ok");
                if is_some {
                    ctx.fail("simplify-ok-but-cycle", &format!("`{}`: find_cycle() = Some but simplify with all gates as roots succeeds", line));
                }
            }
            Ok(Err(l)) if l.is_gate() => {
                ctx.count("simplify(all gates): Err(gate)");
                if !is_some {
                    ctx.fail("simplify-cycle-but-none", &format!("`{}`: find_cycle() = None but simplify reports a cycle", line));
                }
            }
            Ok(Err(_)) => ctx.fail("simplify-unknown-input", &format!("`{}`: simplify reports an unknown input although all are known", line)),
            Err(e) => ctx.fail("simplify-panic", &format!("`{}`: simplify panicked: {}", line, panic_msg(e))),
        }
    }
}

impl Scenario for Fc {
    fn reset(&mut self) {
        self.cur = None;
    }
    fn step(&mut self, line: &str, ctx: &mut Ctx) -> String {
        let ws = words(line);
        match ws.first().copied() {
            Some("findcycle") if ws.len() == 1 => {
                let Some(s) = &self.cur else { return "bad-op".into() };
                let out = run_real(s);
                oracle(s, &out, ctx);
                ctx.count(&format!("gates:{}", match s.gates.len() {
                    0..=3 => "0-3",
                    4..=10 => "4-10",
                    11..=25 => "11-25",
                    _ => "26+",
                }));
                // with a dangling gate reference (precondition violated) the outcome — panic or
                // a cycle found first — depends on the traversal order; the oracle above counts it
                if !succs(s).1 {
                    if let Outcome::Panic(m) = &out {
                        if render(&out) == "panic other" {
                            ctx.fail("findcycle-unexpected-panic", &format!("{}: {m}", show_src(s)));
                        }
                    }
                    return "precondition-violated".into();
                }
                render(&out)
            }
            Some("circuit") => match parse_circuit(line) {
                Some(s) => {
                    let n = s.gates.len();
                    self.cur = Some(s);
                    format!("ok {}", n)
                }
                None => "bad-op".into(),
            },
            _ => "bad-op".into(),
        }
    }
}

// ------------------------------------------------------------------ generator

fn kind_of(rng: &mut Rng) -> K {
    *rng.pick(&[K::And, K::Or, K::Xor])
}
fn emit(w: &mut dyn Write, s: &Src) {
    writeln!(w, "{}", show_src(s)).unwrap();
    writeln!(w, "findcycle").unwrap();
}

/// all circuits with `g` gates, at most two inputs per gate, every input slot one of
/// `i0, g0 .. g<g-1>` (self loops included); kinds and polarities from the `Rng`
fn exhaustive(g: usize, rng: &mut Rng, w: &mut dyn Write) -> u64 {
    let alphabet: Vec<L> = std::iter::once(L::In(false, 0)).chain((0..g).map(|j| L::Gate(false, j))).collect();
    let mut shapes: Vec<Vec<L>> = vec![vec![]];
    for a in &alphabet {
        shapes.push(vec![*a]);
    }
    for a in &alphabet {
        for b in &alphabet {
            shapes.push(vec![*a, *b]);
        }
    }
    let k = shapes.len();
    let total = (k as u64).pow(g as u32);
    for code in 0..total {
        let mut c = code;
        let mut gates = Vec::with_capacity(g);
        for _ in 0..g {
            let sh = &shapes[(c % k as u64) as usize];
            c /= k as u64;
            let ls = sh
                .iter()
                .map(|l| match *l {
                    L::In(_, i) => L::In(rng.chance(1, 4), i),
                    L::Gate(_, j) => L::Gate(rng.chance(1, 3), j),
                    x => x,
                })
                .collect();
            gates.push((kind_of(rng), ls));
        }
        emit(w, &Src { n: 1, gates });
    }
    total
}

fn rand_nongate(rng: &mut Rng, n: usize) -> L {
    match rng.below(6) {
        0 => L::F,
        1 => L::T,
        _ => L::In(rng.chance(1, 2), rng.below(n.max(1) as u64) as usize),
    }
}

/// random circuit: every gate gets `0..=max_in` inputs, each a gate reference with probability
/// `pg/8` drawn by `pick_gate(own index)`
fn random_circuit(rng: &mut Rng, g: usize, n: usize, max_in: u64, pg: u64, pick_gate: &mut dyn FnMut(&mut Rng, usize) -> Option<usize>) -> Src {
    let mut gates = Vec::with_capacity(g);
    for i in 0..g {
        let k = rng.range(0, max_in);
        let mut ls = Vec::new();
        for _ in 0..k {
            let l = if rng.below(8) < pg {
                match pick_gate(rng, i) {
                    Some(j) => L::Gate(rng.chance(1, 2), j),
                    None => rand_nongate(rng, n),
                }
            } else {
                rand_nongate(rng, n)
            };
            ls.push(l);
        }
        gates.push((kind_of(rng), ls));
    }
    Src { n, gates }
}

/// a chain over a random permutation of the gate numbers (`p[0] -> p[1] -> …`) with one back edge
/// from position `from` to position `to <= from`; extra non-gate inputs sprinkled in
fn chain_with_back_edge(rng: &mut Rng, g: usize, permute: bool, back: bool) -> Src {
    let mut p: Vec<usize> = (0..g).collect();
    if permute {
        rng.shuffle(&mut p);
    }
    let n = 3;
    let mut gates: Vec<(K, Vec<L>)> = (0..g).map(|_| (K::And, vec![])).collect();
    for pos in 0..g {
        let mut ls = Vec::new();
        if rng.chance(1, 3) {
            ls.push(rand_nongate(rng, n));
        }
        if pos + 1 < g {
            ls.push(L::Gate(rng.chance(1, 2), p[pos + 1]));
        }
        if rng.chance(1, 4) {
            ls.push(rand_nongate(rng, n));
        }
        gates[p[pos]] = (kind_of(rng), ls);
    }
    if back && g > 0 {
        let from = rng.below(g as u64) as usize;
        let to = rng.below(from as u64 + 1) as usize;
        let at = rng.below(gates[p[from]].1.len() as u64 + 1) as usize;
        gates[p[from]].1.insert(at, L::Gate(rng.chance(1, 2), p[to]));
    }
    Src { n, gates }
}

fn generate(cfg: &GenCfg, rng: &mut Rng, w: &mut dyn Write) {
    let scale = cfg.scale.max(1) * if cfg.thorough { 10 } else { 1 };
    // 1. exhaustive small circuits (both tiers: 1 + 7 + 169 + 9261 circuits)
    for g in 0..=3usize {
        writeln!(w, "case exhaustive-{}", g).unwrap();
        exhaustive(g, rng, w);
    }
    // 2. the witness of the documentation deviation and relatives
    writeln!(w, "case lasso").unwrap();
    writeln!(w, "circuit 0 ; and g1 ; and g2 ; and g1").unwrap();
    writeln!(w, "findcycle").unwrap();
    writeln!(w, "circuit 0 ; and g1 ; and g2 ; and g2").unwrap();
    writeln!(w, "findcycle").unwrap();
    writeln!(w, "circuit 2 ; xor i0 !g2 ; or i1 ; and g1 g3 ; and !g2 i0").unwrap();
    writeln!(w, "findcycle").unwrap();
    writeln!(w, "findcycle").unwrap();
    // 3. random circuits
    for round in 0..(300 * scale) {
        writeln!(w, "case random-{}", round).unwrap();
        let n = rng.range(0, 4) as usize;
        // sparse, arbitrary references
        let g = rng.range(1, 40) as usize;
        emit(w, &random_circuit(rng, g, n, 3, 4, &mut |r, _| Some(r.below(g as u64) as usize)));
        // dense, arbitrary references
        let g = rng.range(1, 40) as usize;
        emit(w, &random_circuit(rng, g, n, 8, 6, &mut |r, _| Some(r.below(g as u64) as usize)));
        // acyclic by construction: references to larger indices only (inputs after users)
        let g = rng.range(1, 40) as usize;
        emit(w, &random_circuit(rng, g, n, 5, 6, &mut |r, i| if i + 1 < g { Some(r.range(i as u64 + 1, g as u64 - 1) as usize) } else { None }));
        // acyclic by construction: references to smaller indices only (topological order)
        let g = rng.range(1, 40) as usize;
        emit(w, &random_circuit(rng, g, n, 5, 6, &mut |r, i| if i > 0 { Some(r.below(i as u64) as usize) } else { None }));
        // mostly forward references, a back edge now and then
        let g = rng.range(2, 40) as usize;
        emit(w, &random_circuit(rng, g, n, 4, 5, &mut |r, i| {
            if r.chance(1, 24) {
                Some(r.below(i as u64 + 1) as usize)
            } else if i + 1 < g {
                Some(r.range(i as u64 + 1, g as u64 - 1) as usize)
            } else {
                None
            }
        }));
        // long chains: plain, with one back edge at a random position, over a permutation
        let g = rng.range(1, 40) as usize;
        emit(w, &chain_with_back_edge(rng, g, false, true));
        let g = rng.range(1, 40) as usize;
        emit(w, &chain_with_back_edge(rng, g, true, true));
        let g = rng.range(1, 40) as usize;
        let permute = rng.chance(1, 2);
        emit(w, &chain_with_back_edge(rng, g, permute, false));
        // a gate reference that names no gate (outside the contract: panic unless a cycle is found first)
        if round % 4 == 0 {
            let g = rng.range(1, 12) as usize;
            let mut s = random_circuit(rng, g, n, 3, 4, &mut |r, _| Some(r.below(g as u64) as usize));
            let at = rng.below(g as u64) as usize;
            s.gates[at].1.push(L::Gate(rng.chance(1, 2), g + rng.below(3) as usize));
            emit(w, &s);
        }
    }
    // 4. ill-formed lines
    writeln!(w, "case malformed").unwrap();
    for l in ["findcycle", "circuit", "circuit x", "circuit 1 ; nand i0", "circuit 1 ; and h0", "circuit 1 ; and U", "circuit 1 ;", "findcycle 1", "circ 1 ; and i0", "circuit 1 ; and g0000000000"] {
        writeln!(w, "{}", l).unwrap();
    }
}

fn make(_f: &BTreeMap<String, String>) -> Box<dyn Scenario> {
    Box::new(Fc { cur: None })
}
fn main() {
    harness_main(generate, make)
}
