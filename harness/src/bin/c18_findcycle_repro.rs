//! Reproduction of the documentation deviation of `oxidd_parser::Circuit::find_cycle`
//! (ext-c18-findcycle): the doc comment says "Returns `Some(literal)` if `literal` depends on
//! itself", but the method returns the first gate (in index order) from which a cycle is
//! *reachable*. Exit code 0 iff the deviation is observed.
//!
//! gate0 = and(gate1), gate1 = and(gate2), gate2 = and(gate1): the cycle is gate1 -> gate2 ->
//! gate1, the result is gate 0.
//!
//! Second part: the AIGER and NNF parsers pass the result on as "… depends on itself" diagnostics;
//! the same circuit as an ASCII AIGER file makes the parser blame the and gate of variable 1.
use oxidd_parser::{Circuit, GateKind, Literal, ParseOptionsBuilder, VarSet};

fn depends_on_itself(c: &Circuit, start: usize) -> bool {
    let gates: Vec<Vec<usize>> = c.iter_gates().map(|g| g.inputs.iter().filter_map(|l| l.get_gate_no()).collect()).collect();
    let mut seen = vec![false; gates.len()];
    let mut st = gates[start].clone();
    while let Some(x) = st.pop() {
        if x == start {
            return true;
        }
        if !seen[x] {
            seen[x] = true;
            st.extend(gates[x].iter().copied());
        }
    }
    false
}

fn main() {
    let mut c = Circuit::new(VarSet::new(0));
    for next in [1usize, 2, 1] {
        c.push_gate(GateKind::And);
        c.push_gate_input(Literal::from_gate(false, next));
    }
    let r = c.find_cycle();
    println!("find_cycle() = {:?}", r.map(|l| (l.is_negative(), l.get_gate_no())));
    let g = r.expect("a cycle exists").get_gate_no().expect("a gate");
    let own = depends_on_itself(&c, g);
    println!("reported gate {} depends on itself: {}", g, own);
    for i in 0..3 {
        println!("  gate {} depends on itself: {}", i, depends_on_itself(&c, i));
    }

    // the same circuit as ASCII AIGER: variables 1, 2, 3 are the and gates, output is variable 1
    let path = std::env::temp_dir().join(format!("ext-c18-findcycle-{}.aag", std::process::id()));
    std::fs::write(&path, "aag 3 0 0 1 3\n2\n2 4 4\n4 6 6\n6 4 4\n").unwrap();
    let opts = ParseOptionsBuilder::default().check_acyclic(true).build().unwrap();
    println!("--- diagnostic of oxidd_parser::load_file::load_file on the AIGER version (stderr):");
    let p = oxidd_parser::load_file(&path, &opts);
    println!("load_file(..).is_some() = {}", p.is_some());
    let _ = std::fs::remove_file(&path);

    std::process::exit(if g == 0 && !own { 0 } else { 1 });
}
