//! C18 extension: the NNF (c2d / d4 / Bella format) parser on raw bytes against the byte-level
//! Lean model `OxiddModel.NnfParse` (protocol `nnfparse`).
//!
//! One operation line = one input:
//! `p <var_order 0|1> <check_acyclic 0|1> <bytes as hex | ->`, or
//! `v <var_order> <check_acyclic> <truth table | -> <hex>` for a generated valid file (must be
//! accepted; the truth table of its root over the declared inputs, assignment `a` at position `a`,
//! bit `k` of `a` = value of input `k`, is checked on the parsed circuit).
//! The real `oxidd_parser::nnf::parse` runs under `catch_unwind`; the output line is
//!
//! * `OK n=<#vars> ord=[..] tree=<tree|-> names=[..] g=[K(lit,..);..] root=<lit>`: every field of
//!   the `Problem` (`VarSet` fields read from the derived `Debug` rendering and cross-checked with
//!   the accessors),
//! * `ERR` (a diagnostic), `PANIC <kind>`,
//! * `SKIP`: the input contains a decimal number in `10000 ..= usize::MAX/16`, which the parser may
//!   accept as a count / variable number and reserve memory for (known finding KF-parser-alloc;
//!   both sides decide this by the same scan of the bytes and do not run the parser).
//!
//! Oracles on the implementation (independent of the model): no panic (the two characterised
//! `VarSet::check_valid` panics are tolerated only in their `case kf-…`, into which the generator
//! routes every input that can possibly trigger them by a syntactic over-approximation); nothing
//! left over; an accepted problem is consistent (every gate input and the root name an existing
//! input / gate, no empty gate, order empty or a permutation of the variables and the flattened
//! tree, names minimal/unique/non-empty, acyclic when `check_acyclic` by an independent Kahn
//! sort); generated valid files are accepted and compute the generator's truth table.
//!
//! Round-trip lines `s <var_order> <check_acyclic> <#inputs> <#edges> <node> …` (one token per node
//! line: `lp<v>`/`ln<v>`, `a<kids>`, `x<kids>`, `o<conflict>:<kids>`, kids separated by `.`): the
//! source is printed in the canonical form by this file's own printer, parsed by the real parser,
//! and reported as `RT <hex of the text> <result>`; the Lean side prints `printNnf S` and `canon S`
//! (theorem `parse_printNnf_of_cycleCheck`). Oracles: accepted iff `check_acyclic` is off or the
//! node graph is acyclic (Kahn on the source).
//!
//! Generator: structured NNF files — random DAGs written in a random (not necessarily topological)
//! line order, all node kinds and letter cases (`A a B b X x O o L l`), empty gates, conflict
//! variables, signed literals, preambles of every kind (none, free comments without the option,
//! complete order records with UTF-8 names, an order tree with nesting / singleton brackets /
//! empty sub-brackets / trailing commas plus a subset of records before and after it), loose white
//! space, CR LF, trailing white space; cyclic variants; then all prefixes (short files) or sampled
//! prefixes, byte mutations biased to structural bytes, numeric tokens replaced by small numbers
//! and by boundary values (u64 / i64 / usize::MAX/16 boundaries, signs, zero padding) in every
//! numeric field, line duplication / deletion, invalid UTF-8 in names.
use oxidd_parser::{GateKind, Literal, ParseOptionsBuilder, Problem, ProblemDetails, Tree};
use oxv::*;
use std::collections::BTreeMap;
use std::io::Write;
use std::panic::{AssertUnwindSafe, catch_unwind};

const MAX_CAP: u128 = 1152921504606846975;
const SKIP_FROM: u128 = 10000;

fn hex(b: &[u8]) -> String {
    let mut s = String::with_capacity(2 * b.len());
    for x in b {
        s.push_str(&format!("{:02x}", x));
    }
    s
}
fn unhex(s: &str) -> Option<Vec<u8>> {
    if s == "-" {
        return Some(Vec::new());
    }
    if s.len() % 2 != 0 {
        return None;
    }
    let b = s.as_bytes();
    let v = |c: u8| match c {
        b'0'..=b'9' => Some(c - b'0'),
        b'a'..=b'f' => Some(c - b'a' + 10),
        _ => None,
    };
    (0..b.len() / 2).map(|i| Some(16 * v(b[2 * i])? + v(b[2 * i + 1])?)).collect()
}
fn panic_msg(e: &Box<dyn std::any::Any + Send>) -> String {
    if let Some(s) = e.downcast_ref::<String>() {
        s.clone()
    } else if let Some(s) = e.downcast_ref::<&str>() {
        s.to_string()
    } else {
        "?".into()
    }
}

/// the resource rule: some maximal run of ASCII digits has a value in `SKIP_FROM ..= MAX_CAP`
fn too_big(b: &[u8]) -> bool {
    let mut i = 0;
    while i < b.len() {
        if b[i].is_ascii_digit() {
            let mut v: u128 = 0;
            let mut sat = false;
            while i < b.len() && b[i].is_ascii_digit() {
                if !sat {
                    v = v * 10 + (b[i] - b'0') as u128;
                    if v > MAX_CAP {
                        sat = true;
                    }
                }
                i += 1;
            }
            if !sat && v >= SKIP_FROM {
                return true;
            }
        } else {
            i += 1;
        }
    }
    false
}

// ------------------------------------------------------------------ reader of `Debug` output

#[derive(Debug, Clone, PartialEq)]
enum Dv {
    Atom(String),
    Str(String),
    List(Vec<Dv>),
    Struct(Vec<(String, Dv)>),
    Tuple(String, Vec<Dv>),
}
struct DvRd<'a> {
    s: &'a str,
    pos: usize,
}
impl DvRd<'_> {
    fn peek(&self) -> Option<char> {
        self.s[self.pos..].chars().next()
    }
    fn bump(&mut self) {
        if let Some(c) = self.peek() {
            self.pos += c.len_utf8();
        }
    }
    fn ws(&mut self) {
        while matches!(self.peek(), Some(' ') | Some('\n')) {
            self.bump()
        }
    }
    fn eat(&mut self, c: char) -> bool {
        self.ws();
        if self.peek() == Some(c) {
            self.bump();
            true
        } else {
            false
        }
    }
    fn seq(&mut self, close: char, depth: u32) -> Option<Vec<Dv>> {
        let mut v = Vec::new();
        loop {
            if self.eat(close) {
                return Some(v);
            }
            v.push(self.value(depth + 1)?);
            if !self.eat(',') {
                return if self.eat(close) { Some(v) } else { None };
            }
        }
    }
    fn value(&mut self, depth: u32) -> Option<Dv> {
        if depth > 400 {
            return None;
        }
        self.ws();
        match self.peek()? {
            '[' => {
                self.bump();
                Some(Dv::List(self.seq(']', depth)?))
            }
            '"' => {
                self.bump();
                let mut out = String::new();
                loop {
                    let c = self.peek()?;
                    self.bump();
                    match c {
                        '"' => break,
                        '\\' => {
                            let e = self.peek()?;
                            self.bump();
                            match e {
                                'n' => out.push('\n'),
                                't' => out.push('\t'),
                                'r' => out.push('\r'),
                                '0' => out.push('\0'),
                                'u' => {
                                    if self.peek()? != '{' {
                                        return None;
                                    }
                                    self.bump();
                                    let st = self.pos;
                                    while self.peek()? != '}' {
                                        self.bump();
                                    }
                                    out.push(char::from_u32(u32::from_str_radix(&self.s[st..self.pos], 16).ok()?)?);
                                    self.bump();
                                }
                                e => out.push(e),
                            }
                        }
                        c => out.push(c),
                    }
                }
                Some(Dv::Str(out))
            }
            _ => {
                let st = self.pos;
                while let Some(c) = self.peek() {
                    if ",]})({ \n".contains(c) {
                        break;
                    }
                    self.bump();
                }
                let atom = self.s[st..self.pos].to_string();
                if atom.is_empty() {
                    return None;
                }
                if self.peek() == Some('(') {
                    self.bump();
                    return Some(Dv::Tuple(atom, self.seq(')', depth)?));
                }
                if self.s[self.pos..].starts_with(" {") {
                    self.pos += 2;
                    let mut f = Vec::new();
                    loop {
                        if self.eat('}') {
                            break;
                        }
                        self.ws();
                        let st = self.pos;
                        while self.peek()? != ':' {
                            self.bump();
                        }
                        let name = self.s[st..self.pos].to_string();
                        self.bump();
                        f.push((name, self.value(depth + 1)?));
                        if !self.eat(',') {
                            if self.eat('}') {
                                break;
                            }
                            return None;
                        }
                    }
                    return Some(Dv::Struct(f));
                }
                Some(Dv::Atom(atom))
            }
        }
    }
}

/// the raw fields of a `VarSet`, from its derived `Debug` rendering
struct RawVars {
    len: usize,
    order: Vec<usize>,
    names: Vec<Option<String>>,
    has_tree: bool,
}

fn raw_vars(text: &str) -> Result<RawVars, String> {
    let bad = |what: &str| format!("Debug rendering of VarSet not understood ({}): {}", what, text.chars().take(300).collect::<String>());
    let mut rd = DvRd { s: text, pos: 0 };
    let Some(Dv::Struct(fields)) = rd.value(0) else {
        return Err(bad("not a struct"));
    };
    let get = |n: &str| fields.iter().find(|(k, _)| k.trim() == n).map(|x| &x.1).ok_or_else(|| bad(&format!("no field {}", n)));
    let len = match get("len")? {
        Dv::Atom(a) => a.parse::<usize>().map_err(|_| bad("len"))?,
        _ => return Err(bad("len")),
    };
    let order = match get("order")? {
        Dv::List(xs) => xs
            .iter()
            .map(|x| match x {
                Dv::Atom(a) => a.parse::<usize>().map_err(|_| bad("order element")),
                _ => Err(bad("order element")),
            })
            .collect::<Result<Vec<_>, _>>()?,
        _ => return Err(bad("order")),
    };
    let names = match get("names")? {
        Dv::List(xs) => xs
            .iter()
            .map(|x| match x {
                Dv::Atom(a) if a == "None" => Ok(None),
                Dv::Tuple(t, v) if t == "Some" && v.len() == 1 => match &v[0] {
                    Dv::Str(s) => Ok(Some(s.clone())),
                    _ => Err(bad("name")),
                },
                _ => Err(bad("names element")),
            })
            .collect::<Result<Vec<_>, _>>()?,
        _ => return Err(bad("names")),
    };
    let has_tree = match get("order_tree")? {
        Dv::Atom(a) if a == "None" => false,
        Dv::Tuple(t, _) if t == "Some" => true,
        _ => return Err(bad("order_tree")),
    };
    Ok(RawVars { len, order, names, has_tree })
}

// ------------------------------------------------------------------ canonical rendering, oracles

fn show_lit(l: Literal) -> String {
    if l == Literal::FALSE {
        return "F".into();
    }
    if l == Literal::TRUE {
        return "T".into();
    }
    let neg = if l.is_negative() { "!" } else { "" };
    if let Some(g) = l.get_gate_no() {
        return format!("{}g{}", neg, g);
    }
    match l.get_input() {
        Some(i) => format!("{}i{}", neg, i),
        None => format!("{}?", neg),
    }
}

fn show_tree(t: &Tree<usize>, out: &mut String, flat: &mut Vec<usize>) {
    // iterative (the tree may be deep): explicit stack of (node, next child)
    enum It<'a> {
        Node(&'a Tree<usize>),
        Close,
        Comma,
    }
    let mut st = vec![It::Node(t)];
    while let Some(it) = st.pop() {
        match it {
            It::Close => out.push(']'),
            It::Comma => out.push(','),
            It::Node(Tree::Leaf(n)) => {
                out.push_str(&n.to_string());
                flat.push(*n);
            }
            It::Node(Tree::Inner(cs)) => {
                out.push('[');
                st.push(It::Close);
                for (k, c) in cs.iter().enumerate().rev() {
                    st.push(It::Node(c));
                    if k > 0 {
                        st.push(It::Comma);
                    }
                }
            }
        }
    }
}

fn lit_in_range(p: &Problem, l: Literal) -> bool {
    if l == Literal::FALSE || l == Literal::TRUE {
        return true;
    }
    if let Some(g) = l.get_gate_no() {
        return g < p.circuit.num_gates();
    }
    match l.get_input() {
        Some(i) => i < p.circuit.inputs().len(),
        None => false,
    }
}

/// Kahn's algorithm on the gate graph: `true` iff acyclic
fn acyclic(p: &Problem) -> bool {
    let n = p.circuit.num_gates();
    // edge g -> child; a gate can be removed when all its children are removed
    let mut pending = vec![0usize; n];
    let mut parents: Vec<Vec<usize>> = vec![Vec::new(); n];
    for g in 0..n {
        let gate = p.circuit.gate_for_no(g).unwrap();
        for &x in gate.inputs {
            if let Some(c) = x.get_gate_no() {
                if c < n {
                    pending[g] += 1;
                    parents[c].push(g);
                }
            }
        }
    }
    let mut ready: Vec<usize> = (0..n).filter(|&g| pending[g] == 0).collect();
    let mut done = 0;
    while let Some(c) = ready.pop() {
        done += 1;
        for &g in &parents[c] {
            pending[g] -= 1;
            if pending[g] == 0 {
                ready.push(g);
            }
        }
    }
    done == n
}

/// value of a literal under an assignment (memoised per gate; the circuit must be acyclic)
fn eval(p: &Problem, l: Literal, asg: u32, memo: &mut Vec<Option<bool>>) -> bool {
    if l == Literal::FALSE {
        return false;
    }
    if l == Literal::TRUE {
        return true;
    }
    let neg = l.is_negative();
    if let Some(i) = l.get_input() {
        return (((asg >> i) & 1) != 0) ^ neg;
    }
    let g = l.get_gate_no().unwrap();
    if let Some(v) = memo[g] {
        return v ^ neg;
    }
    let gate = p.circuit.gate_for_no(g).unwrap();
    let vals: Vec<bool> = gate.inputs.iter().map(|&x| eval(p, x, asg, memo)).collect();
    let v = match gate.kind {
        GateKind::And => vals.iter().all(|&x| x),
        GateKind::Or => vals.iter().any(|&x| x),
        GateKind::Xor => vals.iter().fold(false, |a, &x| a ^ x),
    };
    memo[g] = Some(v);
    v ^ neg
}

/// canonical line of an accepted problem; `Err` = the problem cannot be read or is inconsistent
fn show_problem(p: &Problem, check_acyclic: bool) -> Result<String, String> {
    let ProblemDetails::Root(root) = &p.details else {
        return Err("not a Root problem".into());
    };
    let c = &p.circuit;
    let vs = c.inputs();
    let raw = raw_vars(&format!("{:?}", vs))?;
    let n = vs.len();
    let mut notes: Vec<String> = Vec::new();
    if raw.len != n {
        notes.push(format!("len() = {} but the field is {}", n, raw.len));
    }
    if n as u128 > MAX_CAP {
        notes.push(format!("{} variables", n));
    }
    // order: empty or a permutation of the variables
    if !raw.order.is_empty() {
        let mut seen = vec![false; n];
        let mut ok = raw.order.len() == n;
        for &v in &raw.order {
            if v >= n || seen[v] {
                ok = false;
                break;
            }
            seen[v] = true;
        }
        if !ok {
            notes.push(format!("order {:?} is not a permutation of 0..{}", raw.order, n));
        }
        if vs.order() != Some(&raw.order[..]) {
            notes.push("order() disagrees with the order field".into());
        }
    } else if n != 0 && vs.order().is_some() {
        notes.push("order() is Some for an empty order".into());
    }
    let mut tree = String::from("-");
    if raw.has_tree != vs.order_tree().is_some() {
        notes.push("order_tree() disagrees with the Debug rendering".into());
    }
    if let Some(t) = vs.order_tree() {
        tree.clear();
        let mut flat = Vec::new();
        show_tree(t, &mut tree, &mut flat);
        if flat != raw.order {
            notes.push(format!("order {:?} is not the flattened tree {}", raw.order, tree));
        }
        if raw.order.is_empty() {
            notes.push("order tree without an order".into());
        }
    }
    // names: minimal length, no empty name, unique
    if raw.names.len() > n {
        notes.push(format!("{} names for {} variables", raw.names.len(), n));
    }
    if raw.names.last() == Some(&None) {
        notes.push("names ends with None (VarSet: `names.last() != Some(&None)`)".into());
    }
    let mut seen_names: Vec<&str> = Vec::new();
    for (i, nm) in raw.names.iter().enumerate() {
        if vs.name(i) != nm.as_deref() {
            notes.push(format!("name({}) disagrees with the names field", i));
        }
        if let Some(s) = nm {
            if s.is_empty() {
                notes.push(format!("variable {} has the empty name (presence mark left over)", i));
            }
            if seen_names.contains(&s.as_str()) {
                notes.push(format!("name {:?} given twice", s));
            }
            seen_names.push(s);
        }
    }
    if vs.has_names() != !raw.names.is_empty() {
        notes.push("has_names() disagrees with the names field".into());
    }
    let mut gates = Vec::new();
    for g in 0..c.num_gates() {
        let gate = c.gate_for_no(g).ok_or_else(|| format!("gate {} not accessible", g))?;
        if gate.inputs.is_empty() {
            notes.push(format!("gate {} has no inputs", g));
        }
        for &x in gate.inputs {
            if !lit_in_range(p, x) {
                notes.push(format!("gate {} has input {:?}, which is not in the circuit ({} inputs, {} gates)", g, x, n, c.num_gates()));
            }
        }
        let k = match gate.kind {
            GateKind::And => "A",
            GateKind::Or => "O",
            GateKind::Xor => "X",
        };
        gates.push(format!("{}({})", k, gate.inputs.iter().map(|&x| show_lit(x)).collect::<Vec<_>>().join(",")));
    }
    if !lit_in_range(p, *root) {
        notes.push(format!("root {:?} is not in the circuit", root));
    }
    if check_acyclic && notes.is_empty() && !acyclic(p) {
        notes.push("check_acyclic was set but the accepted circuit has a cycle".into());
    }
    let names = format!(
        "[{}]",
        raw.names
            .iter()
            .map(|n| match n {
                None => "~".to_string(),
                Some(s) => format!("x{}", hex(s.as_bytes())),
            })
            .collect::<Vec<_>>()
            .join(",")
    );
    let s = format!(
        "OK n={} ord=[{}] tree={} names={} g=[{}] root={}",
        n,
        raw.order.iter().map(|x| x.to_string()).collect::<Vec<_>>().join(","),
        tree,
        names,
        gates.join(";"),
        show_lit(*root)
    );
    if let Some(m) = notes.into_iter().next() {
        return Err(m);
    }
    Ok(s)
}

fn panic_kind(msg: &str) -> &'static str {
    if msg.contains("self.order_tree.is_none()") {
        "valid-tree"
    } else if msg.contains("self.order.len() == self.len") {
        "valid-len"
    } else if msg.contains("left != right") {
        "valid-names"
    } else if msg.contains("with overflow") {
        "arith"
    } else if msg.contains("index out of bounds") || msg.contains("out of range") {
        "index"
    } else if msg.contains("unwrap()") {
        "unwrap"
    } else if msg.contains("capacity overflow") {
        "capacity"
    } else if msg.contains("too large") || msg.contains("assertion") {
        "debug-assert"
    } else {
        "other"
    }
}

struct Sc {
    /// `run --no-skip 1`: run the parser also on inputs of the resource rule (protocol
    /// `nnfparse-noskip`)
    no_skip: bool,
}

/// a node line of a round-trip source: (letter, literal sign / conflict, variable, children)
#[derive(Clone, Debug)]
enum Tok {
    L(bool, u64),
    G(char, u64, Vec<u64>),
}

fn parse_tok(t: &str) -> Option<Tok> {
    let kids = |s: &str| -> Option<Vec<u64>> { if s.is_empty() { Some(Vec::new()) } else { s.split('.').map(|x| x.parse().ok()).collect() } };
    if let Some(r) = t.strip_prefix("lp") {
        return Some(Tok::L(false, r.parse().ok()?));
    }
    if let Some(r) = t.strip_prefix("ln") {
        return Some(Tok::L(true, r.parse().ok()?));
    }
    if let Some(r) = t.strip_prefix('a') {
        return Some(Tok::G('A', 0, kids(r)?));
    }
    if let Some(r) = t.strip_prefix('x') {
        return Some(Tok::G('X', 0, kids(r)?));
    }
    if let Some(r) = t.strip_prefix('o') {
        let (j, ks) = r.split_once(':')?;
        return Some(Tok::G('O', j.parse().ok()?, kids(ks)?));
    }
    None
}

impl Sc {
    /// `s <var_order> <check_acyclic> <#inputs> <#edges> <node> …`: print the source in the
    /// canonical form, parse it, `RT <hex of the text> <result>`
    fn step_rt(&mut self, w: &[&str], ctx: &mut Ctx) -> String {
        if (w[1] != "0" && w[1] != "1") || (w[2] != "0" && w[2] != "1") {
            return "bad-op".into();
        }
        let (Ok(ni), Ok(ne)) = (w[3].parse::<u64>(), w[4].parse::<u64>()) else {
            return "bad-op".into();
        };
        let Some(toks) = w[5..].iter().map(|t| parse_tok(t)).collect::<Option<Vec<Tok>>>() else {
            return "bad-op".into();
        };
        let m = toks.len() as u64;
        // admissibility, as `Src.Admissible`
        let kids_ok = |cs: &Vec<u64>| cs.iter().all(|&c| c < m);
        let adm = ni as u128 <= MAX_CAP
            && ne as u128 <= MAX_CAP
            && m > 0
            && toks.iter().all(|t| match t {
                Tok::L(_, v) => *v < ni,
                Tok::G('O', j, cs) => *j <= ni && (*j == 0 || cs.len() == 2) && kids_ok(cs),
                Tok::G(_, _, cs) => kids_ok(cs),
            });
        if !adm {
            return "bad-op".into();
        }
        let mut text = format!("nnf {} {} {}\n", m, ne, ni);
        for t in &toks {
            match t {
                Tok::L(neg, v) => text.push_str(&format!("L {}{}\n", if *neg { "-" } else { "" }, v + 1)),
                Tok::G('O', j, cs) => text.push_str(&format!("O {} {}{}\n", j, cs.len(), cs.iter().map(|c| format!(" {}", c)).collect::<String>())),
                Tok::G(l, _, cs) => text.push_str(&format!("{} {}{}\n", l, cs.len(), cs.iter().map(|c| format!(" {}", c)).collect::<String>())),
            }
        }
        let bytes = text.into_bytes();
        let (vo, acyc) = (w[1] == "1", w[2] == "1");
        // independent verdict: is the node graph acyclic (Kahn)
        let mut pending: Vec<usize> = vec![0; toks.len()];
        let mut parents: Vec<Vec<usize>> = vec![Vec::new(); toks.len()];
        for (i, t) in toks.iter().enumerate() {
            if let Tok::G(_, _, cs) = t {
                for &c in cs {
                    pending[i] += 1;
                    parents[c as usize].push(i);
                }
            }
        }
        let mut ready: Vec<usize> = (0..toks.len()).filter(|&i| pending[i] == 0).collect();
        let mut done = 0;
        while let Some(c) = ready.pop() {
            done += 1;
            for &g in &parents[c] {
                pending[g] -= 1;
                if pending[g] == 0 {
                    ready.push(g);
                }
            }
        }
        let src_acyclic = done == toks.len();
        let opts = ParseOptionsBuilder::default().var_order(vo).check_acyclic(acyc).build().unwrap();
        let r = catch_unwind(AssertUnwindSafe(|| oxidd_parser::nnf::parse::<()>(&opts)(&bytes).ok().map(|x| (x.0.len(), x.1))));
        let hx = hex(&bytes);
        let expect_ok = !acyc || src_acyclic;
        let res = match r {
            Err(e) => {
                let m = panic_msg(&e);
                ctx.fail("parser-panic", &format!("nnf::parse panics on the printed source (hex {}): {}", hx, m));
                format!("PANIC {}", panic_kind(&m))
            }
            Ok(None) => {
                ctx.count("rt-err");
                if expect_ok {
                    ctx.fail("valid-rejected", &format!("printed admissible source is rejected (hex {})", hx));
                }
                "ERR".to_string()
            }
            Ok(Some((rest, p))) => {
                ctx.count("rt-ok");
                if rest != 0 {
                    ctx.fail("parser-rest", &format!("accepted with {} bytes left over (hex {})", rest, hx));
                }
                if !expect_ok {
                    ctx.fail("cycle-accepted", &format!("cyclic source accepted with check_acyclic (hex {})", hx));
                }
                match catch_unwind(AssertUnwindSafe(|| show_problem(&p, acyc))) {
                    Ok(Ok(s)) => s,
                    Ok(Err(m)) => {
                        ctx.fail("parsed-problem-insane", &format!("hex {}: {}", hx, m));
                        format!("OK insane {}", m)
                    }
                    Err(_) => "OK unreadable".to_string(),
                }
            }
        };
        format!("RT {} {}", hx, res)
    }
}

impl Scenario for Sc {
    fn reset(&mut self) {}
    fn step(&mut self, line: &str, ctx: &mut Ctx) -> String {
        let w = words(line);
        if w.len() >= 5 && w[0] == "s" {
            return self.step_rt(&w, ctx);
        }
        let (valid, tt, hx) = match w.as_slice() {
            ["p", _, _, h] => (false, "-", *h),
            ["v", _, _, t, h] => (true, *t, *h),
            _ => return "bad-op".into(),
        };
        if (w[1] != "0" && w[1] != "1") || (w[2] != "0" && w[2] != "1") {
            return "bad-op".into();
        }
        let Some(bytes) = unhex(hx) else {
            return "bad-op".into();
        };
        if !self.no_skip && too_big(&bytes) {
            ctx.count("skip");
            return "SKIP".into();
        }
        let (vo, acyc) = (w[1] == "1", w[2] == "1");
        let opts = ParseOptionsBuilder::default().var_order(vo).check_acyclic(acyc).build().unwrap();
        let r = catch_unwind(AssertUnwindSafe(|| oxidd_parser::nnf::parse::<()>(&opts)(&bytes).ok().map(|x| (x.0.len(), x.1))));
        let kf_case = ctx.case.starts_with("case kf-parser-empty-order-tree") || ctx.case.starts_with("case kf-parser-order-names");
        match r {
            Err(e) => {
                let m = panic_msg(&e);
                let k = panic_kind(&m);
                ctx.count(&format!("panic-{}", k));
                // (both check_valid panics were repaired in /repo 8fca6ca / 393b137: the dedicated
                // cases are regression cases now, nothing is tolerated)
                let _ = kf_case;
                {
                    ctx.fail("parser-panic", &format!("nnf::parse (var_order {}, check_acyclic {}) panics on hex {}: {}", vo, acyc, hx, m));
                }
                format!("PANIC {}", k)
            }
            Ok(None) => {
                ctx.count("err");
                if valid {
                    ctx.fail("valid-rejected", &format!("generated valid file is rejected (hex {})", hx));
                }
                "ERR".to_string()
            }
            Ok(Some((rest, p))) => {
                ctx.count(if vo { "ok-order" } else { "ok" });
                if rest != 0 {
                    ctx.fail("parser-rest", &format!("accepted with {} bytes left over (hex {})", rest, hx));
                }
                match catch_unwind(AssertUnwindSafe(|| show_problem(&p, acyc))) {
                    Ok(Ok(s)) => {
                        if p.circuit.inputs().order_tree().is_some() {
                            ctx.count("ok-tree");
                        }
                        if p.circuit.inputs().has_names() {
                            ctx.count("ok-names");
                        }
                        if p.circuit.num_gates() > 0 {
                            ctx.count("ok-gates");
                        }
                        if valid && tt != "-" {
                            let n = p.circuit.inputs().len();
                            let ProblemDetails::Root(root) = p.details else { unreachable!() };
                            if tt.len() != 1 << n {
                                ctx.fail("truth-table", &format!("expected {} variables, parsed {} (hex {})", tt.len().trailing_zeros(), n, hx));
                            } else if !acyclic(&p) {
                                ctx.fail("truth-table", &format!("generated DAG parsed as a cyclic circuit (hex {})", hx));
                            } else {
                                ctx.count("tt-checked");
                                let got: String = (0..(1u32 << n))
                                    .map(|a| {
                                        let mut memo = vec![None; p.circuit.num_gates()];
                                        if eval(&p, root, a, &mut memo) { '1' } else { '0' }
                                    })
                                    .collect();
                                if got != tt {
                                    ctx.fail("truth-table", &format!("parsed circuit computes {} instead of {} (hex {})", got, tt, hx));
                                }
                            }
                        }
                        s
                    }
                    Ok(Err(m)) => {
                        ctx.fail("parsed-problem-insane", &format!("hex {}: {}", hx, m));
                        format!("OK insane {}", m)
                    }
                    Err(e) => {
                        ctx.fail("parsed-problem-insane", &format!("hex {}: panic while reading the problem: {}", hx, panic_msg(&e)));
                        "OK unreadable".to_string()
                    }
                }
            }
        }
    }
}

// ------------------------------------------------------------------ generator

#[derive(Clone)]
enum N {
    /// negated, variable (0-based), explicit `+`
    L(bool, usize, bool),
    /// letter, children
    A(u8, Vec<usize>),
    /// letter, conflict variable (0 = none), children
    O(u8, usize, Vec<usize>),
    X(u8, Vec<usize>),
}

#[derive(Clone)]
enum T {
    Leaf(usize),
    Inner(Vec<T>),
}

#[derive(Clone)]
enum Pre {
    None,
    /// free comment lines (option off)
    Comments(Vec<Vec<u8>>),
    /// (variable 1-based, name) records for every variable, in this order (option on)
    Records(Vec<(usize, Vec<u8>)>),
    /// records before the tree, the tree text, records after the tree (option on)
    Tree(Vec<(usize, Vec<u8>)>, Vec<u8>, Vec<(usize, Vec<u8>)>),
}

#[derive(Clone)]
struct Prob {
    n: usize,
    nodes: Vec<N>,
    pre: Pre,
    edges: usize,
}

#[derive(Clone, Copy)]
struct Style {
    sep: &'static str,
    eol: &'static str,
    /// line ending of the problem line and of lines that do not allow blanks before it
    strict_eol: &'static str,
    tail: &'static str,
}

const STRICT: Style = Style { sep: " ", eol: "\n", strict_eol: "\n", tail: "" };

fn rand_style(rng: &mut Rng) -> Style {
    Style {
        sep: *rng.pick(&[" ", " ", " ", "  ", "\t", " \t "]),
        eol: *rng.pick(&["\n", "\n", "\n", "\r\n", " \n", "\t\r\n"]),
        strict_eol: *rng.pick(&["\n", "\n", "\r\n"]),
        tail: *rng.pick(&["", "", "", "\n", " ", "\r\n\t \n", "  \n\n"]),
    }
}

fn rand_name(rng: &mut Rng, k: usize) -> Vec<u8> {
    match rng.below(8) {
        0 => Vec::new(),
        1 => format!("x{}", k).into_bytes(),
        2 => format!("v {} y", k).into_bytes(),
        3 => format!("\u{e9}{}", k).into_bytes(),
        4 => format!("\u{20ac}\u{1f600}{}", k).into_bytes(),
        5 => format!("{}", k + 100).into_bytes(),
        _ => format!("n{}", k).into_bytes(),
    }
}

fn rand_tree(rng: &mut Rng, vars: &mut Vec<usize>, depth: u32) -> T {
    // consumes all of `vars`
    if vars.len() == 1 && rng.chance(2, 3) || depth > 4 && vars.len() == 1 {
        return T::Leaf(vars.pop().unwrap());
    }
    let mut cs = Vec::new();
    while !vars.is_empty() {
        match rng.below(6) {
            0 | 1 | 2 => cs.push(T::Leaf(vars.pop().unwrap())),
            3 if depth < 4 => {
                let k = 1 + rng.below(vars.len() as u64) as usize;
                let mut sub: Vec<usize> = vars.split_off(vars.len() - k);
                cs.push(rand_tree(rng, &mut sub, depth + 1));
            }
            4 if depth < 4 && rng.chance(1, 3) => cs.push(T::Inner(Vec::new())),
            _ => cs.push(T::Leaf(vars.pop().unwrap())),
        }
    }
    T::Inner(cs)
}

fn write_tree(rng: &mut Rng, t: &T, out: &mut Vec<u8>) {
    let sp = |rng: &mut Rng, out: &mut Vec<u8>| {
        if rng.chance(1, 4) {
            out.extend(rng.pick(&[" ", "  ", "\t"]).bytes());
        }
    };
    match t {
        T::Leaf(v) => {
            out.extend((v + 1).to_string().bytes());
            sp(rng, out);
        }
        T::Inner(cs) => {
            out.push(b'[');
            sp(rng, out);
            for (k, c) in cs.iter().enumerate() {
                if k > 0 {
                    out.push(b',');
                    if rng.chance(1, 2) {
                        out.push(b' ');
                    }
                }
                write_tree(rng, c, out);
            }
            if !cs.is_empty() && rng.chance(1, 8) {
                out.push(b','); // a trailing comma is accepted
            }
            out.push(b']');
        }
    }
}

fn rand_prob(rng: &mut Rng, big: bool, cyclic: bool) -> (Prob, String) {
    let n = if big { rng.range(1, 5) } else { rng.range(1, 3) } as usize;
    let m = if big { rng.range(1, 12) } else { rng.range(1, 5) } as usize;
    // nodes in topological order
    let mut topo: Vec<N> = Vec::new();
    for k in 0..m {
        if k == 0 || rng.chance(2, 5) {
            topo.push(N::L(rng.chance(1, 2), rng.below(n as u64) as usize, rng.chance(1, 10)));
        } else {
            let arity = rng.below(4) as usize;
            let lim = if cyclic { m } else { k } as u64;
            let ch: Vec<usize> = (0..arity).map(|_| rng.below(lim) as usize).collect();
            match rng.below(4) {
                0 | 1 => topo.push(N::A(*rng.pick(b"AAAaBb"), ch)),
                2 => {
                    let conflict = if ch.len() == 2 && rng.chance(1, 2) { rng.range(1, n as u64) as usize } else { 0 };
                    topo.push(N::O(*rng.pick(b"OOOo"), conflict, ch))
                }
                _ => topo.push(N::X(*rng.pick(b"XXx"), ch)),
            }
        }
    }
    // truth table of every node (for the acyclic ones)
    let mut tts: Vec<String> = vec![String::new(); m];
    if !cyclic {
        for asg in 0..(1u32 << n) {
            let mut vals: Vec<bool> = Vec::new();
            for x in &topo {
                let v = match x {
                    N::L(neg, v, _) => (((asg >> v) & 1) != 0) ^ neg,
                    N::A(_, c) => c.iter().all(|i| vals[*i]),
                    N::O(_, _, c) => c.iter().any(|i| vals[*i]),
                    N::X(_, c) => c.iter().fold(false, |a, i| a ^ vals[*i]),
                };
                vals.push(v);
            }
            for k in 0..m {
                tts[k].push(if vals[k] { '1' } else { '0' });
            }
        }
    }
    // line order: position pos[k] of topological node k
    let mut pos: Vec<usize> = (0..m).collect();
    if rng.chance(1, 2) {
        rng.shuffle(&mut pos);
    }
    let mut nodes: Vec<Option<N>> = vec![None; m];
    let mut root_tt = String::new();
    for k in 0..m {
        let ren = |c: &Vec<usize>| c.iter().map(|&i| pos[i]).collect::<Vec<_>>();
        let x = match &topo[k] {
            N::L(a, b, c) => N::L(*a, *b, *c),
            N::A(l, c) => N::A(*l, ren(c)),
            N::O(l, j, c) => N::O(*l, *j, ren(c)),
            N::X(l, c) => N::X(*l, ren(c)),
        };
        nodes[pos[k]] = Some(x);
        if pos[k] == m - 1 {
            root_tt = tts[k].clone();
        }
    }
    let nodes: Vec<N> = nodes.into_iter().map(|x| x.unwrap()).collect();
    let edges = nodes.iter().map(|x| match x { N::L(..) => 0, N::A(_, c) | N::O(_, _, c) | N::X(_, c) => c.len() }).sum();
    let pre = match rng.below(8) {
        0 | 1 => Pre::None,
        2 => {
            let k = 1 + rng.below(3) as usize;
            Pre::Comments(
                (0..k)
                    .map(|_| rng.pick(&[&b"c"[..], b"c a comment", b"cfoo", b"c 1 x", b"c vo [1]", b"c vo []", b"c\tnnf 1 0 1", b"c \xff\xfe", b"c 3", b"cnnf 1 1 1"]).to_vec())
                    .collect(),
            )
        }
        3 | 4 => {
            let mut vars: Vec<usize> = (1..=n).collect();
            rng.shuffle(&mut vars);
            Pre::Records(vars.into_iter().map(|v| (v, rand_name(rng, v))).collect())
        }
        _ => {
            let mut vars: Vec<usize> = (0..n).collect();
            rng.shuffle(&mut vars);
            let t = rand_tree(rng, &mut vars, 0);
            let mut text = Vec::new();
            write_tree(rng, &t, &mut text);
            let mut recs: Vec<(usize, Vec<u8>)> = Vec::new();
            if rng.chance(2, 3) {
                let mut vars: Vec<usize> = (1..=n).collect();
                rng.shuffle(&mut vars);
                let k = rng.below(n as u64 + 1) as usize;
                recs = vars.into_iter().take(k).map(|v| (v, rand_name(rng, v))).collect();
            }
            let cut = rng.below(recs.len() as u64 + 1) as usize;
            let after = recs.split_off(cut);
            Pre::Tree(recs, text, after)
        }
    };
    (Prob { n, nodes, pre, edges }, root_tt)
}

impl Prob {
    fn var_order(&self) -> bool {
        matches!(self.pre, Pre::Records(..) | Pre::Tree(..))
    }
    /// as the code is: the clean-up leaves a trailing `None` in `names` (a `check_valid` panic)
    fn names_panic(&self) -> bool {
        let Pre::Tree(before, _, after) = &self.pre else {
            return false;
        };
        let mut names: Vec<Option<bool>> = Vec::new(); // Some(named?)
        for (v, nm) in before.iter().chain(after) {
            if names.len() < *v {
                names.resize(*v, None);
            }
            names[v - 1] = Some(!nm.is_empty());
        }
        while names.last() == Some(&Some(false)) {
            names.pop();
        }
        names.last() == Some(&None)
    }
    /// the round-trip line of the node lines (`s …`)
    fn rt_line(&self, vo: bool, acyc: bool) -> String {
        let ks = |c: &Vec<usize>| c.iter().map(|x| x.to_string()).collect::<Vec<_>>().join(".");
        let toks: Vec<String> = self
            .nodes
            .iter()
            .map(|x| match x {
                N::L(neg, v, _) => format!("l{}{}", if *neg { "n" } else { "p" }, v),
                N::A(_, c) => format!("a{}", ks(c)),
                N::O(_, j, c) => format!("o{}:{}", j, ks(c)),
                N::X(_, c) => format!("x{}", ks(c)),
            })
            .collect();
        format!("s {} {} {} {} {}", vo as u8, acyc as u8, self.n, self.edges, toks.join(" "))
    }
    fn text(&self, st: Style) -> Vec<u8> {
        let mut out: Vec<u8> = Vec::new();
        let rec = |out: &mut Vec<u8>, v: usize, nm: &Vec<u8>| {
            out.extend(format!("c{}{}", st.sep, v).bytes());
            if !nm.is_empty() {
                out.extend(st.sep.bytes());
                out.extend(nm);
            }
            out.extend(st.eol.bytes());
        };
        match &self.pre {
            Pre::None => {}
            Pre::Comments(ls) => {
                for l in ls {
                    out.extend(l);
                    out.extend(st.strict_eol.bytes());
                }
            }
            Pre::Records(rs) => {
                for (v, nm) in rs {
                    rec(&mut out, *v, nm);
                }
            }
            Pre::Tree(before, t, after) => {
                for (v, nm) in before {
                    rec(&mut out, *v, nm);
                }
                out.extend(format!("c{}vo{}", st.sep, st.sep).bytes());
                out.extend(t);
                out.extend(st.eol.bytes());
                for (v, nm) in after {
                    rec(&mut out, *v, nm);
                }
            }
        }
        out.extend(format!("nnf{}{}{}{}{}{}{}", st.sep, self.nodes.len(), st.sep, self.edges, st.sep, self.n, st.strict_eol).bytes());
        for x in &self.nodes {
            let ch = |c: &Vec<usize>| c.iter().map(|i| format!("{}{}", st.sep, i)).collect::<String>();
            let l = match x {
                N::L(neg, v, plus) => format!("L{}{}{}", st.sep, if *neg { "-" } else if *plus { "+" } else { "" }, v + 1),
                N::A(l, c) => format!("{}{}{}{}", *l as char, st.sep, c.len(), ch(c)),
                N::O(l, j, c) => format!("{}{}{}{}{}{}", *l as char, st.sep, j, st.sep, c.len(), ch(c)),
                N::X(l, c) => format!("{}{}{}{}", *l as char, st.sep, c.len(), ch(c)),
            };
            out.extend(l.bytes());
            out.extend(st.eol.bytes());
        }
        out.extend(st.tail.bytes());
        out
    }
}

const BOUNDARY: [&str; 30] = [
    "0", "1", "2", "3", "9999", "18446744073709551615", "18446744073709551616", "18446744073709551614",
    "1152921504606846976", "1152921504606846977", "4611686018427387904", "9223372036854775807", "9223372036854775808",
    "-9223372036854775808", "-9223372036854775809", "-9223372036854775807", "-0", "+0", "-1", "+1", "-2", "+2",
    "99999999999999999999999999999", "0000000000000000000000000000001", "00", "", " ", "2a", "0x2", "\u{665}",
];

/// positions (start, end) of the decimal tokens of `b`
fn num_tokens(b: &[u8]) -> Vec<(usize, usize)> {
    let mut v = Vec::new();
    let mut i = 0;
    while i < b.len() {
        if b[i].is_ascii_digit() {
            let s = i;
            while i < b.len() && b[i].is_ascii_digit() {
                i += 1;
            }
            v.push((s, i));
        } else {
            i += 1;
        }
    }
    v
}

fn mutate(rng: &mut Rng, base: &[u8]) -> Vec<u8> {
    let mut v = base.to_vec();
    let n = 1 + rng.below(2);
    for _ in 0..n {
        let interesting: [u8; 32] = [
            b' ', b'\t', b'\n', b'\r', b'0', b'1', b'2', b'9', b'A', b'a', b'O', b'o', b'X', b'L', b'l', b'B', b'c', b'v', b'n', b'f', b'[', b']', b',', b'-', b'+', 0, 0x7f, 0x80,
            0xff, 0xc3, b'3', b'5',
        ];
        let pos = if v.is_empty() { 0 } else { rng.below(v.len() as u64) as usize };
        match rng.below(10) {
            0 | 1 if !v.is_empty() => v[pos] = *rng.pick(&interesting),
            2 => v.insert(pos, *rng.pick(&interesting)),
            3 if !v.is_empty() => {
                v.remove(pos);
            }
            4 if !v.is_empty() => v[pos] ^= 1 << rng.below(8),
            5 => {
                // replace a numeric token by a small number
                let t = num_tokens(&v);
                if !t.is_empty() {
                    let &(s, e) = rng.pick(&t);
                    let x = rng.below(14).to_string();
                    v.splice(s..e, x.bytes());
                }
            }
            6 => {
                // replace a numeric token by a boundary value
                let t = num_tokens(&v);
                if !t.is_empty() {
                    let &(s, e) = rng.pick(&t);
                    v.splice(s..e, rng.pick(&BOUNDARY).bytes());
                }
            }
            7 => {
                // duplicate or delete a line
                let lines: Vec<usize> = std::iter::once(0).chain(v.iter().enumerate().filter(|x| *x.1 == b'\n').map(|x| x.0 + 1)).collect();
                let k = rng.below(lines.len() as u64) as usize;
                let s = lines[k];
                let e = if k + 1 < lines.len() { lines[k + 1] } else { v.len() };
                if rng.chance(1, 2) {
                    let l = v[s..e].to_vec();
                    v.splice(s..s, l);
                } else {
                    v.drain(s..e);
                }
            }
            8 => {
                // delete a numeric token or a bracket pair's content
                let t = num_tokens(&v);
                if !t.is_empty() {
                    let &(s, e) = rng.pick(&t);
                    v.drain(s..e);
                }
            }
            _ => {
                if !v.is_empty() {
                    v[pos] = rng.below(256) as u8;
                }
            }
        }
    }
    v
}

fn is_blank(b: u8) -> bool {
    b == b' ' || b == b'\t'
}

/// the lines `c<blank>+…` of the input, without the `c` and the blanks
fn c_lines(b: &[u8]) -> Vec<&[u8]> {
    let mut v = Vec::new();
    for l in b.split(|&x| x == b'\n') {
        if l.len() >= 2 && l[0] == b'c' && is_blank(l[1]) {
            let mut k = 1;
            while k < l.len() && is_blank(l[k]) {
                k += 1;
            }
            v.push(&l[k..]);
        }
    }
    v
}
fn is_vo(l: &[u8]) -> bool {
    l.len() >= 3 && l[0] == b'v' && l[1] == b'o' && is_blank(l[2])
}
/// over-approximation of "the order tree has no leaves" (KF-parser-empty-order-tree)
fn empty_tree_risk(b: &[u8]) -> bool {
    c_lines(b).iter().any(|l| is_vo(l) && !l.iter().any(|x| x.is_ascii_digit()))
}
/// over-approximation of "an order tree and an order record without a name" (the `names` finding)
fn names_risk(b: &[u8]) -> bool {
    let ls = c_lines(b);
    ls.iter().any(|l| is_vo(l))
        && ls.iter().any(|l| {
            let d = l.iter().take_while(|x| x.is_ascii_digit()).count();
            d > 0 && l[d..].iter().all(|&x| is_blank(x) || x == b'\r')
        })
}

struct Emitter<'a> {
    w: &'a mut dyn Write,
    base: String,
    cur: String,
}
impl Emitter<'_> {
    fn case(&mut self, name: &str) {
        self.base = name.to_string();
    }
    fn raw(&mut self, case: &str, line: &str) {
        if self.cur != case {
            writeln!(self.w, "case {}", case).unwrap();
            self.cur = case.to_string();
        }
        writeln!(self.w, "{}", line).unwrap();
    }
    fn line(&mut self, vo: bool, acyc: bool, tt: Option<&str>, b: &[u8]) {
        let want = if vo && empty_tree_risk(b) {
            "kf-parser-empty-order-tree".to_string()
        } else if vo && names_risk(b) {
            "kf-parser-order-names".to_string()
        } else {
            self.base.clone()
        };
        if want != self.cur {
            writeln!(self.w, "case {}", want).unwrap();
            self.cur = want;
        }
        let h = if b.is_empty() { "-".to_string() } else { hex(b) };
        let (vo, acyc) = (vo as u8, acyc as u8);
        match tt {
            Some(t) if !self.cur.starts_with("kf-") => writeln!(self.w, "v {} {} {} {}", vo, acyc, if t.is_empty() || t.len() > 32 { "-" } else { t }, h).unwrap(),
            _ => writeln!(self.w, "p {} {} {}", vo, acyc, h).unwrap(),
        }
    }
}

fn generate(cfg: &GenCfg, rng: &mut Rng, w: &mut dyn Write) {
    let scale = cfg.scale.max(1) as usize;
    let nprob = if cfg.thorough { 40000 * scale } else { 4000 * scale };
    let mut em = Emitter { w, base: String::new(), cur: String::new() };
    // fixed inputs: the example of the c2d manual, degenerate inputs, every diagnostic once
    em.case("fixed");
    let fixed: &[&[u8]] = &[
        b"",
        b"n",
        b"nnf",
        b"nnf 1 0 1",
        b"nnf 1 0 1\n",
        b"nnf 1 0 1\nL 1",
        b"nnf 1 0 1\nL 1\n",
        b"nnf 1 0 1\r\nL 1\r\n",
        b"nnf 1 0 1\rL 1\n",
        b"nnf 1 0 1 \nL 1\n",
        b"nnf\t1  0 \t1\nL\t1 \t\n \n\r\n",
        b"nnf 0 0 0\n",
        b"nnf 1 0 0\nA 0\n",
        b"nnf 1 0 0\nO 0 0\n",
        b"nnf 1 0 0\nX 0\n",
        b"nnf 1 0 1\nL 0\n",
        b"nnf 1 0 1\nL -0\n",
        b"nnf 1 0 1\nL 2\n",
        b"nnf 1 0 1\nL -1\n",
        b"nnf 1 0 1\nL +1\n",
        b"nnf 1 0 1\nL -9223372036854775808\n",
        b"nnf 1 0 1\nL 9223372036854775808\n",
        b"nnf 1 0 1\nL 1\nL 1\n",
        b"nnf 2 0 1\nL 1\n",
        b"nnf 1 1 1\nA 1 0\n",
        b"nnf 1 1 1\nA 1 1\n",
        b"nnf 2 2 1\nA 1 1\nA 1 0\n",
        b"nnf 2 1 1\nA 1 1\nL 1\n",
        b"nnf 2 1 1\nO 1 1 0\nL 1\n",
        b"nnf 3 2 1\nO 1 2 1 2\nL 1\nL -1\n",
        b"nnf 3 2 1\nO 2 2 1 2\nL 1\nL -1\n",
        b"nnf 1 0 1\nA 18446744073709551615\n",
        b"nnf 1 0 1\nA 18446744073709551616\n",
        b"nnf 1 0 1\nA 2 0\n",
        b"nnf 1 0 1\nQ 1\n",
        b"nnf 1 0 1\nL1\n",
        b"nnf 1 0 1\nL 1 x\n",
        b"c\nnnf 1 0 1\nL 1\n",
        b"c",
        b"c x",
        b"cnnf 1 0 1\nnnf 1 0 1\nL 1\n",
        b"p cnf 1 1\n",
        b"nnf 15 17 4\nL -3\nL -2\nL 1\nA 3 2 1 0\nL 3\nO 3 2 4 3\nL -4\nA 2 6 5\nL 4\nA 2 2 8\nA 2 1 4\nL 2\nO 2 2 11 10\nA 2 12 9\nO 4 2 13 7\n",
        b"c 1 a\nc 2\nnnf 1 0 2\nL 2\n",
        b"c 2 b\nc 1 a\nnnf 1 0 2\nL 2\n",
        b"c 1 a\nc 1 b\nnnf 1 0 1\nL 1\n",
        b"c 1 a\nc 2 a\nnnf 1 0 2\nL 1\n",
        b"c 1 a\nc 3 b\nnnf 1 0 3\nL 1\n",
        b"c 1 a\nnnf 1 0 2\nL 1\n",
        b"c 0 a\nnnf 1 0 1\nL 1\n",
        b"c 1x\nnnf 1 0 1\nL 1\n",
        b"c 1 \xff\nnnf 1 0 1\nL 1\n",
        b"c 1 \xc3\xa9\nnnf 1 0 1\nL 1\n",
        b"c 1  a b \t\r\nnnf 1 0 1\nL 1\n",
        b"c comment\nnnf 1 0 1\nL 1\n",
        b"c vo [2, 1]\nnnf 2 1 2\nL -1\nA 1 0\n",
        b"c vo [[2, 3, 4], [[1], 5]]\nnnf 1 0 5\nL 1\n",
        b"c vo [1,1]\nnnf 1 0 1\nL 1\n",
        b"c vo [1,3]\nnnf 1 0 3\nL 1\n",
        b"c vo [0]\nnnf 1 0 1\nL 1\n",
        b"c vo [1]\nc vo [1]\nnnf 1 0 1\nL 1\n",
        b"c vo [1] x\nnnf 1 0 1\nL 1\n",
        b"c vo 1\nnnf 1 0 1\nL 1\n",
        b"c vo [1,2]\nc 1 a\nc 3 c\nnnf 1 0 2\nL 1\n",
    ];
    for f in fixed {
        for (vo, acyc) in [(false, true), (true, true), (false, false), (true, false)] {
            em.line(vo, acyc, None, f);
        }
    }
    // the two characterised panics of `VarSet::check_valid` (routed into their `kf-` cases)
    let kf: &[&[u8]] = &[
        b"c vo []\nnnf 1 0 1\nL 1\n",
        b"c vo [[],[ ]]\nnnf 1 0 1\nL 1\n",
        b"c vo []\nnnf 1 0 2\nL 1\n",
        b"c vo []\nc 1 a\nnnf 1 0 1\nL 1\n",
        b"c vo []\nc 2 a\nnnf 1 0 1\nL 1\n",
        b"c vo [ ] \nnnf 1 0 1\n",
        b"c vo [1,2]\nc 2\nnnf 1 0 2\nL 1\n",
        b"c 2\nc vo [1,2]\nnnf 1 0 2\nL 1\n",
        b"c vo [1,2,3]\nc 1 a\nc 3\nnnf 1 0 3\nL 1\n",
        b"c vo [1,2]\nc 2\nc 1\nnnf 1 0 2\nL 1\n",
        b"c vo [1,2]\nc 2 b\nnnf 1 0 2\nL 1\n",
        b"c vo []\nc 1\nnnf 1 0 1\nL 1\n",
    ];
    for f in kf {
        em.line(true, true, None, f);
        em.line(false, true, None, f);
    }
    for k in 0..nprob {
        let cyclic = k % 5 == 4;
        let (p, tt) = rand_prob(rng, k % 3 == 0, cyclic);
        let acyc = !rng.chance(1, 5);
        let vo = p.var_order();
        em.case(&format!("file-{}", k));
        let st = if rng.chance(1, 2) { STRICT } else { rand_style(rng) };
        let base = p.text(st);
        if cyclic || p.names_panic() {
            em.line(vo, acyc, None, &base);
        } else {
            em.line(vo, acyc, Some(&tt), &base);
        }
        // the same bytes with the other setting of `var_order`
        em.line(!vo, acyc, None, &base);
        // round trip: the node lines as a structured source (printer and meaning of the Lean side)
        em.raw(&format!("rt-{}", k), &p.rt_line(rng.chance(1, 2), acyc));
        em.case(&format!("mut-{}", k));
        if base.len() <= 48 || k % 10 == 0 {
            for n in 0..base.len() {
                em.line(vo, acyc, None, &base[..n]);
            }
        } else {
            for _ in 0..5 {
                let n = rng.below(base.len() as u64) as usize;
                em.line(vo, acyc, None, &base[..n]);
            }
        }
        let nm = if cfg.thorough { 24 } else { 18 };
        for _ in 0..nm {
            let m = mutate(rng, &base);
            em.line(if rng.chance(1, 10) { !vo } else { vo }, acyc, None, &m);
        }
        // every numeric token once by a boundary value
        if k % 4 == 0 {
            for &(s, e) in &num_tokens(&base) {
                let mut v = base.clone();
                v.splice(s..e, rng.pick(&BOUNDARY).bytes());
                em.line(vo, acyc, None, &v);
            }
        }
    }
    // round-trip lines: the c2d manual's example, a cycle, boundary counts
    for l in [
        "s 0 1 4 17 ln2 ln1 lp0 a2.1.0 lp2 o3:4.3 ln3 a6.5 lp3 a2.8 a1.4 lp1 o2:11.10 a12.9 o4:13.7",
        "s 1 1 1 2 a1 a0",
        "s 1 0 1 2 a1 a0",
        "s 0 1 1 0 a o0: x lp0",
        "s 0 1 9999 9999 lp9998",
        "s 0 1 1 1 x0",
        "s 0 1 1 0 lp1",
        "s 0 1 2 2 o1:0",
    ] {
        em.raw("rt-fixed", l);
    }
    // resource rule
    em.case("skip-rule");
    for f in [&b"nnf 10000 0 1\nL 1\n"[..], b"nnf 9999 0 1\nL 1\n", b"nnf 1 10000 1\nL 1\n", b"nnf 1 0 10000\nL 1\n", b"nnf 1 0 1152921504606846975\nL 1\n", b"nnf 1 0 1152921504606846976\nL 1\n", b"c 10000\nnnf 1 0 1\nL 1\n", b"c vo [10000]\nnnf 1 0 1\nL 1\n", b"nnf 1 0 1\nL 010000\n"] {
        em.line(true, true, None, f);
        em.line(false, true, None, f);
    }
}

fn make(f: &BTreeMap<String, String>) -> Box<dyn Scenario> {
    Box::new(Sc { no_skip: f.get("no-skip").map(|s| s == "1").unwrap_or(false) })
}
fn main() {
    harness_main(generate, make)
}
