//! C18 (part 2): the DIMACS CNF/SAT, NNF and AIGER (ASCII + binary) parsers of `oxidd-parser`
//! on the real code.  Oracle-only stream (no Lean model; parser totality over raw bytes is
//! *tested*, the `nom` tokenisation is outside the model).
//!
//! Operation lines (one case = one generated file and everything derived from it):
//!
//! ```text
//! file <fmt> <opts> <nvars> <tt|-> <hex>      a valid generated file; fmt = dimacs|nnf|aiger,
//!                                              opts = bit mask (1 var_order, 2 clause_tree),
//!                                              tt = expected truth table(s) of the root(s)
//! pair <nvars> <tt|-> <hex aag> <hex aig>     the same AIGER problem in ASCII and binary
//! usebase <1|2>                                make the first / second file of the pair the base
//! truncall                                     parse every proper prefix of the base
//! muts <seed> <count>                          parse <count> seeded byte mutations of the base
//! raw <fmt> <opts> <hex>                       parse arbitrary bytes (stress inputs)
//! ```
//!
//! Oracles: a valid file parses (`ok`), the parsed circuit evaluates to the expected truth
//! table(s), so does `Problem::simplify` of it; ASCII and binary AIGER parse to equal `Problem`s;
//! no input makes a parser (or `load_file`'s diagnostic rendering, or `simplify` of a parsed
//! problem) panic, abort, overflow the stack or hang.  Inputs that could make the parser allocate
//! by a number in the file (a digit run of 8+ characters) or recurse deeply are parsed in a child
//! process (`c18_parsers --one-input <fmt> <opts> <path>`) with an address-space limit, so that an
//! abort is observed instead of killing the run.
//!
//! Known findings.  Five classes of parser defects are listed findings (see `known_class`); each
//! has a dedicated deterministic case `case kf-parser-<name>` in which the failure is reported
//! (`sig = parser-panic | parser-abort`).  Outside these cases an input of the randomly mutated
//! part that fails *and* falls into one of the narrowly defined classes is counted in the
//! statistics ("known class … tolerated") instead of reported; every other failure is reported.
//! Inside a kf case a failure of a different class gets the signature `parser-failure-unexpected`.
use oxidd_parser::{Circuit, GateKind, Literal, ParseOptions, ParseOptionsBuilder, Problem, ProblemDetails};
use oxv::*;
use std::collections::BTreeMap;
use std::io::Write;
use std::panic::{AssertUnwindSafe, catch_unwind};

// ------------------------------------------------------------------ calling the parsers

#[derive(Clone, Copy, PartialEq, Eq, Debug)]
enum Fmt {
    Dimacs,
    Nnf,
    Aiger,
}
fn fmt_of(s: &str) -> Option<Fmt> {
    match s {
        "dimacs" => Some(Fmt::Dimacs),
        "nnf" => Some(Fmt::Nnf),
        "aiger" => Some(Fmt::Aiger),
        _ => None,
    }
}
fn fmt_name(f: Fmt) -> &'static str {
    match f {
        Fmt::Dimacs => "dimacs",
        Fmt::Nnf => "nnf",
        Fmt::Aiger => "aiger",
    }
}
fn fmt_ext(f: Fmt) -> &'static str {
    match f {
        Fmt::Dimacs => "cnf",
        Fmt::Nnf => "nnf",
        Fmt::Aiger => "aag",
    }
}
fn options(opts: u32) -> ParseOptions {
    ParseOptionsBuilder::default().var_order(opts & 1 != 0).clause_tree(opts & 2 != 0).build().unwrap()
}

/// the library entry points with the unit error type (as the crate's own tests call them)
fn parse_plain(fmt: Fmt, opts: u32, input: &[u8]) -> Option<Problem> {
    let o = options(opts);
    match fmt {
        Fmt::Dimacs => oxidd_parser::dimacs::parse::<()>(&o)(input).ok().map(|x| x.1),
        Fmt::Nnf => oxidd_parser::nnf::parse::<()>(&o)(input).ok().map(|x| x.1),
        Fmt::Aiger => oxidd_parser::aiger::parse::<()>(&o)(input).ok().map(|x| x.1),
    }
}

#[derive(Debug, PartialEq, Eq, Clone, Copy)]
enum Verdict {
    Ok,
    Diag,
    Panic,
    /// only from the child process: killed by a signal (abort, stack overflow, out of memory)
    Abort,
    Hang,
}

/// everything that is run on one input, in-process: the parser, the diagnostic path of
/// `load_file`, and `simplify` of a successfully parsed problem
fn run_all_in_process(fmt: Fmt, opts: u32, input: &[u8], tmp: &std::path::Path, with_load_file: bool) -> (Verdict, Option<Problem>, String) {
    // `with_load_file` is false in the child process, which only exercises the parser itself
    // (`simplify` sizes a bit set by the declared number of inputs: not the parser's business)
    let with_simplify = with_load_file;
    let r = catch_unwind(AssertUnwindSafe(|| parse_plain(fmt, opts, input)));
    let (v, p) = match r {
        Ok(Some(p)) => (Verdict::Ok, Some(p)),
        Ok(None) => (Verdict::Diag, None),
        Err(e) => return (Verdict::Panic, None, format!("parser: {}", panic_msg(&e))),
    };
    if let (Some(p), true) = (&p, with_simplify) {
        let r = catch_unwind(AssertUnwindSafe(|| p.simplify().is_ok()));
        if let Err(e) = r {
            return (Verdict::Panic, None, format!("Problem::simplify of the parsed problem: {}", panic_msg(&e)));
        }
    }
    if with_load_file {
        // the public convenience entry point, which renders the diagnostic with codespan
        let path = tmp.join(format!("in.{}", fmt_ext(fmt)));
        if std::fs::write(&path, input).is_ok() {
            let o = options(opts);
            let r = catch_unwind(AssertUnwindSafe(|| oxidd_parser::load_file(&path, &o).is_some()));
            match r {
                Ok(ok) => {
                    if ok != (v == Verdict::Ok) {
                        return (Verdict::Panic, None, "load_file and parse disagree on success".into());
                    }
                }
                Err(e) => return (Verdict::Panic, None, format!("load_file: {}", panic_msg(&e))),
            }
        }
    }
    (v, p, String::new())
}

fn panic_msg(e: &Box<dyn std::any::Any + Send>) -> String {
    if let Some(s) = e.downcast_ref::<String>() {
        s.clone()
    } else if let Some(s) = e.downcast_ref::<&str>() {
        s.to_string()
    } else {
        "?".into()
    }
}

// ---- child process with an address space limit

#[repr(C)]
struct RLimit {
    cur: u64,
    max: u64,
}
unsafe extern "C" {
    fn setrlimit(resource: i32, rlim: *const RLimit) -> i32;
}
const RLIMIT_AS: i32 = 9; // Linux

/// `c18_parsers --one-input <fmt> <opts> <path>`: exit 0 = problem, 1 = diagnostic, 101 = panic
fn child_main(args: &[String]) -> ! {
    let lim = RLimit { cur: 3 << 30, max: 3 << 30 };
    unsafe {
        setrlimit(RLIMIT_AS, &lim);
    }
    let fmt = fmt_of(&args[2]).unwrap();
    let opts: u32 = args[3].parse().unwrap();
    let input = std::fs::read(&args[4]).unwrap();
    let tmp = std::env::temp_dir();
    let (v, _, _) = run_all_in_process(fmt, opts, &input, &tmp, false);
    std::process::exit(match v {
        Verdict::Ok => 0,
        Verdict::Diag => 1,
        _ => 101,
    })
}

fn run_in_child(fmt: Fmt, opts: u32, input: &[u8], tmp: &std::path::Path) -> (Verdict, String) {
    use std::process::{Command, Stdio};
    let exe = std::env::current_exe().unwrap();
    let path = tmp.join("one-input.bin");
    if let Err(e) = std::fs::write(&path, input) {
        return (Verdict::Hang, format!("cannot write the input file for the child: {}", e));
    }
    let mut ch = match Command::new(exe)
        .args(["--one-input", fmt_name(fmt), &opts.to_string()])
        .arg(&path)
        .stdin(Stdio::null())
        .stdout(Stdio::null())
        .stderr(Stdio::piped())
        .spawn()
    {
        Ok(c) => c,
        Err(e) => return (Verdict::Hang, format!("cannot spawn child: {}", e)),
    };
    let t0 = std::time::Instant::now();
    loop {
        match ch.try_wait() {
            Ok(Some(st)) => {
                // what the child wrote to stderr: the panic message / the allocation failure /
                // the stack overflow notice of the Rust runtime
                let mut err = String::new();
                if let Some(mut e) = ch.stderr.take() {
                    use std::io::Read;
                    let mut buf = Vec::new();
                    let _ = e.read_to_end(&mut buf);
                    err = String::from_utf8_lossy(&buf).chars().take(300).collect::<String>().replace('\n', " ");
                }
                return match st.code() {
                    Some(0) => (Verdict::Ok, String::new()),
                    Some(1) => (Verdict::Diag, String::new()),
                    Some(101) => (Verdict::Panic, format!("panic in the child process: {}", err)),
                    Some(c) => (Verdict::Abort, format!("child exited with status {}: {}", c, err)),
                    None => (Verdict::Abort, format!("child killed by a signal ({}): {}", st, err)),
                };
            }
            Ok(None) => {
                if t0.elapsed().as_secs() >= 20 {
                    let _ = ch.kill();
                    let _ = ch.wait();
                    return (Verdict::Hang, "child did not finish within 20 s".into());
                }
                std::thread::sleep(std::time::Duration::from_millis(2));
            }
            Err(e) => return (Verdict::Hang, format!("wait failed: {}", e)),
        }
    }
}

/// does the input contain a number of 8 or more digits (the parsers reserve memory by the
/// numbers of the header / of order lines)?
fn has_long_number(input: &[u8]) -> bool {
    let mut run = 0;
    for &b in input {
        if b.is_ascii_digit() {
            run += 1;
            if run >= 8 {
                return true;
            }
        } else {
            run = 0;
        }
    }
    false
}
/// more than 2000 opening parentheses / brackets (the SAT and tree parsers are recursive)?
fn deeply_nested(input: &[u8]) -> bool {
    input.iter().filter(|&&b| b == b'(' || b == b'[').count() > 2000
}
/// could this input make the parser allocate by a number in the file or recurse deeply?
fn risky(input: &[u8]) -> bool {
    has_long_number(input) || deeply_nested(input)
}

/// The classes of failing inputs that are listed known findings (Circuit-3 material).  A failure
/// belongs to a class only if the observed failure *and* the shape of the input match.
fn known_class(opts: u32, input: &[u8], v: Verdict, in_child: bool, msg: &str) -> Option<&'static str> {
    let lines = || input.split(|&b| b == b'\n');
    match v {
        // allocation sized by a number of the file: `capacity overflow` panic or allocation
        // failure abort, only observable in the child process (digit run of 8+)
        Verdict::Panic if in_child && has_long_number(input) && msg.contains("capacity overflow") => Some("alloc"),
        Verdict::Abort if in_child && has_long_number(input) && msg.contains("memory allocation of") => Some("alloc"),
        // recursion depth = nesting depth of the input
        Verdict::Abort if in_child && deeply_nested(input) && msg.contains("overflowed its stack") => Some("deep-nesting"),
        // `max_clause.1 != num_clauses.1 - 1` with a clause tree and `p cnf <n> 0`
        Verdict::Panic
            if !msg.starts_with("load_file:")
                && msg.contains("subtract with overflow")
                && opts & 2 != 0
                && lines().any(|l| l.starts_with(b"c") && l.windows(2).any(|w| w == b"co"))
                && lines().any(|l| {
                    let w: Vec<&[u8]> = l.split(|b| b.is_ascii_whitespace()).filter(|x| !x.is_empty()).collect();
                    w.len() == 4 && w[0] == b"p" && w[1] == b"cnf" && !w[3].is_empty() && w[3].iter().all(|&b| b == b'0')
                }) =>
        {
            Some("co-zero-clauses")
        }
        // `c vo []`: an order tree without leaves passes `tree()` and trips `VarSet::check_valid`
        Verdict::Panic
            if !msg.starts_with("load_file:")
                && msg.contains("order_tree.is_none()")
                && opts & 1 != 0
                && lines().any(|l| l.starts_with(b"c") && l.windows(2).any(|w| w == b"vo") && !l.iter().any(|b| b.is_ascii_digit())) =>
        {
            Some("empty-order-tree")
        }
        // the diagnostic renderer computes the offset of a placeholder span (`&[]`) that does not
        // point into the input; the parser itself returned a diagnostic
        Verdict::Panic if !in_child && msg.starts_with("load_file:") && msg.contains("subtract with overflow") => Some("diag-span"),
        _ => None,
    }
}

// ------------------------------------------------------------------ evaluating parsed problems

fn eval_lit(c: &Circuit, l: Literal, asg: u32, memo: &mut Vec<u8>, depth: usize) -> Option<bool> {
    if l == Literal::FALSE {
        return Some(false);
    }
    if l == Literal::TRUE {
        return Some(true);
    }
    if let Some(i) = l.get_input() {
        if i >= 32 {
            return None;
        }
        return Some((((asg >> i) & 1) != 0) ^ l.is_negative());
    }
    let g = l.get_gate_no()?;
    if g >= memo.len() || depth > 10_000 {
        return None;
    }
    match memo[g] {
        1 => return Some(l.is_negative()),
        2 => return Some(!l.is_negative()),
        3 => return None, // cycle
        _ => {}
    }
    memo[g] = 3;
    let gate = c.gate_for_no(g)?;
    let mut acc = match gate.kind {
        GateKind::And => true,
        _ => false,
    };
    for &x in gate.inputs {
        let v = eval_lit(c, x, asg, memo, depth + 1)?;
        match gate.kind {
            GateKind::And => acc &= v,
            GateKind::Or => acc |= v,
            GateKind::Xor => acc ^= v,
        }
    }
    memo[g] = if acc { 2 } else { 1 };
    Some(acc ^ l.is_negative())
}

/// the literals whose functions the expected truth tables describe
fn roots_of(p: &Problem) -> Vec<Literal> {
    match &p.details {
        ProblemDetails::Root(l) => vec![*l],
        ProblemDetails::AIGER(a) => a.outputs().iter().chain(a.latches().iter()).copied().collect(),
    }
}

/// truth tables of all roots, as a string of 0/1 (root-major, assignment-minor)
fn truth_tables(p: &Problem, nvars: usize) -> Option<String> {
    let mut s = String::new();
    for r in roots_of(p) {
        for asg in 0..(1u32 << nvars) {
            let mut memo = vec![0u8; p.circuit.num_gates()];
            s.push(if eval_lit(&p.circuit, r, asg, &mut memo, 0)? { '1' } else { '0' });
        }
    }
    Some(s)
}

// ------------------------------------------------------------------ scenario

struct Parsers {
    base: Vec<u8>,
    base2: Vec<u8>,
    fmt: Fmt,
    opts: u32,
    tmp: std::path::PathBuf,
}

fn hex(b: &[u8]) -> String {
    let mut s = String::with_capacity(2 * b.len());
    for x in b {
        s.push_str(&format!("{:02x}", x));
    }
    if s.is_empty() { "-".into() } else { s }
}
/// hex of the input, abbreviated for very long inputs (the operation line regenerates them)
fn hex_short(b: &[u8]) -> String {
    if b.len() <= 600 { hex(b) } else { format!("{}…({} bytes)", hex(&b[..300]), b.len()) }
}
fn unhex(s: &str) -> Option<Vec<u8>> {
    if s == "-" {
        return Some(Vec::new());
    }
    if s.len() % 2 != 0 {
        return None;
    }
    (0..s.len() / 2).map(|i| u8::from_str_radix(s.get(2 * i..2 * i + 2)?, 16).ok()).collect()
}

impl Parsers {
    /// parse one input under every guard; report panics / aborts / hangs
    fn check(&self, what: &str, input: &[u8], ctx: &mut Ctx) -> Verdict {
        ctx.count("inputs");
        let in_child = risky(input);
        let (v, msg) = if in_child {
            ctx.count("inputs parsed in a child process");
            run_in_child(self.fmt, self.opts, input, &self.tmp)
        } else {
            let (v, _, m) = run_all_in_process(self.fmt, self.opts, input, &self.tmp, true);
            (v, m)
        };
        match v {
            Verdict::Ok => ctx.count("verdict:ok"),
            Verdict::Diag => ctx.count("verdict:diagnostic"),
            Verdict::Panic | Verdict::Abort | Verdict::Hang => {
                let class = known_class(self.opts, input, v, in_child, &msg);
                let kf_case = ctx.case.strip_prefix("case kf-parser-").map(|s| s.to_string());
                let descr = format!("{} {} opts={} input={}: {}", fmt_name(self.fmt), what, self.opts, hex_short(input), msg);
                let sig = match v {
                    Verdict::Panic => "parser-panic",
                    Verdict::Abort => "parser-abort",
                    _ => "parser-hang",
                };
                match (class, kf_case) {
                    // a listed finding, reproduced in its dedicated case
                    (Some(c), Some(k)) if k.starts_with(c) => ctx.fail(sig, &format!("[known class {}] {}", c, descr)),
                    // a dedicated case must only show its own class
                    (_, Some(k)) => ctx.fail("parser-failure-unexpected", &format!("[in case kf-parser-{}: class {:?}] {} {}", k, class, sig, descr)),
                    // the random part ran into a listed class: counted, not reported
                    (Some(c), None) => ctx.count(&format!("known class {} hit by a generated input (tolerated)", c)),
                    (None, None) => ctx.fail(sig, &descr),
                }
            }
        }
        v
    }

    /// a generated valid file: must parse, and to the expected functions (also after `simplify`)
    fn valid(&self, input: &[u8], nvars: usize, tt: &str, ctx: &mut Ctx) -> (String, Option<Problem>) {
        let (v, p, msg) = run_all_in_process(self.fmt, self.opts, input, &self.tmp, true);
        match v {
            Verdict::Ok => {}
            Verdict::Diag => {
                ctx.fail("valid-file-rejected", &format!("{} opts={} input={}", fmt_name(self.fmt), self.opts, hex(input)));
                return ("rejected".into(), None);
            }
            _ => {
                ctx.fail("parser-panic", &format!("{} valid file opts={} input={}: {}", fmt_name(self.fmt), self.opts, hex(input), msg));
                return ("panic".into(), None);
            }
        }
        let p = p.unwrap();
        if tt != "-" {
            match truth_tables(&p, nvars) {
                Some(got) if got == tt => ctx.count("truth table of the parsed problem as expected"),
                got => ctx.fail("parsed-function-wrong", &format!("{} opts={} input={}: expected truth table {} got {:?}", fmt_name(self.fmt), self.opts, hex(input), tt, got)),
            }
            match catch_unwind(AssertUnwindSafe(|| p.simplify())) {
                Ok(Ok((q, _))) => match truth_tables(&q, nvars) {
                    Some(got) if got == tt => ctx.count("truth table after Problem::simplify as expected"),
                    got => ctx.fail("simplified-function-wrong", &format!("{} opts={} input={}: expected truth table {} got {:?} after simplify", fmt_name(self.fmt), self.opts, hex(input), tt, got)),
                },
                Ok(Err(l)) => ctx.fail("simplify-error-on-valid-file", &format!("{} input={}: simplify returned Err({:?})", fmt_name(self.fmt), hex(input), l)),
                Err(_) => ctx.fail("simplify-panic", &format!("{} input={}: simplify panicked", fmt_name(self.fmt), hex(input))),
            }
        }
        ("ok".into(), Some(p))
    }
}

/// seeded byte-level mutation
fn mutate(base: &[u8], rng: &mut Rng) -> Vec<u8> {
    const INTERESTING: &[u8] = b"0123456789 \n\r\t-xcpaigAOLXB()[],*+=\x00\x80\xff\x7f";
    const NUMBERS: &[&str] = &["0", "1", "18446744073709551615", "18446744073709551616", "1152921504606846975", "1152921504606846976",
        "99999999", "4294967296", "9223372036854775807", "-9223372036854775808", "00000000000000000000000001"];
    let mut v = base.to_vec();
    let n_edits = 1 + rng.below(3);
    for _ in 0..n_edits {
        let len = v.len();
        match rng.below(9) {
            0 | 1 if len > 0 => {
                let i = rng.below(len as u64) as usize;
                v[i] = if rng.chance(2, 3) { *rng.pick(INTERESTING) } else { rng.below(256) as u8 };
            }
            2 => {
                let i = rng.below(len as u64 + 1) as usize;
                v.insert(i, if rng.chance(2, 3) { *rng.pick(INTERESTING) } else { rng.below(256) as u8 });
            }
            3 if len > 0 => {
                let i = rng.below(len as u64) as usize;
                v.remove(i);
            }
            4 if len > 1 => {
                // duplicate a chunk
                let a = rng.below(len as u64) as usize;
                let b = (a + 1 + rng.below(12) as usize).min(len);
                let chunk: Vec<u8> = v[a..b].to_vec();
                let at = rng.below(len as u64 + 1) as usize;
                for (k, x) in chunk.into_iter().enumerate() {
                    v.insert(at + k, x);
                }
            }
            5 if len > 1 => {
                // delete a chunk
                let a = rng.below(len as u64) as usize;
                let b = (a + 1 + rng.below(12) as usize).min(len);
                v.drain(a..b);
            }
            6 | 7 => {
                // replace a number
                let starts: Vec<usize> = (0..len).filter(|&i| v[i].is_ascii_digit() && (i == 0 || !v[i - 1].is_ascii_digit())).collect();
                if !starts.is_empty() {
                    let a = *rng.pick(&starts);
                    let mut b = a;
                    while b < len && v[b].is_ascii_digit() {
                        b += 1;
                    }
                    let old: u128 = std::str::from_utf8(&v[a..b]).unwrap().parse().unwrap_or(0);
                    let new = if rng.chance(1, 3) {
                        rng.pick(NUMBERS).to_string()
                    } else {
                        match rng.below(4) {
                            0 => old.saturating_add(1).to_string(),
                            1 => old.saturating_sub(1).to_string(),
                            2 => (old * 2).to_string(),
                            _ => rng.below(300).to_string(),
                        }
                    };
                    v.splice(a..b, new.into_bytes());
                }
            }
            _ => {
                // swap two lines
                let mut lines: Vec<Vec<u8>> = v.split(|&c| c == b'\n').map(|l| l.to_vec()).collect();
                if lines.len() > 2 {
                    let i = rng.below(lines.len() as u64) as usize;
                    let j = rng.below(lines.len() as u64) as usize;
                    lines.swap(i, j);
                    v = lines.join(&b'\n');
                }
            }
        }
    }
    v
}

impl Scenario for Parsers {
    fn reset(&mut self) {
        self.base.clear();
        self.base2.clear();
    }
    fn step(&mut self, line: &str, ctx: &mut Ctx) -> String {
        let w = words(line);
        match w.as_slice() {
            ["file", fmt, opts, nvars, tt, hx] => {
                let (Some(fmt), Ok(opts), Ok(nvars), Some(bytes)) = (fmt_of(fmt), opts.parse::<u32>(), nvars.parse::<usize>(), unhex(hx)) else {
                    return "bad-op".into();
                };
                self.fmt = fmt;
                self.opts = opts;
                self.base = bytes;
                ctx.count(&format!("valid files:{}", fmt_name(fmt)));
                self.valid(&self.base.clone(), nvars, tt, ctx).0
            }
            ["pair", nvars, tt, h1, h2] => {
                let (Ok(nvars), Some(b1), Some(b2)) = (nvars.parse::<usize>(), unhex(h1), unhex(h2)) else {
                    return "bad-op".into();
                };
                self.fmt = Fmt::Aiger;
                self.opts = 0;
                self.base = b1;
                self.base2 = b2;
                ctx.count("valid files:aiger pairs");
                let (r1, p1) = self.valid(&self.base.clone(), nvars, tt, ctx);
                let (r2, p2) = self.valid(&self.base2.clone(), nvars, tt, ctx);
                if let (Some(p1), Some(p2)) = (p1, p2) {
                    if p1 == p2 {
                        ctx.count("ASCII and binary AIGER parse to the same problem");
                    } else {
                        ctx.fail("aag-aig-differ", &format!("aag={} aig={}: {:?} vs {:?}", hex(&self.base), hex(&self.base2), p1, p2));
                    }
                }
                format!("{} {}", r1, r2)
            }
            ["usebase", k] => {
                if *k == "2" {
                    std::mem::swap(&mut self.base, &mut self.base2);
                }
                "ok".into()
            }
            ["truncall"] => {
                let base = self.base.clone();
                let (mut ok, mut diag, mut bad) = (0, 0, 0);
                for n in 0..base.len() {
                    match self.check(&format!("prefix of length {}", n), &base[..n], ctx) {
                        Verdict::Ok => ok += 1,
                        Verdict::Diag => diag += 1,
                        _ => bad += 1,
                    }
                }
                format!("prefixes ok={} diag={} bad={}", ok, diag, bad)
            }
            ["muts", seed, count] => {
                let (Ok(seed), Ok(count)) = (seed.parse::<u64>(), count.parse::<u64>()) else {
                    return "bad-op".into();
                };
                let base = self.base.clone();
                let mut rng = Rng::new(seed);
                let (mut ok, mut diag, mut bad) = (0, 0, 0);
                for k in 0..count {
                    let m = mutate(&base, &mut rng);
                    match self.check(&format!("mutation {} of seed {}", k, seed), &m, ctx) {
                        Verdict::Ok => ok += 1,
                        Verdict::Diag => diag += 1,
                        _ => bad += 1,
                    }
                }
                format!("mutations ok={} diag={} bad={}", ok, diag, bad)
            }
            ["raw", fmt, opts, hx] => {
                let (Some(fmt), Ok(opts), Some(bytes)) = (fmt_of(fmt), opts.parse::<u32>(), unhex(hx)) else {
                    return "bad-op".into();
                };
                self.fmt = fmt;
                self.opts = opts;
                self.base = bytes;
                format!("{:?}", self.check("raw input", &self.base.clone(), ctx))
            }
            ["big", fmt, opts, kind, n] => {
                // generated on the fly (too long for an operation line): deep nesting
                let (Some(fmt), Ok(opts), Ok(n)) = (fmt_of(fmt), opts.parse::<u32>(), n.parse::<usize>()) else {
                    return "bad-op".into();
                };
                self.fmt = fmt;
                self.opts = opts;
                let input: Vec<u8> = match *kind {
                    "sat-parens" => {
                        let mut v = b"p sat 1\n".to_vec();
                        v.extend(std::iter::repeat(b'(').take(n));
                        v.push(b'1');
                        v.extend(std::iter::repeat(b')').take(n));
                        v.push(b'\n');
                        v
                    }
                    "sat-neg" => {
                        let mut v = b"p sat 1\n".to_vec();
                        for _ in 0..n {
                            v.extend_from_slice(b"-(");
                        }
                        v.push(b'1');
                        v.extend(std::iter::repeat(b')').take(n));
                        v
                    }
                    "tree" => {
                        let mut v = b"c vo ".to_vec();
                        v.extend(std::iter::repeat(b'[').take(n));
                        v.push(b'1');
                        v.extend(std::iter::repeat(b']').take(n));
                        v.extend_from_slice(b"\np cnf 1 1\n1 0\n");
                        v
                    }
                    "cnf-long" => {
                        let mut v = format!("p cnf 3 {}\n", n).into_bytes();
                        for k in 0..n {
                            v.extend_from_slice(format!("{} -{} 0\n", k % 3 + 1, (k + 1) % 3 + 1).as_bytes());
                        }
                        v
                    }
                    _ => return "bad-op".into(),
                };
                self.base = input;
                let v = self.check(&format!("{} n={}", kind, n), &self.base.clone(), ctx);
                format!("{:?}", v)
            }
            _ => "bad-op".into(),
        }
    }
}

// ------------------------------------------------------------------ generators of valid files

fn ws(rng: &mut Rng) -> &'static str {
    match rng.below(8) {
        0 => "  ",
        1 => "\t",
        _ => " ",
    }
}

/// DIMACS CNF (with XOR clauses); returns (text, nvars, truth table, opts)
fn gen_cnf(rng: &mut Rng) -> (Vec<u8>, usize, String, u32) {
    let n = rng.range(1, 5) as usize;
    let m = rng.range(0, 6) as usize;
    let mut clauses: Vec<(bool, Vec<(bool, usize)>)> = Vec::new();
    for _ in 0..m {
        let xor = rng.chance(1, 5);
        let len = if rng.chance(1, 10) { 0 } else { rng.range(1, 4) as usize };
        clauses.push((xor, (0..len).map(|_| (rng.chance(1, 2), rng.below(n as u64) as usize)).collect()));
    }
    let opts = match rng.below(6) {
        0 => 1,
        1 if m > 0 => 3,
        _ => 0,
    };
    let mut t = String::new();
    if opts & 1 != 0 {
        if rng.chance(1, 2) {
            // linear order with names
            let mut order: Vec<usize> = (0..n).collect();
            rng.shuffle(&mut order);
            for v in order {
                if rng.chance(1, 2) {
                    t.push_str(&format!("c {} v{}\n", v + 1, v));
                } else {
                    t.push_str(&format!("c {}\n", v + 1));
                }
            }
        } else {
            // order tree over all variables
            let mut order: Vec<usize> = (1..=n).collect();
            rng.shuffle(&mut order);
            let mut s = String::from("[");
            for (k, v) in order.iter().enumerate() {
                if k > 0 {
                    s.push_str(", ");
                }
                if rng.chance(1, 4) {
                    s.push_str(&format!("[{}]", v));
                } else {
                    s.push_str(&v.to_string());
                }
            }
            s.push(']');
            t.push_str(&format!("c vo {}\n", s));
        }
        if opts & 2 != 0 {
            let mut idx: Vec<usize> = (0..m).collect();
            rng.shuffle(&mut idx);
            let cut = rng.below(m as u64 + 1) as usize;
            let part = |xs: &[usize]| xs.iter().map(|x| x.to_string()).collect::<Vec<_>>().join(", ");
            if cut == 0 || cut == m {
                t.push_str(&format!("c co [{}]\n", part(&idx)));
            } else {
                t.push_str(&format!("c co [[{}], [{}]]\n", part(&idx[..cut]), part(&idx[cut..])));
            }
        }
    } else {
        for _ in 0..rng.below(3) {
            t.push_str("c some comment 1 2 -3\n");
        }
    }
    t.push_str(&format!("p cnf {} {}\n", n, m));
    for (k, (xor, lits)) in clauses.iter().enumerate() {
        if *xor {
            t.push_str(if rng.chance(1, 2) { "x" } else { "x " });
        }
        for (neg, v) in lits {
            t.push_str(&format!("{}{}{}", if *neg { "-" } else { "" }, v + 1, ws(rng)));
        }
        if k + 1 < m || rng.chance(2, 3) {
            t.push('0');
        }
        t.push_str(if rng.chance(3, 4) { "\n" } else { " " });
    }
    let mut tt = String::new();
    for asg in 0..(1u32 << n) {
        let val = |neg: bool, v: usize| (((asg >> v) & 1) != 0) ^ neg;
        let all = clauses.iter().all(|(xor, lits)| {
            if lits.is_empty() {
                false
            } else if *xor {
                lits.iter().fold(false, |a, (ng, v)| a ^ val(*ng, *v))
            } else {
                lits.iter().any(|(ng, v)| val(*ng, *v))
            }
        });
        tt.push(if all { '1' } else { '0' });
    }
    (t.into_bytes(), n, tt, opts)
}

#[derive(Clone, Debug)]
enum F {
    Var(usize),
    Not(Box<F>),
    And(Vec<F>),
    Or(Vec<F>),
    Xor(Vec<F>),
    Eq(Box<F>, Box<F>),
}
fn gen_formula(rng: &mut Rng, n: usize, depth: u32, xor: bool, eq: bool) -> F {
    if depth == 0 || rng.chance(1, 3) {
        let v = F::Var(rng.below(n as u64) as usize);
        return if rng.chance(1, 3) { F::Not(Box::new(v)) } else { v };
    }
    let k = rng.below(4) as usize;
    let sub = |rng: &mut Rng| (0..k).map(|_| gen_formula(rng, n, depth - 1, xor, eq)).collect::<Vec<_>>();
    match rng.below(6) {
        0 => F::Not(Box::new(gen_formula(rng, n, depth - 1, xor, eq))),
        1 | 2 => F::And(sub(rng)),
        3 => F::Or(sub(rng)),
        4 if xor => F::Xor(sub(rng)),
        5 if eq => F::Eq(Box::new(gen_formula(rng, n, depth - 1, xor, eq)), Box::new(gen_formula(rng, n, depth - 1, xor, eq))),
        _ => F::Or(sub(rng)),
    }
}
fn eval_formula(f: &F, asg: u32) -> bool {
    match f {
        F::Var(v) => ((asg >> v) & 1) != 0,
        F::Not(g) => !eval_formula(g, asg),
        F::And(gs) => gs.iter().all(|g| eval_formula(g, asg)),
        F::Or(gs) => gs.iter().any(|g| eval_formula(g, asg)),
        F::Xor(gs) => gs.iter().fold(false, |a, g| a ^ eval_formula(g, asg)),
        F::Eq(a, b) => eval_formula(a, asg) == eval_formula(b, asg),
    }
}
fn show_formula(f: &F, rng: &mut Rng, out: &mut String) {
    let list = |gs: &[F], rng: &mut Rng, out: &mut String| {
        out.push('(');
        for (k, g) in gs.iter().enumerate() {
            if k > 0 {
                out.push_str(if rng.chance(1, 6) { "\n " } else { " " });
            }
            show_formula(g, rng, out);
        }
        out.push(')');
    };
    match f {
        F::Var(v) => out.push_str(&(v + 1).to_string()),
        F::Not(g) => match &**g {
            F::Var(v) => out.push_str(&format!("-{}", v + 1)),
            g => {
                out.push_str("-(");
                show_formula(g, rng, out);
                out.push(')');
            }
        },
        F::And(gs) => {
            out.push('*');
            list(gs, rng, out)
        }
        F::Or(gs) => {
            out.push('+');
            list(gs, rng, out)
        }
        F::Xor(gs) => {
            out.push_str("xor");
            list(gs, rng, out)
        }
        F::Eq(a, b) => {
            out.push('=');
            list(&[(**a).clone(), (**b).clone()], rng, out)
        }
    }
}
/// DIMACS SAT / SATX / SATEX
fn gen_sat(rng: &mut Rng) -> (Vec<u8>, usize, String, u32) {
    let n = rng.range(1, 5) as usize;
    let (name, xor, eq) = *rng.pick(&[("sat", false, false), ("satx", true, false), ("satex", true, true), ("sate", false, false)]);
    let f = gen_formula(rng, n, 3, xor, eq);
    let mut t = String::new();
    for _ in 0..rng.below(2) {
        t.push_str("c comment\n");
    }
    t.push_str(&format!("p {} {}\n", name, n));
    if rng.chance(1, 3) {
        t.push('(');
        show_formula(&f, rng, &mut t);
        t.push(')');
    } else {
        show_formula(&f, rng, &mut t);
    }
    if rng.chance(1, 2) {
        t.push('\n');
    }
    let tt: String = (0..(1u32 << n)).map(|a| if eval_formula(&f, a) { '1' } else { '0' }).collect();
    (t.into_bytes(), n, tt, 0)
}

/// c2d NNF with the extensions (X nodes, arbitrary OR arity)
fn gen_nnf(rng: &mut Rng) -> (Vec<u8>, usize, String, u32) {
    let n = rng.range(1, 5) as usize;
    let nodes_n = rng.range(1, 10) as usize;
    #[derive(Clone)]
    enum N {
        L(bool, usize),
        A(Vec<usize>),
        O(usize, Vec<usize>),
        X(Vec<usize>),
    }
    let mut nodes: Vec<N> = Vec::new();
    for k in 0..nodes_n {
        if k == 0 || rng.chance(2, 5) {
            nodes.push(N::L(rng.chance(1, 2), rng.below(n as u64) as usize));
        } else {
            let arity = rng.below(4) as usize;
            let ch: Vec<usize> = (0..arity).map(|_| rng.below(k as u64) as usize).collect();
            match rng.below(4) {
                0 | 1 => nodes.push(N::A(ch)),
                2 => {
                    let conflict = if ch.len() == 2 && rng.chance(1, 2) { rng.range(1, n as u64) as usize } else { 0 };
                    nodes.push(N::O(conflict, ch))
                }
                _ => nodes.push(N::X(ch)),
            }
        }
    }
    let edges: usize = nodes.iter().map(|x| match x { N::L(..) => 0, N::A(c) | N::O(_, c) | N::X(c) => c.len() }).sum();
    let opts = if rng.chance(1, 6) { 1 } else { 0 };
    let mut t = String::new();
    if opts == 1 {
        for v in 0..n {
            t.push_str(&format!("c {} name{}\n", v + 1, v));
        }
    } else if rng.chance(1, 3) {
        t.push_str("c a comment\n");
    }
    t.push_str(&format!("nnf {} {} {}\n", nodes_n, edges, n));
    for x in &nodes {
        match x {
            N::L(neg, v) => t.push_str(&format!("L {}{}\n", if *neg { "-" } else { "" }, v + 1)),
            N::A(c) => t.push_str(&format!("{} {}{}\n", if rng.chance(1, 6) { "a" } else { "A" }, c.len(), c.iter().map(|i| format!(" {}", i)).collect::<String>())),
            N::O(j, c) => t.push_str(&format!("O {} {}{}\n", j, c.len(), c.iter().map(|i| format!(" {}", i)).collect::<String>())),
            N::X(c) => t.push_str(&format!("X {}{}\n", c.len(), c.iter().map(|i| format!(" {}", i)).collect::<String>())),
        }
    }
    let mut tt = String::new();
    for asg in 0..(1u32 << n) {
        let mut vals: Vec<bool> = Vec::new();
        for x in &nodes {
            let v = match x {
                N::L(neg, v) => (((asg >> v) & 1) != 0) ^ neg,
                N::A(c) => c.iter().all(|i| vals[*i]),
                N::O(_, c) => c.iter().any(|i| vals[*i]),
                N::X(c) => c.iter().fold(false, |a, i| a ^ vals[*i]),
            };
            vals.push(v);
        }
        tt.push(if *vals.last().unwrap() { '1' } else { '0' });
    }
    (t.into_bytes(), n, tt, opts)
}

fn enc7(mut x: usize, out: &mut Vec<u8>) {
    loop {
        let b = (x & 127) as u8;
        x >>= 7;
        if x == 0 {
            out.push(b);
            return;
        }
        out.push(b | 128);
    }
}

/// the same and-inverter graph as `aag` and `aig`; truth tables of outputs then latch inputs over
/// inputs + latch outputs
fn gen_aiger_pair(rng: &mut Rng) -> (Vec<u8>, Vec<u8>, usize, String) {
    let i = rng.below(4) as usize;
    let l = rng.below(3) as usize;
    let a = rng.below(7) as usize;
    let o = rng.below(3) as usize;
    let m = i + l + a;
    let first_and = i + l + 1;
    // gate k has lhs 2*(first_and + k); rhs0 >= rhs1, both < lhs
    let mut gates: Vec<(usize, usize)> = Vec::new();
    for k in 0..a {
        let lhs = 2 * (first_and + k);
        let x = rng.below(lhs as u64) as usize;
        let y = rng.below(lhs as u64) as usize;
        gates.push((x.max(y), x.min(y)));
    }
    let lit = |rng: &mut Rng| rng.below(2 * (m as u64 + 1)) as usize;
    let latches: Vec<(usize, Option<usize>)> = (0..l)
        .map(|k| {
            let own = 2 * (i + 1 + k);
            (lit(rng), match rng.below(4) { 0 => None, 1 => Some(0), 2 => Some(1), _ => Some(own) })
        })
        .collect();
    let outputs: Vec<usize> = (0..o).map(|_| lit(rng)).collect();
    let (b, c, j, f) = if rng.chance(1, 3) { (rng.below(2) as usize, rng.below(2) as usize, rng.below(3) as usize, rng.below(2) as usize) } else { (0, 0, 0, 0) };
    let bad: Vec<usize> = (0..b).map(|_| lit(rng)).collect();
    let inv: Vec<usize> = (0..c).map(|_| lit(rng)).collect();
    let just: Vec<Vec<usize>> = (0..j).map(|_| (0..rng.below(3)).map(|_| lit(rng)).collect()).collect();
    let fair: Vec<usize> = (0..f).map(|_| lit(rng)).collect();
    let mut header = format!("{} {} {} {} {}", m, i, l, o, a);
    if b + c + j + f > 0 {
        header.push_str(&format!(" {}", b));
        if c + j + f > 0 {
            header.push_str(&format!(" {}", c));
            if j + f > 0 {
                header.push_str(&format!(" {}", j));
                if f > 0 {
                    header.push_str(&format!(" {}", f));
                }
            }
        }
    }
    let mut tail = String::new();
    let symbols = rng.chance(1, 3);
    if symbols {
        for k in 0..i {
            if rng.chance(2, 3) {
                tail.push_str(&format!("i{} in{}\n", k, k));
            }
        }
        for k in 0..l {
            if rng.chance(1, 2) {
                tail.push_str(&format!("l{} latch {}\n", k, k));
            }
        }
        for k in 0..o {
            if rng.chance(1, 2) {
                tail.push_str(&format!("o{} out{}\n", k, k));
            }
        }
    }
    if rng.chance(1, 3) {
        tail.push_str("c\nsome comment\n");
    }
    let mut props = String::new();
    for x in &outputs {
        props.push_str(&format!("{}\n", x));
    }
    for x in &bad {
        props.push_str(&format!("{}\n", x));
    }
    for x in &inv {
        props.push_str(&format!("{}\n", x));
    }
    for js in &just {
        props.push_str(&format!("{}\n", js.len()));
    }
    for js in &just {
        for x in js {
            props.push_str(&format!("{}\n", x));
        }
    }
    for x in &fair {
        props.push_str(&format!("{}\n", x));
    }
    let latch_line = |k: usize, with_lit: bool| {
        let own = 2 * (i + 1 + k);
        let (next, init) = latches[k];
        let mut s = if with_lit { format!("{} {}", own, next) } else { next.to_string() };
        if let Some(v) = init {
            s.push_str(&format!(" {}", v));
        }
        s.push('\n');
        s
    };
    // ASCII
    let mut aag = format!("aag {}\n", header);
    for k in 0..i {
        aag.push_str(&format!("{}\n", 2 * (k + 1)));
    }
    for k in 0..l {
        aag.push_str(&latch_line(k, true));
    }
    aag.push_str(&props);
    for (k, (x, y)) in gates.iter().enumerate() {
        aag.push_str(&format!("{} {} {}\n", 2 * (first_and + k), x, y));
    }
    aag.push_str(&tail);
    // binary
    let mut aig = format!("aig {}\n", header).into_bytes();
    for k in 0..l {
        aig.extend_from_slice(latch_line(k, false).as_bytes());
    }
    aig.extend_from_slice(props.as_bytes());
    for (k, (x, y)) in gates.iter().enumerate() {
        let lhs = 2 * (first_and + k);
        enc7(lhs - x, &mut aig);
        enc7(x - y, &mut aig);
    }
    aig.extend_from_slice(tail.as_bytes());
    // truth tables: outputs then latch inputs over i + l variables (variable v-1 for AIGER var v)
    let nv = i + l;
    let mut tt = String::new();
    let eval = |litv: usize, asg: u32| -> bool {
        let mut vals = vec![false; m + 1];
        for v in 1..=nv {
            vals[v] = ((asg >> (v - 1)) & 1) != 0;
        }
        let lv = |x: usize, vals: &Vec<bool>| vals[x / 2] ^ (x % 2 == 1);
        for (k, (x, y)) in gates.iter().enumerate() {
            let r = lv(*x, &vals) && lv(*y, &vals);
            vals[first_and + k] = r;
        }
        lv(litv, &vals)
    };
    for x in outputs.iter().chain(latches.iter().map(|p| &p.0)) {
        for asg in 0..(1u32 << nv) {
            tt.push(if eval(*x, asg) { '1' } else { '0' });
        }
    }
    if tt.is_empty() {
        tt.push('-');
    }
    (aag.into_bytes(), aig, nv, tt)
}

fn generate(cfg: &GenCfg, rng: &mut Rng, w: &mut dyn Write) {
    let scale = cfg.scale.max(1);
    let (files, muts) = if cfg.thorough { (200 * scale, 360) } else { (36 * scale, 120) };
    let mut case = 0;
    // ---- hand-written files from the crate's tests and the format documentation
    let fixed: &[(&str, u32, &[u8])] = &[
        ("dimacs", 0, b"c Example CNF format file\nc\np cnf 4 3\n1 3 -4 0\n4 0 2\n-3"),
        ("dimacs", 0, b"p cnf 0 0\n"),
        ("dimacs", 0, b"c Sample SAT format\nc\np sat 4\n(*(+(1 3 -4)\n    +(4)\n    +(2 3)))"),
        ("dimacs", 3, b"c 1 a\nc 2 b\nc 3\nc co [[0, 1], [2]]\np cnf 3 3\n1 2 0 -1 3 0 x 1 2 3 0\n"),
        ("dimacs", 1, b"c vo [[2, 3], [1]]\np satex 3\n=(xor(1 2) -(3))\n"),
        ("nnf", 0, b"nnf 15 17 4\nL -3\nL -2\nL 1\nA 3 2 1 0\nL 3\nO 3 2 4 3\nL -4\nA 2 6 5\nL 4\nA 2 2 8\nA 2 1 4\nL 2\nO 2 2 11 10\nA 2 12 9\nO 4 2 13 7\n"),
        ("aiger", 0, b"aag 7 2 0 2 3\n2\n4\n6\n12\n6 13 15\n12 2 4\n14 3 5\ni0 x\ni1 y\no0 s\no1 c\nc\nhalf adder\n"),
        ("aiger", 0, b"aig 5 2 0 2 3\n10\n6\n\x02\x02\x03\x02\x01\x02i0 x\ni1 y\no0 s\no1 c\nc\nhalf adder\n"),
        ("aiger", 0, b"aag 7 2 1 2 4\n2\n4\n6 8\n6\n7\n8 4 10\n10 13 15\n12 2 6\n14 3 7\ni0 toggle\ni1 ~reset\no0 q\no1 ~q\nl0 q\nc foobar\n"),
        ("aiger", 0, b"aig 5 1 1 0 3 1 1\n10 0\n4\n3\n\x01\x02\x04\x02\x01\x02"),
        ("aiger", 0, b"aag 3 2 0 1 1 1 1 2 1\n2\n4\n6\n2\n3\n1\n2\n1\n4\n5\n6\n6 4 2\n"),
    ];
    for (fmt, opts, bytes) in fixed {
        case += 1;
        writeln!(w, "case fixed {} {}", fmt, case).unwrap();
        writeln!(w, "file {} {} 0 - {}", fmt, opts, hex(bytes)).unwrap();
        writeln!(w, "truncall").unwrap();
        writeln!(w, "muts {} {}", rng.next() % 1_000_000, muts).unwrap();
    }
    // ---- generated valid files with expected truth tables
    for k in 0..files {
        case += 1;
        match k % 4 {
            0 => {
                let (t, n, tt, opts) = gen_cnf(rng);
                writeln!(w, "case gen cnf {}", case).unwrap();
                writeln!(w, "file dimacs {} {} {} {}", opts, n, tt, hex(&t)).unwrap();
            }
            1 => {
                let (t, n, tt, opts) = gen_sat(rng);
                writeln!(w, "case gen sat {}", case).unwrap();
                writeln!(w, "file dimacs {} {} {} {}", opts, n, tt, hex(&t)).unwrap();
            }
            2 => {
                let (t, n, tt, opts) = gen_nnf(rng);
                writeln!(w, "case gen nnf {}", case).unwrap();
                writeln!(w, "file nnf {} {} {} {}", opts, n, tt, hex(&t)).unwrap();
            }
            _ => {
                let (aag, aig, n, tt) = gen_aiger_pair(rng);
                writeln!(w, "case gen aiger {}", case).unwrap();
                writeln!(w, "pair {} {} {} {}", n, tt, hex(&aag), hex(&aig)).unwrap();
                writeln!(w, "truncall").unwrap();
                writeln!(w, "muts {} {}", rng.next() % 1_000_000, muts / 2).unwrap();
                writeln!(w, "usebase 2").unwrap();
            }
        }
        writeln!(w, "truncall").unwrap();
        writeln!(w, "muts {} {}", rng.next() % 1_000_000, muts).unwrap();
    }
    // ---- numbers and nesting the parsers must cope with (any failure here is a violation)
    let big = ["1152921504606846975", "1152921504606846976", "18446744073709551615", "99999999999", "99999999"];
    writeln!(w, "case stress numbers").unwrap();
    for (fmt, opts, tmpl) in [
        ("dimacs", 0, "p cnf N 1\n1 0\n"),
        ("dimacs", 0, "p cnf 1 N\n1 0\n"),
        ("nnf", 0, "nnf 1 0 N\nL 1\n"),
        ("nnf", 0, "nnf 2 1 1\nL 1\nA N 0\n"),
        ("nnf", 0, "nnf 1 0 1\nL N\n"),
        ("aiger", 0, "aag 1 1 0 1 0\n2\nN\n"),
        ("aiger", 0, "aig 1 0 0 0 1\n\x02N"),
    ] {
        for n in big {
            writeln!(w, "raw {} {} {}", fmt, opts, hex(tmpl.replace('N', n).as_bytes())).unwrap();
        }
    }
    // numbers beyond usize::MAX / 16 are rejected with a diagnostic everywhere
    for (fmt, opts, tmpl) in [
        ("dimacs", 0, "p sat N\n(1)\n"),
        ("nnf", 0, "nnf N 0 1\nL 1\n"),
        ("nnf", 0, "nnf 1 N 1\nL 1\n"),
        ("aiger", 0, "aag N 0 0 0 0\n"),
        ("aiger", 0, "aig N 0 N 0 0\n"),
        ("aiger", 0, "aag 0 0 0 0 0 0 0 N\n"),
        ("dimacs", 1, "c N\np cnf 1 1\n1 0\n"),
        ("dimacs", 1, "c vo [N]\np cnf 1 1\n1 0\n"),
        ("dimacs", 2, "c co [N]\np cnf 1 1\n1 0\n"),
    ] {
        for n in ["1152921504606846976", "18446744073709551615", "18446744073709551616"] {
            writeln!(w, "raw {} {} {}", fmt, opts, hex(tmpl.replace('N', n).as_bytes())).unwrap();
        }
    }
    writeln!(w, "case stress nesting").unwrap();
    for (fmt, opts, kind, n) in [("dimacs", 0, "sat-parens", 1000), ("dimacs", 0, "sat-neg", 1000), ("dimacs", 1, "tree", 1000),
        ("dimacs", 0, "cnf-long", if cfg.thorough { 2_000_000 } else { 200_000 })] {
        writeln!(w, "big {} {} {} {}", fmt, opts, kind, n).unwrap();
    }

    // ---- listed known findings: one dedicated, deterministic case per class (both tiers)
    // (1) memory reserved by a number of the input: allocation failure abort / capacity overflow
    writeln!(w, "case kf-parser-alloc").unwrap();
    for (fmt, opts, tmpl) in [
        ("nnf", 0, "nnf N 0 1\nL 1\n"),
        ("nnf", 0, "nnf 1 N 1\nL 1\n"),
        ("dimacs", 0, "p sat N\n(1)\n"),
        ("aiger", 0, "aag N 0 0 0 0\n"),
        ("aiger", 0, "aig N N 0 0 0\n"),
        ("aiger", 0, "aig N 0 N 0 0\n"),
        ("aiger", 0, "aag N 0 0 N 0\n"),
        ("aiger", 0, "aig N 0 0 0 N\n"),
        ("aiger", 0, "aag 0 0 0 0 0 N\n"),
        ("aiger", 0, "aag 0 0 0 0 0 0 N\n"),
        ("aiger", 0, "aag 0 0 0 0 0 0 0 N\n"),
        ("aiger", 0, "aag 0 0 0 0 0 0 0 0 N\n"),
        ("aiger", 0, "aag 0 0 0 0 0 0 0 1\nN\n"),
        ("dimacs", 1, "c N\np cnf 1 1\n1 0\n"),
        ("dimacs", 1, "c vo [N]\np cnf 1 1\n1 0\n"),
        ("dimacs", 2, "c co [N]\np cnf 1 1\n1 0\n"),
        ("nnf", 1, "c N x\nnnf 1 0 1\nL 1\n"),
        ("nnf", 1, "c vo [N]\nnnf 1 0 1\nL 1\n"),
    ] {
        for n in ["1152921504606846975", "99999999999"] {
            writeln!(w, "raw {} {} {}", fmt, opts, hex(tmpl.replace('N', n).as_bytes())).unwrap();
        }
    }
    // (2) clause tree given, zero clauses declared: `num_clauses - 1` underflows (debug builds)
    writeln!(w, "case kf-parser-co-zero-clauses").unwrap();
    writeln!(w, "raw dimacs 2 {}", hex(b"c co [0]\np cnf 1 0\n")).unwrap();
    writeln!(w, "raw dimacs 3 {}", hex(b"c 1 a\nc co [[0, 1]]\np cnf 1 0\n")).unwrap();
    // (3) order tree without leaves is accepted by `tree()` and violates `VarSet::check_valid`
    writeln!(w, "case kf-parser-empty-order-tree").unwrap();
    writeln!(w, "raw dimacs 1 {}", hex(b"c vo []\np cnf 1 1\n1 0\n")).unwrap();
    writeln!(w, "raw nnf 1 {}", hex(b"c vo [ [] ]\nnnf 1 0 1\nL 1\n")).unwrap();
    // (4) diagnostics that mention a placeholder span: offset computation underflows in load_file
    writeln!(w, "case kf-parser-diag-span").unwrap();
    for t in [&b"aag 0 0 0 0 0\nc0 x\n"[..], b"aag 0 0 0 0 0\nb0 x\n", b"aag 0 0 0 0 0 0\nj0 x\n", b"aig 0 0 0 0 0\nf0 x\n"] {
        writeln!(w, "raw aiger 0 {}", hex(t)).unwrap();
    }
    writeln!(w, "raw dimacs 1 {}", hex(b"c vo []\np cnf 3 4\n1 0\n")).unwrap();
    // (5) recursion depth = nesting depth of the input: stack overflow
    writeln!(w, "case kf-parser-deep-nesting").unwrap();
    for (opts, kind) in [(0, "sat-parens"), (0, "sat-neg"), (1, "tree")] {
        writeln!(w, "big dimacs {} {} 400000", opts, kind).unwrap();
    }
    let _ = case;
}

fn make(_f: &BTreeMap<String, String>) -> Box<dyn Scenario> {
    // scratch directory of this run (input files for `load_file` and for the child process);
    // directories left behind by runs that ended more than half an hour ago are removed
    if let Ok(rd) = std::fs::read_dir(std::env::temp_dir()) {
        for e in rd.flatten() {
            let old = e.metadata().and_then(|m| m.modified()).ok().and_then(|t| t.elapsed().ok()).map_or(false, |d| d.as_secs() > 1800);
            if old && e.file_name().to_string_lossy().starts_with("c18_parsers_") {
                let _ = std::fs::remove_dir_all(e.path());
            }
        }
    }
    let tmp = std::env::temp_dir().join(format!("c18_parsers_{}", std::process::id()));
    let _ = std::fs::create_dir_all(&tmp);
    Box::new(Parsers { base: Vec::new(), base2: Vec::new(), fmt: Fmt::Dimacs, opts: 0, tmp })
}

fn main() {
    let args: Vec<String> = std::env::args().collect();
    if args.get(1).map(|s| s.as_str()) == Some("--one-input") {
        child_main(&args);
    }
    harness_main(generate, make)
}
