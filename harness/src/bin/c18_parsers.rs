//! C18 (part 2): the DIMACS CNF/SAT, NNF and AIGER (ASCII + binary) parsers of `oxidd-parser`
//! on the real code.  Oracle-only stream (no Lean model; parser totality over raw bytes is
//! *tested*, the `nom` tokenisation is outside the model).
//!
//! Operation lines (one case = one generated file and everything derived from it):
//!
//! ```text
//! file <fmt> <opts> <nvars> <tt|-> <hex>      a valid generated file; fmt = dimacs|nnf|aiger,
//!                                              opts = bit mask (1 var_order, 2 clause_tree),
//!                                              tt = expected truth table(s) of the root(s)
//! pair <nvars> <tt|-> <hex aag> <hex aig>     the same AIGER problem in ASCII and binary
//! usebase <1|2>                                make the first / second file of the pair the base
//! truncall                                     parse every proper prefix of the base
//! muts <seed> <count>                          parse <count> seeded byte mutations of the base
//! raw <fmt> <opts> <hex>                       parse arbitrary bytes (stress inputs)
//! big <fmt> <opts> <kind> <n>                  an input too long for a line (nesting, chains)
//! aig19 <seed> <I> <L> <A> <O> <B> <C> <J> <F> <sym> <first|all>
//!                                              an AIGER 1.9 problem built from the seed: I inputs,
//!                                              L latches (reset absent / 0 / 1 / the latch itself),
//!                                              A AND gates, O outputs, B bad, C constraints, justice
//!                                              properties of the sizes J (`2,0,3` or `-`), F fairness
//!                                              constraints, symbols (0 none, 1 some, 2 all incl.
//!                                              repeated entries; i l o b c j f), comments; written
//!                                              as aag (canonical numbers), as aag with permuted
//!                                              variable numbers / unused numbers / shuffled AND
//!                                              lines, and as aig; the aag and the aig become the
//!                                              bases of `truncall` / `muts` / `usebase`
//! bnd <fmt> <opts> <hex>                       a valid file with one numeric field (or a coupled
//!                                              group) replaced by a boundary value
//! latchinit <hex> <0|1|- per latch>            all latch reset values through the accessor
//! dbgfmt <hex>                                 `{:?}` of the parsed problem (kf-candidate cases)
//! ```
//!
//! AIGER 1.9 oracles (`aig19`): all three files parse; the aag and the aig parse to equal
//! `Problem`s (`aag-aig-differ`, with the list of differing fields); independently of that, for
//! each of the three parses every literal of every section (latch next-state functions, outputs,
//! bad, constraints, every justice property, fairness) evaluates on all assignments of inputs and
//! latches to what the generator's own evaluation of the model gives (`aiger19-section-wrong`),
//! the counts are those written, names of every section and of inputs / latches are those written
//! (`aiger19-names-wrong`), the reset value of the first latch is the one written
//! (`aiger19-latch-init-wrong`; all latches with `all`: see the kf-candidates), `map_aiger_literal`
//! maps every number of the file to the function of that variable, unused numbers to UNDEF
//! (`aiger19-map-wrong`), accessors and `Debug` rendering agree, `Problem::simplify` keeps the
//! functions of all sections.  The bad / constraint / justice / fairness literals and the fairness
//! names have no accessor: they are read from the derived `Debug` rendering of `AIGERDetails`.
//!
//! Boundary values (`bnd`): 0, ±1, MIN/MAX of i32 u32 i64 u64 (= usize) and their neighbours, 2^31,
//! 2^32, 2^63, 2^64, usize::MAX/16 (the largest count the parsers take) ± 1, Literal::MAX_INPUT ± 1,
//! 30 digit numbers, leading zeros, signs, in every numeric field of DIMACS (`p cnf`, `p sat`,
//! literals, `c <var>`, `c vo`, `c co`), NNF (header, `L`, `A`/`O`/`X` arities and children, the
//! conflict variable, order lines) and AIGER (nine header counts, input / latch / reset / output /
//! bad / constraint / justice count / justice / fairness / AND literals, symbol indices; for aig
//! the deltas as 7-bit integers incl. over-long and truncated ones).  Oracle: a problem or a
//! diagnostic (the harness is built with overflow checks), and every accepted problem is
//! consistent in itself (`sanity`: all literals name existing inputs / gates, counts fit, names
//! lists empty or complete, variable order a permutation; signature `parsed-problem-insane`;
//! applied to every accepted input of the stream, also mutations and prefixes).
//!
//! kf-candidates (`gen --kf-candidates 1`, off by default): dedicated cases `kf-candidate-…` for
//! defects of the unchanged code that are not (yet) listed findings: the latch reset values
//! (`TVBitVec`) and the recursion of `Circuit::find_cycle`.
//!
//! Oracles: a valid file parses (`ok`), the parsed circuit evaluates to the expected truth
//! table(s), so does `Problem::simplify` of it; ASCII and binary AIGER parse to equal `Problem`s;
//! no input makes a parser (or `load_file`'s diagnostic rendering, or `simplify` of a parsed
//! problem) panic, abort, overflow the stack or hang.  Inputs that could make the parser allocate
//! by a number in the file (a digit run of 8+ characters) or recurse deeply are parsed in a child
//! process (`c18_parsers --one-input <fmt> <opts> <path>`) with an address-space limit, so that an
//! abort is observed instead of killing the run.
//!
//! Known findings.  Five classes of parser defects are listed findings (see `known_class`); each
//! has a dedicated deterministic case `case kf-parser-<name>` in which the failure is reported
//! (`sig = parser-panic | parser-abort`).  Outside these cases an input of the randomly mutated
//! part that fails *and* falls into one of the narrowly defined classes is counted in the
//! statistics ("known class … tolerated") instead of reported; every other failure is reported.
//! Inside a kf case a failure of a different class gets the signature `parser-failure-unexpected`.
use oxidd_parser::{AIGERDetails, Circuit, GateKind, Literal, ParseOptions, ParseOptionsBuilder, Problem, ProblemDetails};
use oxv::*;
use std::collections::BTreeMap;
use std::io::Write;
use std::panic::{AssertUnwindSafe, catch_unwind};

// ------------------------------------------------------------------ calling the parsers

#[derive(Clone, Copy, PartialEq, Eq, Debug)]
enum Fmt {
    Dimacs,
    Nnf,
    Aiger,
}
fn fmt_of(s: &str) -> Option<Fmt> {
    match s {
        "dimacs" => Some(Fmt::Dimacs),
        "nnf" => Some(Fmt::Nnf),
        "aiger" => Some(Fmt::Aiger),
        _ => None,
    }
}
fn fmt_name(f: Fmt) -> &'static str {
    match f {
        Fmt::Dimacs => "dimacs",
        Fmt::Nnf => "nnf",
        Fmt::Aiger => "aiger",
    }
}
fn fmt_ext(f: Fmt) -> &'static str {
    match f {
        Fmt::Dimacs => "cnf",
        Fmt::Nnf => "nnf",
        Fmt::Aiger => "aag",
    }
}
fn options(opts: u32) -> ParseOptions {
    ParseOptionsBuilder::default().var_order(opts & 1 != 0).clause_tree(opts & 2 != 0).build().unwrap()
}

/// the library entry points with the unit error type (as the crate's own tests call them)
fn parse_plain(fmt: Fmt, opts: u32, input: &[u8]) -> Option<Problem> {
    let o = options(opts);
    match fmt {
        Fmt::Dimacs => oxidd_parser::dimacs::parse::<()>(&o)(input).ok().map(|x| x.1),
        Fmt::Nnf => oxidd_parser::nnf::parse::<()>(&o)(input).ok().map(|x| x.1),
        Fmt::Aiger => oxidd_parser::aiger::parse::<()>(&o)(input).ok().map(|x| x.1),
    }
}

#[derive(Debug, PartialEq, Eq, Clone, Copy)]
enum Verdict {
    Ok,
    Diag,
    Panic,
    /// only from the child process: killed by a signal (abort, stack overflow, out of memory)
    Abort,
    Hang,
    /// a problem was returned that is not consistent in itself (see `sanity`)
    Insane,
}

/// everything that is run on one input, in-process: the parser, the diagnostic path of
/// `load_file`, and `simplify` of a successfully parsed problem
fn run_all_in_process(fmt: Fmt, opts: u32, input: &[u8], tmp: &std::path::Path, with_load_file: bool) -> (Verdict, Option<Problem>, String) {
    // `with_load_file` is false in the child process, which only exercises the parser itself
    // (`simplify` sizes a bit set by the declared number of inputs: not the parser's business)
    let with_simplify = with_load_file;
    let r = catch_unwind(AssertUnwindSafe(|| parse_plain(fmt, opts, input)));
    let (v, p) = match r {
        Ok(Some(p)) => (Verdict::Ok, Some(p)),
        Ok(None) => (Verdict::Diag, None),
        Err(e) => return (Verdict::Panic, None, format!("parser: {}", panic_msg(&e))),
    };
    if let Some(q) = &p {
        if let Err(m) = sanity_guarded(q) {
            return (Verdict::Insane, None, format!("accepted, but the problem is inconsistent: {}", m));
        }
    }
    if let (Some(p), true) = (&p, with_simplify) {
        let r = catch_unwind(AssertUnwindSafe(|| p.simplify().is_ok()));
        if let Err(e) = r {
            return (Verdict::Panic, None, format!("Problem::simplify of the parsed problem: {}", panic_msg(&e)));
        }
    }
    if with_load_file {
        // the public convenience entry point, which renders the diagnostic with codespan
        let path = tmp.join(format!("in.{}", fmt_ext(fmt)));
        if std::fs::write(&path, input).is_ok() {
            let o = options(opts);
            let r = catch_unwind(AssertUnwindSafe(|| oxidd_parser::load_file(&path, &o).is_some()));
            match r {
                Ok(ok) => {
                    if ok != (v == Verdict::Ok) {
                        return (Verdict::Panic, None, "load_file and parse disagree on success".into());
                    }
                }
                Err(e) => return (Verdict::Panic, None, format!("load_file: {}", panic_msg(&e))),
            }
        }
    }
    (v, p, String::new())
}

fn panic_msg(e: &Box<dyn std::any::Any + Send>) -> String {
    if let Some(s) = e.downcast_ref::<String>() {
        s.clone()
    } else if let Some(s) = e.downcast_ref::<&str>() {
        s.to_string()
    } else {
        "?".into()
    }
}

// ---- child process with an address space limit

#[repr(C)]
struct RLimit {
    cur: u64,
    max: u64,
}
unsafe extern "C" {
    fn setrlimit(resource: i32, rlim: *const RLimit) -> i32;
}
const RLIMIT_AS: i32 = 9; // Linux

/// address space of the child process in MB (boundary value inputs: `BOUNDS_CHILD_MEM_MB`)
const CHILD_MEM_MB: u64 = 3072;
const BOUNDS_CHILD_MEM_MB: u64 = 256;

/// `c18_parsers --one-input <fmt> <opts> <path> [<MB>]`: exit 0 = problem, 1 = diagnostic, 101 = panic,
/// 4 = inconsistent problem
fn child_main(args: &[String]) -> ! {
    let mb: u64 = args.get(5).and_then(|s| s.parse().ok()).unwrap_or(CHILD_MEM_MB);
    let lim = RLimit { cur: mb << 20, max: mb << 20 };
    unsafe {
        setrlimit(RLIMIT_AS, &lim);
    }
    let fmt = fmt_of(&args[2]).unwrap();
    let opts: u32 = args[3].parse().unwrap();
    let input = std::fs::read(&args[4]).unwrap();
    let tmp = std::env::temp_dir();
    let (v, _, msg) = run_all_in_process(fmt, opts, &input, &tmp, false);
    std::process::exit(match v {
        Verdict::Ok => 0,
        Verdict::Diag => 1,
        Verdict::Insane => {
            eprintln!("{}", msg);
            4
        }
        _ => 101,
    })
}

fn run_in_child(fmt: Fmt, opts: u32, input: &[u8], tmp: &std::path::Path, mem_mb: u64) -> (Verdict, String) {
    use std::process::{Command, Stdio};
    let exe = std::env::current_exe().unwrap();
    let path = tmp.join("one-input.bin");
    if let Err(e) = std::fs::write(&path, input) {
        return (Verdict::Hang, format!("cannot write the input file for the child: {}", e));
    }
    let mut ch = match Command::new(exe)
        .args(["--one-input", fmt_name(fmt), &opts.to_string()])
        .arg(&path)
        .arg(mem_mb.to_string())
        // (only the first line of a panic / abort message is used; symbolising a backtrace costs
        // 80 ms per failing child)
        .env("RUST_BACKTRACE", "0")
        .stdin(Stdio::null())
        .stdout(Stdio::null())
        .stderr(Stdio::piped())
        .spawn()
    {
        Ok(c) => c,
        Err(e) => return (Verdict::Hang, format!("cannot spawn child: {}", e)),
    };
    let t0 = std::time::Instant::now();
    let mut polls = 0u32;
    loop {
        match ch.try_wait() {
            Ok(Some(st)) => {
                // what the child wrote to stderr: the panic message / the allocation failure /
                // the stack overflow notice of the Rust runtime
                let mut err = String::new();
                if let Some(mut e) = ch.stderr.take() {
                    use std::io::Read;
                    let mut buf = Vec::new();
                    let _ = e.read_to_end(&mut buf);
                    err = String::from_utf8_lossy(&buf).chars().take(300).collect::<String>().replace('\n', " ");
                }
                return match st.code() {
                    Some(0) => (Verdict::Ok, String::new()),
                    Some(1) => (Verdict::Diag, String::new()),
                    Some(101) => (Verdict::Panic, format!("panic in the child process: {}", err)),
                    Some(4) => (Verdict::Insane, err),
                    Some(c) => (Verdict::Abort, format!("child exited with status {}: {}", c, err)),
                    None => (Verdict::Abort, format!("child killed by a signal ({}): {}", st, err)),
                };
            }
            Ok(None) => {
                // a hang is judged by the CPU time the child has used (20 s), not by wall-clock
                // time: on a loaded machine a starved child may need long for a millisecond of work
                // (one dry run under heavy background load reported a correct parser as hanging);
                // 600 s of wall-clock time remain as a backstop
                let cpu_s = std::fs::read_to_string(format!("/proc/{}/stat", ch.id()))
                    .ok()
                    .and_then(|st| st.rsplit_once(')').map(|x| x.1.to_string()))
                    .and_then(|rest| {
                        let f: Vec<&str> = rest.split_whitespace().collect();
                        // fields after the command: state is f[0]; utime, stime are the 14th and 15th of the line
                        Some((f.get(11)?.parse::<u64>().ok()? + f.get(12)?.parse::<u64>().ok()?) / 100)
                    })
                    .unwrap_or(0);
                if cpu_s >= 20 || t0.elapsed().as_secs() >= 600 {
                    let _ = ch.kill();
                    let _ = ch.wait();
                    return (Verdict::Hang, format!("child did not finish within 20 s of CPU time ({} s wall-clock)", t0.elapsed().as_secs()));
                }
                // (a child that only parses a short input is done within a millisecond)
                polls += 1;
                std::thread::sleep(std::time::Duration::from_micros(if polls <= 40 { 150 } else { 2000 }));
            }
            Err(e) => return (Verdict::Hang, format!("wait failed: {}", e)),
        }
    }
}

/// does the input contain a number of 8 or more digits (the parsers reserve memory by the
/// numbers of the header / of order lines)?
fn has_long_number(input: &[u8]) -> bool {
    let mut run = 0;
    for &b in input {
        if b.is_ascii_digit() {
            run += 1;
            if run >= 8 {
                return true;
            }
        } else {
            run = 0;
        }
    }
    false
}
/// more than 2000 opening parentheses / brackets (the SAT and tree parsers are recursive)?
fn deeply_nested(input: &[u8]) -> bool {
    input.iter().filter(|&&b| b == b'(' || b == b'[').count() > 2000
}
/// could this input make the parser allocate by a number in the file or recurse deeply?
fn risky(input: &[u8]) -> bool {
    has_long_number(input) || deeply_nested(input)
}

/// The classes of failing inputs that are listed known findings (Circuit-3 material).  A failure
/// belongs to a class only if the observed failure *and* the shape of the input match.
fn known_class(opts: u32, input: &[u8], v: Verdict, in_child: bool, msg: &str) -> Option<&'static str> {
    let lines = || input.split(|&b| b == b'\n');
    match v {
        // allocation sized by a number of the file: `capacity overflow` panic or allocation
        // failure abort, only observable in the child process (digit run of 8+)
        Verdict::Panic if in_child && has_long_number(input) && msg.contains("capacity overflow") => Some("alloc"),
        Verdict::Abort if in_child && has_long_number(input) && msg.contains("memory allocation of") => Some("alloc"),
        // recursion depth = nesting depth of the input
        // (the Rust runtime prints "has overflowed its stack" only when the faulting address lies in
        // the guard range it computed for the thread; for the main thread of the child that range
        // depends on the stack's random placement and on the size of the environment, so a stack
        // exhaustion occasionally surfaces as a plain SIGSEGV without the message — seen once in a
        // dry run on a fresh sandbox; the parsers contain no `unsafe` code that could fault otherwise)
        Verdict::Abort if in_child && deeply_nested(input) && (msg.contains("overflowed its stack") || msg.contains("SIGSEGV")) => Some("deep-nesting"),
        // recursion depth = length of a chain of gates (Circuit::find_cycle recurses per gate)
        Verdict::Abort if in_child && (msg.contains("overflowed its stack") || msg.contains("SIGSEGV")) && input.iter().filter(|&&b| b == b'\n').count() > 50000 => Some("deep-chain"),
        // `max_clause.1 != num_clauses.1 - 1` with a clause tree and `p cnf <n> 0`
        Verdict::Panic
            if !msg.starts_with("load_file:")
                && msg.contains("subtract with overflow")
                && opts & 2 != 0
                && lines().any(|l| l.starts_with(b"c") && l.windows(2).any(|w| w == b"co"))
                && lines().any(|l| {
                    let w: Vec<&[u8]> = l.split(|b| b.is_ascii_whitespace()).filter(|x| !x.is_empty()).collect();
                    w.len() == 4 && w[0] == b"p" && w[1] == b"cnf" && !w[3].is_empty() && w[3].iter().all(|&b| b == b'0')
                }) =>
        {
            Some("co-zero-clauses")
        }
        // `c vo []`: an order tree without leaves passes `tree()` and trips `VarSet::check_valid`
        Verdict::Panic
            if !msg.starts_with("load_file:")
                && msg.contains("order_tree.is_none()")
                && opts & 1 != 0
                && lines().any(|l| l.starts_with(b"c") && l.windows(2).any(|w| w == b"vo") && !l.iter().any(|b| b.is_ascii_digit())) =>
        {
            Some("empty-order-tree")
        }
        // the diagnostic renderer computes the offset of a placeholder span (`&[]`) that does not
        // point into the input; the parser itself returned a diagnostic
        Verdict::Panic if !in_child && msg.starts_with("load_file:") && msg.contains("subtract with overflow") => Some("diag-span"),
        _ => None,
    }
}

// ------------------------------------------------------------------ evaluating parsed problems

fn eval_lit(c: &Circuit, l: Literal, asg: u32, memo: &mut Vec<u8>, depth: usize) -> Option<bool> {
    if l == Literal::FALSE {
        return Some(false);
    }
    if l == Literal::TRUE {
        return Some(true);
    }
    if let Some(i) = l.get_input() {
        if i >= 32 {
            return None;
        }
        return Some((((asg >> i) & 1) != 0) ^ l.is_negative());
    }
    let g = l.get_gate_no()?;
    if g >= memo.len() || depth > 10_000 {
        return None;
    }
    match memo[g] {
        1 => return Some(l.is_negative()),
        2 => return Some(!l.is_negative()),
        3 => return None, // cycle
        _ => {}
    }
    memo[g] = 3;
    let gate = c.gate_for_no(g)?;
    let mut acc = match gate.kind {
        GateKind::And => true,
        _ => false,
    };
    for &x in gate.inputs {
        let v = eval_lit(c, x, asg, memo, depth + 1)?;
        match gate.kind {
            GateKind::And => acc &= v,
            GateKind::Or => acc |= v,
            GateKind::Xor => acc ^= v,
        }
    }
    memo[g] = if acc { 2 } else { 1 };
    Some(acc ^ l.is_negative())
}

/// the literals whose functions the expected truth tables describe
fn roots_of(p: &Problem) -> Vec<Literal> {
    match &p.details {
        ProblemDetails::Root(l) => vec![*l],
        ProblemDetails::AIGER(a) => a.outputs().iter().chain(a.latches().iter()).copied().collect(),
    }
}

/// truth tables of all roots, as a string of 0/1 (root-major, assignment-minor)
fn truth_tables(p: &Problem, nvars: usize) -> Option<String> {
    let mut s = String::new();
    for r in roots_of(p) {
        for asg in 0..(1u32 << nvars) {
            let mut memo = vec![0u8; p.circuit.num_gates()];
            s.push(if eval_lit(&p.circuit, r, asg, &mut memo, 0)? { '1' } else { '0' });
        }
    }
    Some(s)
}

// ------------------------------------------------------------------ sanity of accepted problems

/// does the literal name something that exists in the circuit?
fn lit_in_range(c: &Circuit, l: Literal) -> bool {
    if l == Literal::FALSE || l == Literal::TRUE {
        return true;
    }
    if let Some(g) = l.get_gate_no() {
        return g < c.num_gates();
    }
    match l.get_input() {
        Some(i) => i < c.inputs().len(),
        None => false,
    }
}

/// The number of latches up to which the latch reset values are read (accessor and `Debug`).
/// `TVBitVec` keeps all values in its first block: index 16 is out of bounds (kf-candidate
/// `latch-init-17`), so problems with more latches are only checked through the other accessors.
const MAX_LATCHES_FOR_DEBUG: usize = 16;

/// Basic consistency of a problem a parser accepted: every literal of every gate and of every
/// section names an input or gate that exists, the counts fit together, the names lists are empty
/// or as long as their section, the accessors agree with the `Debug` rendering.
fn sanity(p: &Problem) -> Result<(), String> {
    let c = &p.circuit;
    let dims = format!("({} inputs, {} gates)", c.inputs().len(), c.num_gates());
    for g in 0..c.num_gates() {
        let Some(gate) = c.gate_for_no(g) else {
            return Err(format!("gate {} is not accessible {}", g, dims));
        };
        for &x in gate.inputs {
            if !lit_in_range(c, x) {
                return Err(format!("gate {} has the input {:?}, which is not in the circuit {}", g, x, dims));
            }
        }
    }
    if let Some(order) = c.inputs().order() {
        if !order.is_empty() {
            let mut o = order.to_vec();
            o.sort_unstable();
            if o.len() != c.inputs().len() || o.iter().enumerate().any(|(k, &v)| k != v) {
                return Err(format!("the variable order is not a permutation of 0..{}", c.inputs().len()));
            }
        }
    }
    match &p.details {
        ProblemDetails::Root(l) => {
            if !lit_in_range(c, *l) {
                return Err(format!("the root {:?} is not in the circuit {}", l, dims));
            }
        }
        ProblemDetails::AIGER(a) => {
            if a.inputs() + a.latches().len() != c.inputs().len() {
                return Err(format!("{} inputs + {} latches, but the circuit has {} inputs", a.inputs(), a.latches().len(), c.inputs().len()));
            }
            for (name, list) in [("latches", a.latches()), ("outputs", a.outputs())] {
                for (k, &l) in list.iter().enumerate() {
                    if !lit_in_range(c, l) {
                        return Err(format!("{}[{}] = {:?} is not in the circuit {}", name, k, l, dims));
                    }
                }
            }
            if a.latches().len() <= MAX_LATCHES_FOR_DEBUG {
                let s = sections(a)?;
                s.agrees_with_accessors(a)?;
                let flat_just: Vec<Literal> = s.justice.iter().flatten().copied().collect();
                for (name, list) in [("bad", &s.bad), ("invariants", &s.invariants), ("justice", &flat_just), ("fairness", &s.fairness)] {
                    for (k, &l) in list.iter().enumerate() {
                        if !lit_in_range(c, l) {
                            return Err(format!("{}[{}] = {:?} is not in the circuit {}", name, k, l, dims));
                        }
                    }
                }
                let lens = [s.outputs.len(), s.bad.len(), s.invariants.len(), s.justice.len(), s.fairness.len()];
                for (k, name) in SECTION_NAMES.iter().enumerate() {
                    if !s.names[k].is_empty() && s.names[k].len() != lens[k] {
                        return Err(format!("{} names for {} {} entries", s.names[k].len(), lens[k], name));
                    }
                }
            }
        }
    }
    Ok(())
}
fn sanity_guarded(p: &Problem) -> Result<(), String> {
    match catch_unwind(AssertUnwindSafe(|| sanity(p))) {
        Ok(r) => r,
        Err(e) => Err(format!("panic while reading the accepted problem: {}", panic_msg(&e))),
    }
}

// ------------------------------------------------------------------ reading `AIGERDetails`
//
// `AIGERDetails` has accessors for the latches, the outputs and the names of outputs / bad /
// invariants / justice only; the bad, invariant, justice and fairness literals (and the fairness
// names) are read from the derived `Debug` rendering, which lists every field.

#[derive(Debug, Clone, PartialEq)]
enum Dv {
    Atom(String),
    Str(String),
    List(Vec<Dv>),
    Struct(Vec<(String, Dv)>),
    Tuple(String, Vec<Dv>),
}
struct DvRd<'a> {
    s: &'a str,
    pos: usize,
}
impl DvRd<'_> {
    fn peek(&self) -> Option<char> {
        self.s[self.pos..].chars().next()
    }
    fn bump(&mut self) {
        if let Some(c) = self.peek() {
            self.pos += c.len_utf8();
        }
    }
    fn ws(&mut self) {
        while matches!(self.peek(), Some(' ') | Some('\n')) {
            self.bump()
        }
    }
    fn eat(&mut self, c: char) -> bool {
        self.ws();
        if self.peek() == Some(c) {
            self.bump();
            true
        } else {
            false
        }
    }
    /// values up to the closing character, separated by commas
    fn seq(&mut self, close: char, depth: u32) -> Option<Vec<Dv>> {
        let mut v = Vec::new();
        loop {
            if self.eat(close) {
                return Some(v);
            }
            v.push(self.value(depth + 1)?);
            if !self.eat(',') {
                return if self.eat(close) { Some(v) } else { None };
            }
        }
    }
    fn value(&mut self, depth: u32) -> Option<Dv> {
        if depth > 40 {
            return None;
        }
        self.ws();
        match self.peek()? {
            '[' => {
                self.bump();
                Some(Dv::List(self.seq(']', depth)?))
            }
            '"' => {
                self.bump();
                let mut out = String::new();
                loop {
                    let c = self.peek()?;
                    self.bump();
                    match c {
                        '"' => break,
                        '\\' => {
                            let e = self.peek()?;
                            self.bump();
                            match e {
                                'n' => out.push('\n'),
                                't' => out.push('\t'),
                                'r' => out.push('\r'),
                                '0' => out.push('\0'),
                                'u' => {
                                    if self.peek()? != '{' {
                                        return None;
                                    }
                                    self.bump();
                                    let st = self.pos;
                                    while self.peek()? != '}' {
                                        self.bump();
                                    }
                                    out.push(char::from_u32(u32::from_str_radix(&self.s[st..self.pos], 16).ok()?)?);
                                    self.bump();
                                }
                                e => out.push(e),
                            }
                        }
                        c => out.push(c),
                    }
                }
                Some(Dv::Str(out))
            }
            _ => {
                let st = self.pos;
                while let Some(c) = self.peek() {
                    if ",]})({ \n".contains(c) {
                        break;
                    }
                    self.bump();
                }
                let atom = self.s[st..self.pos].to_string();
                if atom.is_empty() {
                    return None;
                }
                if self.peek() == Some('(') {
                    self.bump();
                    return Some(Dv::Tuple(atom, self.seq(')', depth)?));
                }
                if self.s[self.pos..].starts_with(" {") {
                    self.pos += 2;
                    let mut f = Vec::new();
                    loop {
                        if self.eat('}') {
                            break;
                        }
                        self.ws();
                        let st = self.pos;
                        while self.peek()? != ':' {
                            self.bump();
                        }
                        let name = self.s[st..self.pos].to_string();
                        self.bump();
                        f.push((name, self.value(depth + 1)?));
                        if !self.eat(',') {
                            if self.eat('}') {
                                break;
                            }
                            return None;
                        }
                    }
                    return Some(Dv::Struct(f));
                }
                Some(Dv::Atom(atom))
            }
        }
    }
}

/// the `Display` form of a literal back to the literal
fn lit_of_atom(a: &str) -> Option<Literal> {
    match a {
        "⊥" => return Some(Literal::FALSE),
        "⊤" => return Some(Literal::TRUE),
        "+U" => return Some(Literal::UNDEF),
        "-U" => return Some(!Literal::UNDEF),
        _ => {}
    }
    let mut ch = a.chars();
    let neg = match ch.next()? {
        '+' => false,
        '-' => true,
        _ => return None,
    };
    let kind = ch.next()?;
    let n: usize = ch.as_str().parse().ok()?;
    match kind {
        'i' if n <= Literal::MAX_INPUT => Some(Literal::from_input(neg, n)),
        'g' if n <= Literal::MAX_GATE => Some(Literal::from_gate(neg, n)),
        _ => None,
    }
}

const SECTION_NAMES: [&str; 5] = ["outputs", "bad", "invariants", "justice", "fairness"];

/// every field of an `AIGERDetails`
#[derive(Debug, Clone, PartialEq, Default)]
struct Sections {
    inputs: usize,
    latches: Vec<Literal>,
    init: Vec<Option<bool>>,
    outputs: Vec<Literal>,
    bad: Vec<Literal>,
    invariants: Vec<Literal>,
    justice: Vec<Vec<Literal>>,
    fairness: Vec<Literal>,
    map: Vec<Literal>,
    /// names of outputs, bad, invariants, justice, fairness (see `SECTION_NAMES`)
    names: [Vec<Option<String>>; 5],
}

fn sections(a: &AIGERDetails) -> Result<Sections, String> {
    let text = format!("{:?}", a);
    let bad = |what: &str| format!("Debug rendering of AIGERDetails not understood ({}): {}", what, text.chars().take(400).collect::<String>());
    let mut rd = DvRd { s: &text, pos: 0 };
    let Some(Dv::Struct(fields)) = rd.value(0) else {
        return Err(bad("not a struct"));
    };
    let get = |n: &str| fields.iter().find(|(k, _)| k.trim() == n).map(|x| &x.1).ok_or_else(|| bad(&format!("no field {}", n)));
    let lits = |n: &str, v: &Dv| -> Result<Vec<Literal>, String> {
        let Dv::List(xs) = v else {
            return Err(bad(&format!("{} is not a list", n)));
        };
        xs.iter()
            .map(|x| match x {
                Dv::Atom(a) => lit_of_atom(a).ok_or_else(|| bad(&format!("literal {:?} in {}", a, n))),
                _ => Err(bad(&format!("element of {}", n))),
            })
            .collect()
    };
    let names = |n: &str| -> Result<Vec<Option<String>>, String> {
        let Dv::List(xs) = get(n)? else {
            return Err(bad(&format!("{} is not a list", n)));
        };
        xs.iter()
            .map(|x| match x {
                Dv::Atom(a) if a == "None" => Ok(None),
                Dv::Tuple(t, v) if t == "Some" && v.len() == 1 => match &v[0] {
                    Dv::Str(s) => Ok(Some(s.clone())),
                    _ => Err(bad(&format!("name in {}", n))),
                },
                _ => Err(bad(&format!("element of {}", n))),
            })
            .collect()
    };
    let inputs = match get("inputs")? {
        Dv::Atom(a) => a.parse::<usize>().map_err(|_| bad("inputs"))?,
        _ => return Err(bad("inputs")),
    };
    let init = match get("latch_init_values")? {
        Dv::List(xs) => xs
            .iter()
            .map(|x| match x {
                Dv::Atom(a) if a == "-" => Ok(None),
                Dv::Atom(a) if a == "0" => Ok(Some(false)),
                Dv::Atom(a) if a == "1" => Ok(Some(true)),
                _ => Err(bad("latch_init_values element")),
            })
            .collect::<Result<Vec<_>, _>>()?,
        _ => return Err(bad("latch_init_values")),
    };
    let justice = match get("justice")? {
        Dv::List(xs) => xs.iter().map(|x| lits("justice", x)).collect::<Result<Vec<_>, _>>()?,
        _ => return Err(bad("justice")),
    };
    Ok(Sections {
        inputs,
        latches: lits("latches", get("latches")?)?,
        init,
        outputs: lits("outputs", get("outputs")?)?,
        bad: lits("bad", get("bad")?)?,
        invariants: lits("invariants", get("invariants")?)?,
        justice,
        fairness: lits("fairness", get("fairness")?)?,
        map: lits("map", get("map")?)?,
        names: [names("output_names")?, names("bad_names")?, names("invariant_names")?, names("justice_names")?, names("fairness_names")?],
    })
}

impl Sections {
    /// what the accessors return is what `Debug` shows
    fn agrees_with_accessors(&self, a: &AIGERDetails) -> Result<(), String> {
        if self.inputs != a.inputs() || self.latches != a.latches() || self.outputs != a.outputs() {
            return Err(format!("inputs()/latches()/outputs() = {} {:?} {:?} but Debug shows {} {:?} {:?}", a.inputs(), a.latches(), a.outputs(), self.inputs, self.latches, self.outputs));
        }
        if self.init.len() != self.latches.len() {
            return Err(format!("{} latch reset values for {} latches", self.init.len(), self.latches.len()));
        }
        for k in 0..self.latches.len() {
            if a.latch_init_value(k) != self.init[k] {
                return Err(format!("latch_init_value({}) = {:?} but Debug shows {:?}", k, a.latch_init_value(k), self.init[k]));
            }
        }
        for (k, &l) in self.map.iter().enumerate() {
            if a.map_aiger_literal(2 * k) != Some(l) || a.map_aiger_literal(2 * k + 1) != Some(!l) {
                return Err(format!("map_aiger_literal({}) = {:?} but the map in Debug has {:?}", 2 * k, a.map_aiger_literal(2 * k), l));
            }
        }
        if a.map_aiger_literal(2 * self.map.len()).is_some() {
            return Err(format!("map_aiger_literal({}) is defined beyond the map of length {}", 2 * self.map.len(), self.map.len()));
        }
        let lens = [self.outputs.len(), self.bad.len(), self.invariants.len(), self.justice.len()];
        for (s, len) in lens.iter().enumerate() {
            for k in 0..*len + 1 {
                let acc = match s {
                    0 => a.output_name(k),
                    1 => a.bad_name(k),
                    2 => a.invariant_name(k),
                    _ => a.justice_name(k),
                };
                let dbg = self.names[s].get(k).and_then(|x| x.as_deref());
                if acc != dbg {
                    return Err(format!("name accessor of {}[{}] = {:?} but Debug shows {:?}", SECTION_NAMES[s], k, acc, dbg));
                }
            }
        }
        Ok(())
    }
    /// the fields in which two parses differ
    fn diff(&self, o: &Sections) -> Vec<&'static str> {
        let mut d = Vec::new();
        let mut add = |c: bool, n: &'static str| {
            if c {
                d.push(n)
            }
        };
        add(self.inputs != o.inputs, "inputs");
        add(self.latches != o.latches, "latches");
        add(self.init != o.init, "latch_init_values");
        add(self.outputs != o.outputs, "outputs");
        add(self.bad != o.bad, "bad");
        add(self.invariants != o.invariants, "invariants");
        add(self.justice != o.justice, "justice");
        add(self.fairness != o.fairness, "fairness");
        add(self.map != o.map, "map");
        add(self.names != o.names, "names");
        d
    }
}

// ------------------------------------------------------------------ AIGER 1.9 problems
//
// One model (canonical numbering: inputs 1..I, latches I+1..I+L, AND gates after them in
// topological order, right-hand sides ordered) is written three times: as `aag` with the canonical
// numbers, as `aag` with permuted variable numbers, unused numbers, shuffled AND lines and swapped
// right-hand sides, and as `aig`.  The model is rebuilt from the seed and the shape on the
// operation line.

#[derive(Clone, Debug)]
struct Shape {
    i: usize,
    l: usize,
    a: usize,
    o: usize,
    b: usize,
    c: usize,
    j: Vec<usize>,
    f: usize,
    /// 0 no symbol table, 1 some entries, 2 an entry for everything (and some twice)
    sym: u32,
}

#[derive(Clone, Copy, PartialEq, Eq, Debug)]
enum Reset {
    Absent,
    Zero,
    One,
    Own,
}

struct A19 {
    sh: Shape,
    /// right-hand sides (canonical literals), rhs0 >= rhs1, both below the gate's own literal
    gates: Vec<(usize, usize)>,
    latch: Vec<(usize, Reset)>,
    out: Vec<usize>,
    bad: Vec<usize>,
    inv: Vec<usize>,
    just: Vec<Vec<usize>>,
    fair: Vec<usize>,
    /// symbol table entries in file order: kind (i l o b c j f), index, name
    syms: Vec<(char, usize, String)>,
    comment: Option<String>,
    /// how many of the optional header counts B C J F are written
    hdr_opt: usize,
}

const SYM_NAMES: &[&str] = &["x", "y1", "a b", "~reset", "out[3]", "ü⊤", "two  spaces", "0", "c", "i0", "l1 z", "-", "\"q\"", "back\\slash", "tab\there", "justice_0", "AG(!bad)", "c1 c", "f"];

impl A19 {
    fn build(seed: u64, sh: &Shape) -> A19 {
        let mut rng = Rng::new(seed);
        let m = sh.i + sh.l + sh.a;
        let first_and = sh.i + sh.l + 1;
        let mut gates = Vec::new();
        for k in 0..sh.a {
            let lhs = 2 * (first_and + k) as u64;
            // now and then a deep chain: the previous variable
            let x = if rng.chance(1, 3) && lhs >= 4 { lhs - 2 + rng.below(2) } else { rng.below(lhs) } as usize;
            let y = rng.below(lhs) as usize;
            gates.push((x.max(y), x.min(y)));
        }
        let lit = |rng: &mut Rng| rng.below(2 * (m as u64 + 1)) as usize;
        let forms = [Reset::Absent, Reset::Zero, Reset::One, Reset::Own];
        let base = rng.below(4) as usize;
        let latch = (0..sh.l).map(|k| (lit(&mut rng), if rng.chance(3, 4) { forms[(base + k) % 4] } else { *rng.pick(&forms) })).collect();
        let out = (0..sh.o).map(|_| lit(&mut rng)).collect();
        let bad = (0..sh.b).map(|_| lit(&mut rng)).collect();
        let inv = (0..sh.c).map(|_| lit(&mut rng)).collect();
        let just = sh.j.iter().map(|&n| (0..n).map(|_| lit(&mut rng)).collect()).collect();
        let fair = (0..sh.f).map(|_| lit(&mut rng)).collect();
        let mut syms = Vec::new();
        if sh.sym > 0 {
            for (kind, n) in [('i', sh.i), ('l', sh.l), ('o', sh.o), ('b', sh.b), ('c', sh.c), ('j', sh.j.len()), ('f', sh.f)] {
                for k in 0..n {
                    if sh.sym == 2 || rng.chance(1, 2) {
                        syms.push((kind, k, rng.pick(SYM_NAMES).to_string()));
                        if sh.sym == 2 && rng.chance(1, 5) {
                            // a second entry for the same thing: the names are joined
                            syms.push((kind, k, rng.pick(SYM_NAMES).to_string()));
                        }
                    }
                }
            }
            if rng.chance(1, 3) {
                rng.shuffle(&mut syms);
            }
        }
        let comment = match rng.below(4) {
            0 => Some("c\nsome comment\ni0 not a symbol\n".to_string()),
            1 => Some("c text on the first line\n\n\x01\u{ff}binary rubbish".to_string()),
            _ => None,
        };
        let need = if sh.f > 0 { 4 } else if !sh.j.is_empty() { 3 } else if sh.c > 0 { 2 } else if sh.b > 0 { 1 } else { 0 };
        let hdr_opt = need + rng.below(5 - need as u64) as usize;
        A19 { sh: sh.clone(), gates, latch, out, bad, inv, just, fair, syms, comment, hdr_opt }
    }
    fn m(&self) -> usize {
        self.sh.i + self.sh.l + self.sh.a
    }
    /// value of a canonical literal under an assignment of inputs and latch outputs
    fn eval(&self, lit: usize, asg: u32) -> bool {
        let nv = self.sh.i + self.sh.l;
        let mut vals = vec![false; self.m() + 1];
        for v in 1..=nv {
            vals[v] = ((asg >> (v - 1)) & 1) != 0;
        }
        for (k, (x, y)) in self.gates.iter().enumerate() {
            vals[nv + 1 + k] = (vals[x / 2] ^ (x % 2 == 1)) && (vals[y / 2] ^ (y % 2 == 1));
        }
        vals[lit / 2] ^ (lit % 2 == 1)
    }
    fn tt(&self, lit: usize) -> String {
        (0..(1u32 << (self.sh.i + self.sh.l))).map(|a| if self.eval(lit, a) { '1' } else { '0' }).collect()
    }
    fn expected_init(&self) -> Vec<Option<bool>> {
        self.latch.iter().map(|x| match x.1 { Reset::Absent | Reset::Zero => Some(false), Reset::One => Some(true), Reset::Own => None }).collect()
    }
    /// expected names of kind `kind`: `n` entries, several symbol entries are joined by a space
    fn expected_names(&self, kind: char, n: usize) -> Vec<Option<String>> {
        let mut v: Vec<Option<String>> = vec![None; n];
        for (k, idx, name) in &self.syms {
            if *k == kind {
                v[*idx] = Some(match v[*idx].take() {
                    Some(old) => format!("{} {}", old, name),
                    None => name.clone(),
                });
            }
        }
        v
    }
    fn header(&self, magic: &str, mfile: usize) -> Vec<String> {
        let mut h = vec![magic.to_string(), mfile.to_string(), self.sh.i.to_string(), self.sh.l.to_string(), self.sh.o.to_string(), self.sh.a.to_string()];
        for n in [self.sh.b, self.sh.c, self.sh.j.len(), self.sh.f].iter().take(self.hdr_opt) {
            h.push(n.to_string());
        }
        h
    }
    /// the lines of the property sections (outputs, bad, constraints, justice, fairness)
    fn section_lines(&self, tl: &dyn Fn(usize) -> usize) -> Vec<Vec<String>> {
        let mut ls: Vec<Vec<String>> = Vec::new();
        for x in self.out.iter().chain(&self.bad).chain(&self.inv) {
            ls.push(vec![tl(*x).to_string()]);
        }
        for js in &self.just {
            ls.push(vec![js.len().to_string()]);
        }
        for x in self.just.iter().flatten().chain(&self.fair) {
            ls.push(vec![tl(*x).to_string()]);
        }
        ls
    }
    fn tail(&self, out: &mut Vec<u8>, st: &LineStyle, rng: &mut Rng) {
        for (kind, idx, name) in &self.syms {
            out.extend_from_slice(format!("{}{}{}{}", kind, idx, if rng.chance(1, 8) { "\t" } else { " " }, name).as_bytes());
            if rng.chance(1, 6) {
                out.extend_from_slice(b" \t");
            }
            out.extend_from_slice(st.eol.as_bytes());
        }
        if let Some(c) = &self.comment {
            // (the text contains a byte that is not UTF-8 on purpose)
            out.extend(c.chars().map(|ch| if (ch as u32) < 256 { ch as u32 as u8 } else { b'?' }));
        }
    }
    /// ASCII; returns the file, the map canonical variable -> variable number in the file, and M
    fn render_aag(&self, rng: &mut Rng, renumber: bool) -> (Vec<u8>, Vec<usize>, usize) {
        let mc = self.m();
        let (pi, mfile): (Vec<usize>, usize) = if renumber {
            let mfile = mc + rng.below(4) as usize;
            let mut slots: Vec<usize> = (1..=mfile).collect();
            rng.shuffle(&mut slots);
            let mut pi = vec![0];
            pi.extend_from_slice(&slots[..mc]);
            (pi, mfile)
        } else {
            ((0..=mc).collect(), mc)
        };
        let tl = |x: usize| 2 * pi[x / 2] + (x & 1);
        let st = LineStyle::pick(rng);
        let mut out = Vec::new();
        st.line(&mut out, &self.header("aag", mfile), rng);
        for k in 0..self.sh.i {
            st.line(&mut out, &[tl(2 * (k + 1)).to_string()], rng);
        }
        for (k, (next, reset)) in self.latch.iter().enumerate() {
            let own = tl(2 * (self.sh.i + 1 + k));
            let mut t = vec![own.to_string(), tl(*next).to_string()];
            match reset {
                Reset::Absent => {}
                Reset::Zero => t.push("0".into()),
                Reset::One => t.push("1".into()),
                Reset::Own => t.push(own.to_string()),
            }
            st.line(&mut out, &t, rng);
        }
        for l in self.section_lines(&tl) {
            st.line(&mut out, &l, rng);
        }
        let mut order: Vec<usize> = (0..self.sh.a).collect();
        if renumber {
            rng.shuffle(&mut order);
        }
        for k in order {
            let (x, y) = self.gates[k];
            let (x, y) = if renumber && rng.chance(1, 2) { (y, x) } else { (x, y) };
            st.line(&mut out, &[tl(2 * (self.sh.i + self.sh.l + 1 + k)).to_string(), tl(x).to_string(), tl(y).to_string()], rng);
        }
        self.tail(&mut out, &st, rng);
        if self.comment.is_none() && st.eol == "\n" && out.last() == Some(&b'\n') && rng.chance(1, 6) {
            out.pop(); // the last line may end with the file
        }
        (out, pi, mfile)
    }
    fn render_aig(&self, rng: &mut Rng) -> Vec<u8> {
        let st = LineStyle::pick(rng);
        let mut out = Vec::new();
        st.line(&mut out, &self.header("aig", self.m()), rng);
        for (k, (next, reset)) in self.latch.iter().enumerate() {
            let mut t = vec![next.to_string()];
            match reset {
                Reset::Absent => {}
                Reset::Zero => t.push("0".into()),
                Reset::One => t.push("1".into()),
                Reset::Own => t.push((2 * (self.sh.i + 1 + k)).to_string()),
            }
            st.line(&mut out, &t, rng);
        }
        for l in self.section_lines(&|x| x) {
            st.line(&mut out, &l, rng);
        }
        for (k, (x, y)) in self.gates.iter().enumerate() {
            let lhs = 2 * (self.sh.i + self.sh.l + 1 + k);
            enc7(lhs - x, &mut out);
            enc7(x - y, &mut out);
        }
        self.tail(&mut out, &st, rng);
        out
    }
}

/// white space the parsers accept: tabs or several blanks between numbers, blanks before the end
/// of a line, CR LF
struct LineStyle {
    eol: &'static str,
    loose: bool,
}
impl LineStyle {
    fn pick(rng: &mut Rng) -> LineStyle {
        LineStyle { eol: if rng.chance(1, 8) { "\r\n" } else { "\n" }, loose: rng.chance(1, 4) }
    }
    fn line(&self, out: &mut Vec<u8>, toks: &[String], rng: &mut Rng) {
        for (k, t) in toks.iter().enumerate() {
            if k > 0 {
                out.extend_from_slice(if self.loose && rng.chance(1, 3) { if rng.chance(1, 2) { b"\t" } else { b"  " } } else { b" " });
            }
            out.extend_from_slice(t.as_bytes());
        }
        if self.loose && rng.chance(1, 4) {
            out.extend_from_slice(if rng.chance(1, 2) { b" " } else { b"\t " });
        }
        out.extend_from_slice(self.eol.as_bytes());
    }
}

/// text of a file for a failure message
fn show_bytes(b: &[u8]) -> String {
    let printable = b.iter().all(|&c| c == b'\n' || c == b'\r' || c == b'\t' || (0x20..0x7f).contains(&c));
    if printable { format!("{:?}", String::from_utf8_lossy(b)) } else { format!("hex:{}", hex(b)) }
}

// ------------------------------------------------------------------ scenario

struct Parsers {
    base: Vec<u8>,
    base2: Vec<u8>,
    fmt: Fmt,
    opts: u32,
    tmp: std::path::PathBuf,
    /// parse the next inputs in a child process whatever they look like
    force_child: bool,
    child_mem_mb: u64,
}

fn hex(b: &[u8]) -> String {
    let mut s = String::with_capacity(2 * b.len());
    for x in b {
        s.push_str(&format!("{:02x}", x));
    }
    if s.is_empty() { "-".into() } else { s }
}
/// hex of the input, abbreviated for very long inputs (the operation line regenerates them)
fn hex_short(b: &[u8]) -> String {
    if b.len() <= 600 { hex(b) } else { format!("{}…({} bytes)", hex(&b[..300]), b.len()) }
}
fn unhex(s: &str) -> Option<Vec<u8>> {
    if s == "-" {
        return Some(Vec::new());
    }
    if s.len() % 2 != 0 {
        return None;
    }
    (0..s.len() / 2).map(|i| u8::from_str_radix(s.get(2 * i..2 * i + 2)?, 16).ok()).collect()
}

impl Parsers {
    /// parse one input under every guard; report panics / aborts / hangs
    fn check(&self, what: &str, input: &[u8], ctx: &mut Ctx) -> Verdict {
        ctx.count("inputs");
        let in_child = risky(input) || self.force_child;
        let (v, msg) = if in_child {
            ctx.count("inputs parsed in a child process");
            run_in_child(self.fmt, self.opts, input, &self.tmp, self.child_mem_mb)
        } else {
            let (v, _, m) = run_all_in_process(self.fmt, self.opts, input, &self.tmp, true);
            (v, m)
        };
        match v {
            Verdict::Ok => ctx.count("verdict:ok"),
            Verdict::Diag => ctx.count("verdict:diagnostic"),
            Verdict::Panic | Verdict::Abort | Verdict::Hang | Verdict::Insane => {
                let class = known_class(self.opts, input, v, in_child, &msg);
                let kf_case = ctx.case.strip_prefix("case kf-parser-").map(|s| s.to_string());
                let descr = format!("{} {} opts={} input={}: {}", fmt_name(self.fmt), what, self.opts, hex_short(input), msg);
                let sig = match v {
                    Verdict::Panic => "parser-panic",
                    Verdict::Abort => "parser-abort",
                    Verdict::Insane => "parsed-problem-insane",
                    _ => "parser-hang",
                };
                match (class, kf_case) {
                    // a listed finding, reproduced in its dedicated case
                    (Some(c), Some(k)) if k.starts_with(c) => ctx.fail(sig, &format!("[known class {}] {}", c, descr)),
                    // a dedicated case must only show its own class
                    (_, Some(k)) => ctx.fail("parser-failure-unexpected", &format!("[in case kf-parser-{}: class {:?}] {} {}", k, class, sig, descr)),
                    // the random part ran into a listed class: counted, not reported
                    (Some(c), None) => ctx.count(&format!("known class {} hit by a generated input (tolerated)", c)),
                    (None, None) => ctx.fail(sig, &descr),
                }
            }
        }
        v
    }

    /// a generated valid file: must parse, and to the expected functions (also after `simplify`)
    fn valid(&self, input: &[u8], nvars: usize, tt: &str, ctx: &mut Ctx) -> (String, Option<Problem>) {
        let (v, p, msg) = run_all_in_process(self.fmt, self.opts, input, &self.tmp, true);
        match v {
            Verdict::Ok => {}
            Verdict::Diag => {
                ctx.fail("valid-file-rejected", &format!("{} opts={} input={}", fmt_name(self.fmt), self.opts, hex(input)));
                return ("rejected".into(), None);
            }
            Verdict::Insane => {
                ctx.fail("parsed-problem-insane", &format!("{} valid file opts={} input={}: {}", fmt_name(self.fmt), self.opts, hex(input), msg));
                return ("insane".into(), None);
            }
            _ => {
                ctx.fail("parser-panic", &format!("{} valid file opts={} input={}: {}", fmt_name(self.fmt), self.opts, hex(input), msg));
                return ("panic".into(), None);
            }
        }
        let p = p.unwrap();
        if tt != "-" {
            match truth_tables(&p, nvars) {
                Some(got) if got == tt => ctx.count("truth table of the parsed problem as expected"),
                got => ctx.fail("parsed-function-wrong", &format!("{} opts={} input={}: expected truth table {} got {:?}", fmt_name(self.fmt), self.opts, hex(input), tt, got)),
            }
            match catch_unwind(AssertUnwindSafe(|| p.simplify())) {
                Ok(Ok((q, _))) => match truth_tables(&q, nvars) {
                    Some(got) if got == tt => ctx.count("truth table after Problem::simplify as expected"),
                    got => ctx.fail("simplified-function-wrong", &format!("{} opts={} input={}: expected truth table {} got {:?} after simplify", fmt_name(self.fmt), self.opts, hex(input), tt, got)),
                },
                Ok(Err(l)) => ctx.fail("simplify-error-on-valid-file", &format!("{} input={}: simplify returned Err({:?})", fmt_name(self.fmt), hex(input), l)),
                Err(_) => ctx.fail("simplify-panic", &format!("{} input={}: simplify panicked", fmt_name(self.fmt), hex(input))),
            }
        }
        ("ok".into(), Some(p))
    }
}

// ---- checking a parsed AIGER 1.9 problem against the model it was written from

struct Rep {
    head: String,
    bad: usize,
}
impl Rep {
    fn fail(&mut self, ctx: &mut Ctx, sig: &str, msg: String) {
        self.bad += 1;
        ctx.fail(sig, &format!("{}: {}", self.head, msg));
    }
}

fn tt_of(c: &Circuit, l: Literal, nv: usize) -> Option<String> {
    let mut t = String::new();
    for asg in 0..(1u32 << nv) {
        let mut memo = vec![0u8; c.num_gates()];
        t.push(if eval_lit(c, l, asg, &mut memo, 0)? { '1' } else { '0' });
    }
    Some(t)
}

/// every literal of every section denotes the function the generator wrote there
fn check_functions(rep: &mut Rep, ctx: &mut Ctx, sig: &str, c: &Circuit, s: &Sections, m: &A19) {
    let nv = m.sh.i + m.sh.l;
    let mut sec = |name: String, got: &[Literal], want: &[usize], ctx: &mut Ctx| {
        if got.len() != want.len() {
            rep.fail(ctx, sig, format!("{} has {} entries, {} were written", name, got.len(), want.len()));
            return;
        }
        for k in 0..want.len() {
            let e = m.tt(want[k]);
            let g = tt_of(c, got[k], nv);
            if g.as_deref() == Some(e.as_str()) {
                ctx.count("aiger19: section literals with the function the generator wrote");
            } else {
                rep.fail(ctx, sig, format!("{}[{}] = {:?} (canonical AIGER literal {}) has the truth table {:?}, the generator's is {}", name, k, got[k], want[k], g, e));
            }
        }
    };
    let next: Vec<usize> = m.latch.iter().map(|x| x.0).collect();
    sec("latches".into(), &s.latches, &next, ctx);
    sec("outputs".into(), &s.outputs, &m.out, ctx);
    sec("bad".into(), &s.bad, &m.bad, ctx);
    sec("invariants".into(), &s.invariants, &m.inv, ctx);
    sec("fairness".into(), &s.fairness, &m.fair, ctx);
    if s.justice.len() != m.just.len() {
        rep.fail(ctx, sig, format!("{} justice properties, {} were written", s.justice.len(), m.just.len()));
    } else {
        for (k, want) in m.just.iter().enumerate() {
            sec(format!("justice[{}]", k), &s.justice[k], want, ctx);
        }
    }
}

/// `pi`: canonical variable -> variable number in the file; `mfile`: the file's maximal variable
fn check_a19(what: &str, file: &[u8], p: &Problem, m: &A19, pi: &[usize], mfile: usize, init_all: bool, ctx: &mut Ctx) -> usize {
    let mut rep = Rep { head: format!("{} of the model {:?}, file {}", what, m.sh, show_bytes(file)), bad: 0 };
    let ProblemDetails::AIGER(a) = &p.details else {
        rep.fail(ctx, "aiger19-section-wrong", "the details are not AIGER details".into());
        return rep.bad;
    };
    let a: &AIGERDetails = a;
    let s = match sections(a) {
        Ok(s) => s,
        Err(e) => {
            rep.fail(ctx, "aiger19-debug-unparsable", e);
            return rep.bad;
        }
    };
    if let Err(e) = s.agrees_with_accessors(a) {
        rep.fail(ctx, "aiger19-accessor-debug-mismatch", e);
    }
    let c = &p.circuit;
    let nv = m.sh.i + m.sh.l;
    if s.inputs != m.sh.i || c.inputs().len() != nv || c.num_gates() != m.sh.a {
        rep.fail(ctx, "aiger19-section-wrong", format!("{} inputs, {} circuit inputs, {} gates; written: {} inputs, {} latches, {} AND gates", s.inputs, c.inputs().len(), c.num_gates(), m.sh.i, m.sh.l, m.sh.a));
        return rep.bad;
    }
    check_functions(&mut rep, ctx, "aiger19-section-wrong", c, &s, m);

    // names of every section and of inputs / latches
    let want_names = [m.expected_names('o', m.sh.o), m.expected_names('b', m.sh.b), m.expected_names('c', m.sh.c), m.expected_names('j', m.sh.j.len()), m.expected_names('f', m.sh.f)];
    for k in 0..5 {
        let (got, want) = (&s.names[k], &want_names[k]);
        let ok = if want.iter().all(|x| x.is_none()) { got.is_empty() || got == want } else { got == want };
        if ok {
            ctx.count("aiger19: names lists as written");
        } else {
            rep.fail(ctx, "aiger19-names-wrong", format!("names of {}: {:?}, written {:?}", SECTION_NAMES[k], got, want));
        }
    }
    let mut var_names = m.expected_names('i', m.sh.i);
    var_names.extend(m.expected_names('l', m.sh.l));
    for (v, want) in var_names.iter().enumerate() {
        if c.inputs().name(v) != want.as_deref() {
            rep.fail(ctx, "aiger19-names-wrong", format!("name of circuit input {} ({}): {:?}, written {:?}", v, if v < m.sh.i { "input" } else { "latch" }, c.inputs().name(v), want));
        }
    }

    // reset values (all of them only on request: see the kf-candidate cases)
    let want = m.expected_init();
    let upto = if init_all { want.len() } else { want.len().min(1) };
    for k in 0..upto {
        if a.latch_init_value(k) == want[k] {
            ctx.count("aiger19: latch reset values as written");
        } else {
            rep.fail(ctx, "aiger19-latch-init-wrong", format!("latch_init_value({}) = {:?}, written {:?} ({:?})", k, a.latch_init_value(k), want[k], m.latch[k].1));
        }
    }

    // the map from the numbers of the file to the circuit
    let mut map_bad = Vec::new();
    if a.map_aiger_literal(0) != Some(Literal::FALSE) || a.map_aiger_literal(1) != Some(Literal::TRUE) {
        map_bad.push("literals 0 / 1 are not mapped to the constants".to_string());
    }
    let mut used = vec![false; mfile + 1];
    for v in 1..=m.m() {
        used[pi[v]] = true;
        for neg in 0..2 {
            let got = a.map_aiger_literal(2 * pi[v] + neg).and_then(|l| tt_of(c, l, nv));
            if got.as_deref() != Some(m.tt(2 * v + neg).as_str()) {
                map_bad.push(format!("map_aiger_literal({}) = {:?} has the truth table {:?}, variable {} of the model has {}", 2 * pi[v] + neg, a.map_aiger_literal(2 * pi[v] + neg), got, v, m.tt(2 * v + neg)));
            }
        }
    }
    for u in 1..=mfile {
        if !used[u] && a.map_aiger_literal(2 * u) != Some(Literal::UNDEF) {
            map_bad.push(format!("map_aiger_literal({}) = {:?} for a variable the file does not define", 2 * u, a.map_aiger_literal(2 * u)));
        }
    }
    if a.map_aiger_literal(2 * (mfile + 1)).is_some() {
        map_bad.push(format!("map_aiger_literal({}) is defined beyond the maximal variable {}", 2 * (mfile + 1), mfile));
    }
    if map_bad.is_empty() {
        ctx.count("aiger19: literal map as written");
    } else {
        rep.fail(ctx, "aiger19-map-wrong", map_bad.join("; "));
    }

    // Problem::simplify keeps every section's functions (checked when they were right before)
    if rep.bad > 0 {
        return rep.bad;
    }
    match catch_unwind(AssertUnwindSafe(|| p.simplify())) {
        Ok(Ok((q, _))) => match &q.details {
            ProblemDetails::AIGER(qa) => match sections(qa) {
                Ok(qs) => {
                    let before = rep.bad;
                    check_functions(&mut rep, ctx, "simplified-function-wrong", &q.circuit, &qs, m);
                    if rep.bad == before {
                        ctx.count("aiger19: all sections keep their functions under Problem::simplify");
                    }
                }
                Err(e) => rep.fail(ctx, "aiger19-debug-unparsable", format!("after simplify: {}", e)),
            },
            _ => rep.fail(ctx, "simplified-function-wrong", "the details are not AIGER details after simplify".into()),
        },
        Ok(Err(l)) => rep.fail(ctx, "simplify-error-on-valid-file", format!("simplify returned Err({:?})", l)),
        Err(e) => rep.fail(ctx, "simplify-panic", format!("simplify panicked: {}", panic_msg(&e))),
    }
    rep.bad
}

fn parse_shape(w: &[&str]) -> Option<Shape> {
    let n = |k: usize| w.get(k)?.parse::<usize>().ok();
    let j: Vec<usize> = if *w.get(6)? == "-" { Vec::new() } else { w[6].split(',').map(|x| x.parse::<usize>().ok()).collect::<Option<Vec<_>>>()? };
    let sh = Shape { i: n(0)?, l: n(1)?, a: n(2)?, o: n(3)?, b: n(4)?, c: n(5)?, j, f: n(7)?, sym: n(8)? as u32 };
    // (truth tables over inputs + latches; the sizes are bounded so that one line stays cheap)
    if sh.i + sh.l > 10 || sh.a > 64 || sh.o + sh.b + sh.c + sh.f + sh.j.len() + sh.j.iter().sum::<usize>() > 200 {
        return None;
    }
    Some(sh)
}
fn shape_words(sh: &Shape) -> String {
    let j = if sh.j.is_empty() { "-".to_string() } else { sh.j.iter().map(|x| x.to_string()).collect::<Vec<_>>().join(",") };
    format!("{} {} {} {} {} {} {} {} {}", sh.i, sh.l, sh.a, sh.o, sh.b, sh.c, j, sh.f, sh.sym)
}

impl Parsers {
    /// `aig19 <seed> <I> <L> <A> <O> <B> <C> <J sizes|-> <F> <symbols> <first|all>`
    fn aig19(&mut self, seed: u64, sh: &Shape, init_all: bool, ctx: &mut Ctx) -> String {
        let m = A19::build(seed, sh);
        let mut rng = Rng::new(seed ^ 0x5eed_f11e);
        let (aag, pi1, m1) = m.render_aag(&mut rng, false);
        let (aag2, pi2, m2) = m.render_aag(&mut rng, true);
        let aig = m.render_aig(&mut rng);
        self.fmt = Fmt::Aiger;
        self.opts = 0;
        self.base = aag.clone();
        self.base2 = aig.clone();

        // what the generated problems cover
        ctx.count("aiger19: problems");
        let jl: usize = sh.j.iter().sum();
        for (n, k) in [("outputs", sh.o), ("bad", sh.b), ("constraints", sh.c), ("justice properties", sh.j.len()), ("fairness", sh.f), ("latches", sh.l), ("inputs", sh.i), ("AND gates", sh.a)] {
            ctx.count(&format!("aiger19: {} {}", k, n));
        }
        if sh.f > jl {
            ctx.count("aiger19: more fairness constraints than justice literals");
        }
        if sh.f > 0 && jl > 0 && sh.f <= jl {
            ctx.count("aiger19: fairness constraints, at most as many as justice literals");
        }
        if sh.j.iter().any(|&n| n == 0) {
            ctx.count("aiger19: an empty justice property");
        }
        if sh.j.iter().any(|&n| n != sh.j[0]) {
            ctx.count("aiger19: justice properties of different sizes");
        }
        for (_, r) in &m.latch {
            ctx.count(&format!("aiger19: latch reset {:?}", r));
        }
        for kind in ['i', 'l', 'o', 'b', 'c', 'j', 'f'] {
            if m.syms.iter().any(|x| x.0 == kind) {
                ctx.count(&format!("aiger19: problems with {} symbols", kind));
            }
        }
        if m.comment.is_some() {
            ctx.count("aiger19: problems with a comment section");
        }

        let mut parsed: Vec<Option<Problem>> = Vec::new();
        let mut res = String::new();
        for (what, file, pi, mfile) in [("aag", &aag, &pi1, m1), ("aag-renumbered", &aag2, &pi2, m2), ("aig", &aig, &pi1, m1)] {
            ctx.count(&format!("aiger19: files {}", what));
            let (v, p, msg) = run_all_in_process(Fmt::Aiger, 0, file, &self.tmp, true);
            let r = match v {
                Verdict::Ok => {
                    let p = p.unwrap();
                    let r = match catch_unwind(AssertUnwindSafe(|| check_a19(what, file, &p, &m, pi, mfile, init_all, ctx))) {
                        Ok(0) => "ok",
                        Ok(_) => "wrong",
                        Err(e) => {
                            ctx.fail("aiger19-check-panic", &format!("{} of the model {:?}, file {}: panic while reading the parsed problem: {}", what, sh, show_bytes(file), panic_msg(&e)));
                            "panic"
                        }
                    };
                    parsed.push(Some(p));
                    r
                }
                Verdict::Diag => {
                    ctx.fail("valid-file-rejected", &format!("aiger {} of the model {:?}, file {}", what, sh, show_bytes(file)));
                    parsed.push(None);
                    "rejected"
                }
                Verdict::Insane => {
                    ctx.fail("parsed-problem-insane", &format!("aiger {} of the model {:?}, file {}: {}", what, sh, show_bytes(file), msg));
                    parsed.push(None);
                    "insane"
                }
                _ => {
                    ctx.fail("parser-panic", &format!("aiger {} of the model {:?}, valid file {}: {}", what, sh, show_bytes(file), msg));
                    parsed.push(None);
                    "panic"
                }
            };
            res.push_str(&format!("{}={} ", what, r));
        }
        if let (Some(p1), Some(p3)) = (&parsed[0], &parsed[2]) {
            if p1 == p3 {
                ctx.count("ASCII and binary AIGER parse to the same problem");
                res.push_str("same");
            } else {
                let d = match (&p1.details, &p3.details) {
                    (ProblemDetails::AIGER(x), ProblemDetails::AIGER(y)) => match (sections(x), sections(y)) {
                        (Ok(x), Ok(y)) => {
                            let mut d = x.diff(&y);
                            if p1.circuit != p3.circuit {
                                d.push("circuit");
                            }
                            format!("differing: {}", d.join(", "))
                        }
                        _ => "?".into(),
                    },
                    _ => "?".into(),
                };
                ctx.fail("aag-aig-differ", &format!("model {:?} [{}] aag={} aig={}: {:?} vs {:?}", sh, d, show_bytes(&aag), show_bytes(&aig), p1, p3));
                res.push_str("differ");
            }
        }
        res.trim_end().to_string()
    }
}

/// seeded byte-level mutation
fn mutate(base: &[u8], rng: &mut Rng) -> Vec<u8> {
    const INTERESTING: &[u8] = b"0123456789 \n\r\t-xcpaigAOLXB()[],*+=\x00\x80\xff\x7f";
    const NUMBERS: &[&str] = &["0", "1", "18446744073709551615", "18446744073709551616", "1152921504606846975", "1152921504606846976",
        "99999999", "4294967296", "9223372036854775807", "-9223372036854775808", "00000000000000000000000001"];
    let mut v = base.to_vec();
    let n_edits = 1 + rng.below(3);
    for _ in 0..n_edits {
        let len = v.len();
        match rng.below(9) {
            0 | 1 if len > 0 => {
                let i = rng.below(len as u64) as usize;
                v[i] = if rng.chance(2, 3) { *rng.pick(INTERESTING) } else { rng.below(256) as u8 };
            }
            2 => {
                let i = rng.below(len as u64 + 1) as usize;
                v.insert(i, if rng.chance(2, 3) { *rng.pick(INTERESTING) } else { rng.below(256) as u8 });
            }
            3 if len > 0 => {
                let i = rng.below(len as u64) as usize;
                v.remove(i);
            }
            4 if len > 1 => {
                // duplicate a chunk
                let a = rng.below(len as u64) as usize;
                let b = (a + 1 + rng.below(12) as usize).min(len);
                let chunk: Vec<u8> = v[a..b].to_vec();
                let at = rng.below(len as u64 + 1) as usize;
                for (k, x) in chunk.into_iter().enumerate() {
                    v.insert(at + k, x);
                }
            }
            5 if len > 1 => {
                // delete a chunk
                let a = rng.below(len as u64) as usize;
                let b = (a + 1 + rng.below(12) as usize).min(len);
                v.drain(a..b);
            }
            6 | 7 => {
                // replace a number
                let starts: Vec<usize> = (0..len).filter(|&i| v[i].is_ascii_digit() && (i == 0 || !v[i - 1].is_ascii_digit())).collect();
                if !starts.is_empty() {
                    let a = *rng.pick(&starts);
                    let mut b = a;
                    while b < len && v[b].is_ascii_digit() {
                        b += 1;
                    }
                    let old: u128 = std::str::from_utf8(&v[a..b]).unwrap().parse().unwrap_or(0);
                    let new = if rng.chance(1, 3) {
                        rng.pick(NUMBERS).to_string()
                    } else {
                        match rng.below(4) {
                            0 => old.saturating_add(1).to_string(),
                            1 => old.saturating_sub(1).to_string(),
                            2 => (old * 2).to_string(),
                            _ => rng.below(300).to_string(),
                        }
                    };
                    v.splice(a..b, new.into_bytes());
                }
            }
            _ => {
                // swap two lines
                let mut lines: Vec<Vec<u8>> = v.split(|&c| c == b'\n').map(|l| l.to_vec()).collect();
                if lines.len() > 2 {
                    let i = rng.below(lines.len() as u64) as usize;
                    let j = rng.below(lines.len() as u64) as usize;
                    lines.swap(i, j);
                    v = lines.join(&b'\n');
                }
            }
        }
    }
    v
}

impl Scenario for Parsers {
    fn reset(&mut self) {
        self.base.clear();
        self.base2.clear();
        self.force_child = false;
        self.child_mem_mb = CHILD_MEM_MB;
    }
    fn step(&mut self, line: &str, ctx: &mut Ctx) -> String {
        let w = words(line);
        match w.as_slice() {
            ["file", fmt, opts, nvars, tt, hx] => {
                let (Some(fmt), Ok(opts), Ok(nvars), Some(bytes)) = (fmt_of(fmt), opts.parse::<u32>(), nvars.parse::<usize>(), unhex(hx)) else {
                    return "bad-op".into();
                };
                self.fmt = fmt;
                self.opts = opts;
                self.base = bytes;
                ctx.count(&format!("valid files:{}", fmt_name(fmt)));
                self.valid(&self.base.clone(), nvars, tt, ctx).0
            }
            ["pair", nvars, tt, h1, h2] => {
                let (Ok(nvars), Some(b1), Some(b2)) = (nvars.parse::<usize>(), unhex(h1), unhex(h2)) else {
                    return "bad-op".into();
                };
                self.fmt = Fmt::Aiger;
                self.opts = 0;
                self.base = b1;
                self.base2 = b2;
                ctx.count("valid files:aiger pairs");
                let (r1, p1) = self.valid(&self.base.clone(), nvars, tt, ctx);
                let (r2, p2) = self.valid(&self.base2.clone(), nvars, tt, ctx);
                if let (Some(p1), Some(p2)) = (p1, p2) {
                    if p1 == p2 {
                        ctx.count("ASCII and binary AIGER parse to the same problem");
                    } else {
                        ctx.fail("aag-aig-differ", &format!("aag={} aig={}: {:?} vs {:?}", hex(&self.base), hex(&self.base2), p1, p2));
                    }
                }
                format!("{} {}", r1, r2)
            }
            ["usebase", k] => {
                if *k == "2" {
                    std::mem::swap(&mut self.base, &mut self.base2);
                }
                "ok".into()
            }
            ["truncall"] => {
                let base = self.base.clone();
                let (mut ok, mut diag, mut bad) = (0, 0, 0);
                for n in 0..base.len() {
                    match self.check(&format!("prefix of length {}", n), &base[..n], ctx) {
                        Verdict::Ok => ok += 1,
                        Verdict::Diag => diag += 1,
                        _ => bad += 1,
                    }
                }
                format!("prefixes ok={} diag={} bad={}", ok, diag, bad)
            }
            ["muts", seed, count] => {
                let (Ok(seed), Ok(count)) = (seed.parse::<u64>(), count.parse::<u64>()) else {
                    return "bad-op".into();
                };
                let base = self.base.clone();
                let mut rng = Rng::new(seed);
                let (mut ok, mut diag, mut bad) = (0, 0, 0);
                for k in 0..count {
                    let m = mutate(&base, &mut rng);
                    match self.check(&format!("mutation {} of seed {}", k, seed), &m, ctx) {
                        Verdict::Ok => ok += 1,
                        Verdict::Diag => diag += 1,
                        _ => bad += 1,
                    }
                }
                format!("mutations ok={} diag={} bad={}", ok, diag, bad)
            }
            ["raw", fmt, opts, hx] => {
                let (Some(fmt), Ok(opts), Some(bytes)) = (fmt_of(fmt), opts.parse::<u32>(), unhex(hx)) else {
                    return "bad-op".into();
                };
                self.fmt = fmt;
                self.opts = opts;
                self.base = bytes;
                format!("{:?}", self.check("raw input", &self.base.clone(), ctx))
            }
            ["aig19", seed, rest @ ..] if rest.len() == 10 => {
                let (Ok(seed), Some(sh)) = (seed.parse::<u64>(), parse_shape(rest)) else {
                    return "bad-op".into();
                };
                self.aig19(seed, &sh, rest[9] == "all", ctx)
            }
            ["bnd", fmt, opts, hx] => {
                // a valid file with one numeric field replaced by a boundary value
                let (Some(fmt), Ok(opts), Some(bytes)) = (fmt_of(fmt), opts.parse::<u32>(), unhex(hx)) else {
                    return "bad-op".into();
                };
                self.fmt = fmt;
                self.opts = opts;
                self.base = bytes;
                // (the numbers matter here, not the memory: a smaller address space makes the
                // allocations sized by a number of the file fail faster)
                self.child_mem_mb = BOUNDS_CHILD_MEM_MB;
                let v = self.check("boundary value", &self.base.clone(), ctx);
                self.child_mem_mb = CHILD_MEM_MB;
                ctx.count(&format!("boundary inputs:{}", fmt_name(fmt)));
                ctx.count(&format!("boundary inputs:{} {:?}", fmt_name(fmt), v));
                format!("{:?}", v)
            }
            ["latchinit", hx, want] => {
                // reset values of all latches through the accessor; want = one of 0 1 - per latch
                let Some(bytes) = unhex(hx) else {
                    return "bad-op".into();
                };
                let p = match catch_unwind(AssertUnwindSafe(|| parse_plain(Fmt::Aiger, 0, &bytes))) {
                    Ok(Some(p)) => p,
                    Ok(None) => {
                        ctx.fail("valid-file-rejected", &format!("aiger input={}", show_bytes(&bytes)));
                        return "rejected".into();
                    }
                    Err(e) => {
                        ctx.fail("parser-panic", &format!("aiger valid file input={}: {}", show_bytes(&bytes), panic_msg(&e)));
                        return "panic".into();
                    }
                };
                let ProblemDetails::AIGER(a) = &p.details else {
                    return "bad-op".into();
                };
                let mut got = String::new();
                for k in 0..a.latches().len() {
                    match catch_unwind(AssertUnwindSafe(|| a.latch_init_value(k))) {
                        Ok(Some(false)) => got.push('0'),
                        Ok(Some(true)) => got.push('1'),
                        Ok(None) => got.push('-'),
                        Err(e) => {
                            ctx.fail("aiger-accessor-panic", &format!("latch_init_value({}) of the {} latches of {}: {}", k, a.latches().len(), show_bytes(&bytes), panic_msg(&e)));
                            got.push('!');
                        }
                    }
                }
                if got != *want && !got.contains('!') {
                    ctx.fail("aiger-latch-init-wrong", &format!("latch reset values of {}: latch_init_value gives {} but the file says {}", show_bytes(&bytes), got, want));
                }
                got
            }
            ["dbgfmt", hx] => {
                let Some(bytes) = unhex(hx) else {
                    return "bad-op".into();
                };
                let Ok(Some(p)) = catch_unwind(AssertUnwindSafe(|| parse_plain(Fmt::Aiger, 0, &bytes))) else {
                    ctx.fail("valid-file-rejected", &format!("aiger input={}", show_bytes(&bytes)));
                    return "rejected".into();
                };
                match catch_unwind(AssertUnwindSafe(|| format!("{:?}", p).len())) {
                    Ok(_) => "ok".into(),
                    Err(e) => {
                        ctx.fail("problem-debug-panic", &format!("formatting the problem parsed from {} with {{:?}}: {}", show_bytes(&bytes), panic_msg(&e)));
                        "panic".into()
                    }
                }
            }
            ["big", fmt, opts, kind, n] => {
                // generated on the fly (too long for an operation line): deep nesting
                let (Some(fmt), Ok(opts), Ok(n)) = (fmt_of(fmt), opts.parse::<u32>(), n.parse::<usize>()) else {
                    return "bad-op".into();
                };
                self.fmt = fmt;
                self.opts = opts;
                let input: Vec<u8> = match *kind {
                    "sat-parens" => {
                        let mut v = b"p sat 1\n".to_vec();
                        v.extend(std::iter::repeat(b'(').take(n));
                        v.push(b'1');
                        v.extend(std::iter::repeat(b')').take(n));
                        v.push(b'\n');
                        v
                    }
                    "sat-neg" => {
                        let mut v = b"p sat 1\n".to_vec();
                        for _ in 0..n {
                            v.extend_from_slice(b"-(");
                        }
                        v.push(b'1');
                        v.extend(std::iter::repeat(b')').take(n));
                        v
                    }
                    "tree" => {
                        let mut v = b"c vo ".to_vec();
                        v.extend(std::iter::repeat(b'[').take(n));
                        v.push(b'1');
                        v.extend(std::iter::repeat(b']').take(n));
                        v.extend_from_slice(b"\np cnf 1 1\n1 0\n");
                        v
                    }
                    "aag-chain" => {
                        // n AND gates, each defined by the next one (forward references): a chain
                        // of depth n; parsed in a child process
                        self.force_child = true;
                        let mut v = format!("aag {} 1 0 1 {}\n2\n4\n", n + 1, n).into_bytes();
                        for k in 0..n {
                            let var = k + 2;
                            let next = if k + 1 < n { 2 * (var + 1) } else { 2 };
                            v.extend_from_slice(format!("{} {} 2\n", 2 * var, next).as_bytes());
                        }
                        v
                    }
                    "nnf-chain" => {
                        self.force_child = true;
                        let mut v = format!("nnf {} {} 1\n", n + 1, n).into_bytes();
                        for k in 0..n {
                            v.extend_from_slice(format!("A 1 {}\n", k + 1).as_bytes());
                        }
                        v.extend_from_slice(b"L 1\n");
                        v
                    }
                    "cnf-long" => {
                        let mut v = format!("p cnf 3 {}\n", n).into_bytes();
                        for k in 0..n {
                            v.extend_from_slice(format!("{} -{} 0\n", k % 3 + 1, (k + 1) % 3 + 1).as_bytes());
                        }
                        v
                    }
                    _ => return "bad-op".into(),
                };
                self.base = input;
                let v = self.check(&format!("{} n={}", kind, n), &self.base.clone(), ctx);
                self.force_child = false;
                format!("{:?}", v)
            }
            _ => "bad-op".into(),
        }
    }
}

// ------------------------------------------------------------------ generators of valid files

fn ws(rng: &mut Rng) -> &'static str {
    match rng.below(8) {
        0 => "  ",
        1 => "\t",
        _ => " ",
    }
}

/// DIMACS CNF (with XOR clauses); returns (text, nvars, truth table, opts)
fn gen_cnf(rng: &mut Rng) -> (Vec<u8>, usize, String, u32) {
    let n = rng.range(1, 5) as usize;
    let m = rng.range(0, 6) as usize;
    let mut clauses: Vec<(bool, Vec<(bool, usize)>)> = Vec::new();
    for _ in 0..m {
        let xor = rng.chance(1, 5);
        let len = if rng.chance(1, 10) { 0 } else { rng.range(1, 4) as usize };
        clauses.push((xor, (0..len).map(|_| (rng.chance(1, 2), rng.below(n as u64) as usize)).collect()));
    }
    let opts = match rng.below(6) {
        0 => 1,
        1 if m > 0 => 3,
        _ => 0,
    };
    let mut t = String::new();
    if opts & 1 != 0 {
        if rng.chance(1, 2) {
            // linear order with names
            let mut order: Vec<usize> = (0..n).collect();
            rng.shuffle(&mut order);
            for v in order {
                if rng.chance(1, 2) {
                    t.push_str(&format!("c {} v{}\n", v + 1, v));
                } else {
                    t.push_str(&format!("c {}\n", v + 1));
                }
            }
        } else {
            // order tree over all variables
            let mut order: Vec<usize> = (1..=n).collect();
            rng.shuffle(&mut order);
            let mut s = String::from("[");
            for (k, v) in order.iter().enumerate() {
                if k > 0 {
                    s.push_str(", ");
                }
                if rng.chance(1, 4) {
                    s.push_str(&format!("[{}]", v));
                } else {
                    s.push_str(&v.to_string());
                }
            }
            s.push(']');
            t.push_str(&format!("c vo {}\n", s));
        }
        if opts & 2 != 0 {
            let mut idx: Vec<usize> = (0..m).collect();
            rng.shuffle(&mut idx);
            let cut = rng.below(m as u64 + 1) as usize;
            let part = |xs: &[usize]| xs.iter().map(|x| x.to_string()).collect::<Vec<_>>().join(", ");
            if cut == 0 || cut == m {
                t.push_str(&format!("c co [{}]\n", part(&idx)));
            } else {
                t.push_str(&format!("c co [[{}], [{}]]\n", part(&idx[..cut]), part(&idx[cut..])));
            }
        }
    } else {
        for _ in 0..rng.below(3) {
            t.push_str("c some comment 1 2 -3\n");
        }
    }
    t.push_str(&format!("p cnf {} {}\n", n, m));
    for (k, (xor, lits)) in clauses.iter().enumerate() {
        if *xor {
            t.push_str(if rng.chance(1, 2) { "x" } else { "x " });
        }
        for (neg, v) in lits {
            t.push_str(&format!("{}{}{}", if *neg { "-" } else { "" }, v + 1, ws(rng)));
        }
        if k + 1 < m || rng.chance(2, 3) {
            t.push('0');
        }
        t.push_str(if rng.chance(3, 4) { "\n" } else { " " });
    }
    let mut tt = String::new();
    for asg in 0..(1u32 << n) {
        let val = |neg: bool, v: usize| (((asg >> v) & 1) != 0) ^ neg;
        let all = clauses.iter().all(|(xor, lits)| {
            if lits.is_empty() {
                false
            } else if *xor {
                lits.iter().fold(false, |a, (ng, v)| a ^ val(*ng, *v))
            } else {
                lits.iter().any(|(ng, v)| val(*ng, *v))
            }
        });
        tt.push(if all { '1' } else { '0' });
    }
    (t.into_bytes(), n, tt, opts)
}

#[derive(Clone, Debug)]
enum F {
    Var(usize),
    Not(Box<F>),
    And(Vec<F>),
    Or(Vec<F>),
    Xor(Vec<F>),
    Eq(Box<F>, Box<F>),
}
fn gen_formula(rng: &mut Rng, n: usize, depth: u32, xor: bool, eq: bool) -> F {
    if depth == 0 || rng.chance(1, 3) {
        let v = F::Var(rng.below(n as u64) as usize);
        return if rng.chance(1, 3) { F::Not(Box::new(v)) } else { v };
    }
    let k = rng.below(4) as usize;
    let sub = |rng: &mut Rng| (0..k).map(|_| gen_formula(rng, n, depth - 1, xor, eq)).collect::<Vec<_>>();
    match rng.below(6) {
        0 => F::Not(Box::new(gen_formula(rng, n, depth - 1, xor, eq))),
        1 | 2 => F::And(sub(rng)),
        3 => F::Or(sub(rng)),
        4 if xor => F::Xor(sub(rng)),
        5 if eq => F::Eq(Box::new(gen_formula(rng, n, depth - 1, xor, eq)), Box::new(gen_formula(rng, n, depth - 1, xor, eq))),
        _ => F::Or(sub(rng)),
    }
}
fn eval_formula(f: &F, asg: u32) -> bool {
    match f {
        F::Var(v) => ((asg >> v) & 1) != 0,
        F::Not(g) => !eval_formula(g, asg),
        F::And(gs) => gs.iter().all(|g| eval_formula(g, asg)),
        F::Or(gs) => gs.iter().any(|g| eval_formula(g, asg)),
        F::Xor(gs) => gs.iter().fold(false, |a, g| a ^ eval_formula(g, asg)),
        F::Eq(a, b) => eval_formula(a, asg) == eval_formula(b, asg),
    }
}
fn show_formula(f: &F, rng: &mut Rng, out: &mut String) {
    let list = |gs: &[F], rng: &mut Rng, out: &mut String| {
        out.push('(');
        for (k, g) in gs.iter().enumerate() {
            if k > 0 {
                out.push_str(if rng.chance(1, 6) { "\n " } else { " " });
            }
            show_formula(g, rng, out);
        }
        out.push(')');
    };
    match f {
        F::Var(v) => out.push_str(&(v + 1).to_string()),
        F::Not(g) => match &**g {
            F::Var(v) => out.push_str(&format!("-{}", v + 1)),
            g => {
                out.push_str("-(");
                show_formula(g, rng, out);
                out.push(')');
            }
        },
        F::And(gs) => {
            out.push('*');
            list(gs, rng, out)
        }
        F::Or(gs) => {
            out.push('+');
            list(gs, rng, out)
        }
        F::Xor(gs) => {
            out.push_str("xor");
            list(gs, rng, out)
        }
        F::Eq(a, b) => {
            out.push('=');
            list(&[(**a).clone(), (**b).clone()], rng, out)
        }
    }
}
/// DIMACS SAT / SATX / SATEX
fn gen_sat(rng: &mut Rng) -> (Vec<u8>, usize, String, u32) {
    let n = rng.range(1, 5) as usize;
    let (name, xor, eq) = *rng.pick(&[("sat", false, false), ("satx", true, false), ("satex", true, true), ("sate", false, false)]);
    let f = gen_formula(rng, n, 3, xor, eq);
    let mut t = String::new();
    for _ in 0..rng.below(2) {
        t.push_str("c comment\n");
    }
    t.push_str(&format!("p {} {}\n", name, n));
    if rng.chance(1, 3) {
        t.push('(');
        show_formula(&f, rng, &mut t);
        t.push(')');
    } else {
        show_formula(&f, rng, &mut t);
    }
    if rng.chance(1, 2) {
        t.push('\n');
    }
    let tt: String = (0..(1u32 << n)).map(|a| if eval_formula(&f, a) { '1' } else { '0' }).collect();
    (t.into_bytes(), n, tt, 0)
}

/// c2d NNF with the extensions (X nodes, arbitrary OR arity)
fn gen_nnf(rng: &mut Rng) -> (Vec<u8>, usize, String, u32) {
    let n = rng.range(1, 5) as usize;
    let nodes_n = rng.range(1, 10) as usize;
    #[derive(Clone)]
    enum N {
        L(bool, usize),
        A(Vec<usize>),
        O(usize, Vec<usize>),
        X(Vec<usize>),
    }
    let mut nodes: Vec<N> = Vec::new();
    for k in 0..nodes_n {
        if k == 0 || rng.chance(2, 5) {
            nodes.push(N::L(rng.chance(1, 2), rng.below(n as u64) as usize));
        } else {
            let arity = rng.below(4) as usize;
            let ch: Vec<usize> = (0..arity).map(|_| rng.below(k as u64) as usize).collect();
            match rng.below(4) {
                0 | 1 => nodes.push(N::A(ch)),
                2 => {
                    let conflict = if ch.len() == 2 && rng.chance(1, 2) { rng.range(1, n as u64) as usize } else { 0 };
                    nodes.push(N::O(conflict, ch))
                }
                _ => nodes.push(N::X(ch)),
            }
        }
    }
    let edges: usize = nodes.iter().map(|x| match x { N::L(..) => 0, N::A(c) | N::O(_, c) | N::X(c) => c.len() }).sum();
    let opts = if rng.chance(1, 6) { 1 } else { 0 };
    let mut t = String::new();
    if opts == 1 {
        for v in 0..n {
            t.push_str(&format!("c {} name{}\n", v + 1, v));
        }
    } else if rng.chance(1, 3) {
        t.push_str("c a comment\n");
    }
    t.push_str(&format!("nnf {} {} {}\n", nodes_n, edges, n));
    for x in &nodes {
        match x {
            N::L(neg, v) => t.push_str(&format!("L {}{}\n", if *neg { "-" } else { "" }, v + 1)),
            N::A(c) => t.push_str(&format!("{} {}{}\n", if rng.chance(1, 6) { "a" } else { "A" }, c.len(), c.iter().map(|i| format!(" {}", i)).collect::<String>())),
            N::O(j, c) => t.push_str(&format!("O {} {}{}\n", j, c.len(), c.iter().map(|i| format!(" {}", i)).collect::<String>())),
            N::X(c) => t.push_str(&format!("X {}{}\n", c.len(), c.iter().map(|i| format!(" {}", i)).collect::<String>())),
        }
    }
    let mut tt = String::new();
    for asg in 0..(1u32 << n) {
        let mut vals: Vec<bool> = Vec::new();
        for x in &nodes {
            let v = match x {
                N::L(neg, v) => (((asg >> v) & 1) != 0) ^ neg,
                N::A(c) => c.iter().all(|i| vals[*i]),
                N::O(_, c) => c.iter().any(|i| vals[*i]),
                N::X(c) => c.iter().fold(false, |a, i| a ^ vals[*i]),
            };
            vals.push(v);
        }
        tt.push(if *vals.last().unwrap() { '1' } else { '0' });
    }
    (t.into_bytes(), n, tt, opts)
}

fn enc7(mut x: usize, out: &mut Vec<u8>) {
    loop {
        let b = (x & 127) as u8;
        x >>= 7;
        if x == 0 {
            out.push(b);
            return;
        }
        out.push(b | 128);
    }
}

/// the same and-inverter graph as `aag` and `aig`; truth tables of outputs then latch inputs over
/// inputs + latch outputs
fn gen_aiger_pair(rng: &mut Rng) -> (Vec<u8>, Vec<u8>, usize, String) {
    let i = rng.below(4) as usize;
    let l = rng.below(3) as usize;
    let a = rng.below(7) as usize;
    let o = rng.below(3) as usize;
    let m = i + l + a;
    let first_and = i + l + 1;
    // gate k has lhs 2*(first_and + k); rhs0 >= rhs1, both < lhs
    let mut gates: Vec<(usize, usize)> = Vec::new();
    for k in 0..a {
        let lhs = 2 * (first_and + k);
        let x = rng.below(lhs as u64) as usize;
        let y = rng.below(lhs as u64) as usize;
        gates.push((x.max(y), x.min(y)));
    }
    let lit = |rng: &mut Rng| rng.below(2 * (m as u64 + 1)) as usize;
    let latches: Vec<(usize, Option<usize>)> = (0..l)
        .map(|k| {
            let own = 2 * (i + 1 + k);
            (lit(rng), match rng.below(4) { 0 => None, 1 => Some(0), 2 => Some(1), _ => Some(own) })
        })
        .collect();
    let outputs: Vec<usize> = (0..o).map(|_| lit(rng)).collect();
    let (b, c, j, f) = if rng.chance(1, 3) { (rng.below(2) as usize, rng.below(2) as usize, rng.below(3) as usize, rng.below(2) as usize) } else { (0, 0, 0, 0) };
    let bad: Vec<usize> = (0..b).map(|_| lit(rng)).collect();
    let inv: Vec<usize> = (0..c).map(|_| lit(rng)).collect();
    let just: Vec<Vec<usize>> = (0..j).map(|_| (0..rng.below(3)).map(|_| lit(rng)).collect()).collect();
    let fair: Vec<usize> = (0..f).map(|_| lit(rng)).collect();
    let mut header = format!("{} {} {} {} {}", m, i, l, o, a);
    if b + c + j + f > 0 {
        header.push_str(&format!(" {}", b));
        if c + j + f > 0 {
            header.push_str(&format!(" {}", c));
            if j + f > 0 {
                header.push_str(&format!(" {}", j));
                if f > 0 {
                    header.push_str(&format!(" {}", f));
                }
            }
        }
    }
    let mut tail = String::new();
    let symbols = rng.chance(1, 3);
    if symbols {
        for k in 0..i {
            if rng.chance(2, 3) {
                tail.push_str(&format!("i{} in{}\n", k, k));
            }
        }
        for k in 0..l {
            if rng.chance(1, 2) {
                tail.push_str(&format!("l{} latch {}\n", k, k));
            }
        }
        for k in 0..o {
            if rng.chance(1, 2) {
                tail.push_str(&format!("o{} out{}\n", k, k));
            }
        }
    }
    if rng.chance(1, 3) {
        tail.push_str("c\nsome comment\n");
    }
    let mut props = String::new();
    for x in &outputs {
        props.push_str(&format!("{}\n", x));
    }
    for x in &bad {
        props.push_str(&format!("{}\n", x));
    }
    for x in &inv {
        props.push_str(&format!("{}\n", x));
    }
    for js in &just {
        props.push_str(&format!("{}\n", js.len()));
    }
    for js in &just {
        for x in js {
            props.push_str(&format!("{}\n", x));
        }
    }
    for x in &fair {
        props.push_str(&format!("{}\n", x));
    }
    let latch_line = |k: usize, with_lit: bool| {
        let own = 2 * (i + 1 + k);
        let (next, init) = latches[k];
        let mut s = if with_lit { format!("{} {}", own, next) } else { next.to_string() };
        if let Some(v) = init {
            s.push_str(&format!(" {}", v));
        }
        s.push('\n');
        s
    };
    // ASCII
    let mut aag = format!("aag {}\n", header);
    for k in 0..i {
        aag.push_str(&format!("{}\n", 2 * (k + 1)));
    }
    for k in 0..l {
        aag.push_str(&latch_line(k, true));
    }
    aag.push_str(&props);
    for (k, (x, y)) in gates.iter().enumerate() {
        aag.push_str(&format!("{} {} {}\n", 2 * (first_and + k), x, y));
    }
    aag.push_str(&tail);
    // binary
    let mut aig = format!("aig {}\n", header).into_bytes();
    for k in 0..l {
        aig.extend_from_slice(latch_line(k, false).as_bytes());
    }
    aig.extend_from_slice(props.as_bytes());
    for (k, (x, y)) in gates.iter().enumerate() {
        let lhs = 2 * (first_and + k);
        enc7(lhs - x, &mut aig);
        enc7(x - y, &mut aig);
    }
    aig.extend_from_slice(tail.as_bytes());
    // truth tables: outputs then latch inputs over i + l variables (variable v-1 for AIGER var v)
    let nv = i + l;
    let mut tt = String::new();
    let eval = |litv: usize, asg: u32| -> bool {
        let mut vals = vec![false; m + 1];
        for v in 1..=nv {
            vals[v] = ((asg >> (v - 1)) & 1) != 0;
        }
        let lv = |x: usize, vals: &Vec<bool>| vals[x / 2] ^ (x % 2 == 1);
        for (k, (x, y)) in gates.iter().enumerate() {
            let r = lv(*x, &vals) && lv(*y, &vals);
            vals[first_and + k] = r;
        }
        lv(litv, &vals)
    };
    for x in outputs.iter().chain(latches.iter().map(|p| &p.0)) {
        for asg in 0..(1u32 << nv) {
            tt.push(if eval(*x, asg) { '1' } else { '0' });
        }
    }
    if tt.is_empty() {
        tt.push('-');
    }
    (aag.into_bytes(), aig, nv, tt)
}

// ------------------------------------------------------------------ boundary values in numeric fields

/// in both tiers, for every field
const BOUNDS_CORE: &[&str] = &[
    "0", "1", "-1",
    "2147483647", "2147483648", "-2147483648", "-2147483649",
    "4294967295", "4294967296",
    "9223372036854775807", "9223372036854775808", "-9223372036854775808", "-9223372036854775809",
    "18446744073709551615", "18446744073709551616",
    "1152921504606846975", "1152921504606846976", // usize::MAX / 16: the largest count the parsers take
    "123456789012345678901234567890",
    "007", "+1", "-0",
];
/// thorough: all of them for every field; quick: a seeded sample of four per field
const BOUNDS_EXTRA: &[&str] = &[
    "2", "-2", "255", "256", "65535", "65536", "16777216",
    "2147483646", "-2147483647", "4294967294", "4294967297",
    "9223372036854775806", "-9223372036854775807", "+9223372036854775807",
    "18446744073709551614", "18446744073709551617", "-18446744073709551615", "-18446744073709551616",
    "1152921504606846974", "2305843009213693951", "2305843009213693952",
    // around Literal::MAX_INPUT = 2^62 - 3
    "4611686018427387901", "4611686018427387902", "4611686018427387903", "4611686018427387904",
    "999999999999999999999999999999", "-999999999999999999999999999999", "340282366920938463463374607431768211456",
    "00000000000000000000000000000001", "0000000000000000000000000000000", "+0", "--1", "-+1", "+-1", "0x10", "1e3", "1.0", "",
];

/// Valid files in which every numeric field is wrapped in `<…>`; a field written `<=…>` belongs to
/// the group of fields that are replaced together (a count and the literal that has to stay below
/// it).  (name, format, options, text)
const BOUND_TEMPLATES: &[(&str, &str, u32, &[u8])] = &[
    ("cnf-order-tree", "dimacs", 3, b"c <1> x\nc <2>\nc co [<0>, [<1>]]\np cnf <2> <2>\n<1> <-2> <0>\nx <2> <0>\n"),
    ("cnf-vo", "dimacs", 1, b"c vo [<2>, [<1>, <3>]]\np cnf <3> <1>\n<1> <2> <-3> <0>\n"),
    ("cnf-plain", "dimacs", 0, b"c comment <5>\np cnf <3> <2>\n<1> <-3> <0>\n<2> <3>\n"),
    ("cnf-coupled", "dimacs", 0, b"p cnf <=3> 1\n-<=3> 0\n"),
    ("sat", "dimacs", 0, b"p satex <3>\n*(+(<1> <-2>) xor(<3>) =(<1> <2>))\n"),
    ("sat-order", "dimacs", 1, b"c <2> b\nc <1> a\np sat <2>\n+(<1> <2>)\n"),
    ("nnf", "nnf", 0, b"nnf <7> <7> <2>\nL <1>\nL <-2>\nA <2> <0> <1>\nO <1> <2> <0> <1>\nX <1> <2>\nA <0>\nO <0> <3> <3> <4> <5>\n"),
    ("nnf-order", "nnf", 1, b"c <1> a\nc <2>\nnnf <1> <0> <2>\nL <2>\n"),
    ("nnf-vo", "nnf", 1, b"c vo [<2>, <1>]\nnnf <2> <1> <2>\nL <-1>\nA <1> <0>\n"),
    ("nnf-coupled", "nnf", 0, b"nnf 2 0 <=2>\nL <=2>\nL -<=2>\n"),
    (
        "aag",
        "aiger",
        0,
        b"aag <7> <2> <1> <1> <3> <1> <1> <1> <1>\n<2>\n<4>\n<6> <10> <1>\n<12>\n<3>\n<5>\n<2>\n<6>\n<7>\n<13>\n<8> <2> <4>\n<10> <8> <6>\n<12> <11> <3>\ni<0> a\nl<0> b\no<0> c\nb<0> d\nc<0> e\nj<0> f\nf<0> g\nc\ncomment\n",
    ),
    (
        "aig",
        "aiger",
        0,
        b"aig <6> <2> <1> <1> <3> <1> <1> <1> <1>\n<10> <1>\n<12>\n<3>\n<5>\n<2>\n<6>\n<7>\n<13>\n\x04\x02\x02\x02\x01\x08i<0> a\nl<0> b\no<0> c\nb<0> d\nc<0> e\nj<0> f\nf<0> g\nc\ncomment\n",
    ),
    ("aag-latch-own", "aiger", 0, b"aag <2> <0> <2> <0> <0>\n<2> <4> <2>\n<4> <3> <4>\n"),
    ("aig-latch-own", "aiger", 0, b"aig <2> <0> <2> <0> <0>\n<4> <2>\n<3> <4>\n"),
];

/// pieces between the fields, and the fields (original text, grouped?)
fn template_fields(t: &[u8]) -> (Vec<Vec<u8>>, Vec<(Vec<u8>, bool)>) {
    let mut pieces = vec![Vec::new()];
    let mut fields = Vec::new();
    let mut k = 0;
    while k < t.len() {
        if t[k] == b'<' {
            let e = k + t[k..].iter().position(|&c| c == b'>').expect("unterminated field");
            let inner = &t[k + 1..e];
            let grouped = inner.first() == Some(&b'=');
            fields.push((if grouped { inner[1..].to_vec() } else { inner.to_vec() }, grouped));
            pieces.push(Vec::new());
            k = e + 1;
        } else {
            pieces.last_mut().unwrap().push(t[k]);
            k += 1;
        }
    }
    (pieces, fields)
}
/// the template with the chosen fields replaced by `val` (`None`: the valid file itself)
fn instantiate(pieces: &[Vec<u8>], fields: &[(Vec<u8>, bool)], which: Option<&dyn Fn(usize) -> bool>, val: &[u8]) -> Vec<u8> {
    let mut out = pieces[0].clone();
    for (k, f) in fields.iter().enumerate() {
        if which.map_or(false, |w| w(k)) {
            out.extend_from_slice(val);
        } else {
            out.extend_from_slice(&f.0);
        }
        out.extend_from_slice(&pieces[k + 1]);
    }
    out
}

/// 7-bit encodings of boundary values, over-long and truncated ones (binary AIGER deltas)
fn varint_bounds() -> Vec<Vec<u8>> {
    let mut v: Vec<Vec<u8>> = Vec::new();
    for x in [0u128, 1, 2, 3, 5, 6, 7, 8, 9, 127, 128, 16383, 16384, (1 << 31) - 1, 1 << 31, (1 << 32) - 1, 1 << 32, (1 << 63) - 1, 1 << 63, (1 << 64) - 1, 1 << 64, (1 << 70) + 2] {
        let mut e = Vec::new();
        let mut x = x;
        loop {
            let b = (x & 127) as u8;
            x >>= 7;
            if x == 0 {
                e.push(b);
                break;
            }
            e.push(b | 128);
        }
        v.push(e);
    }
    // over-long encodings of 0, 2 and 4
    v.push(vec![0x80, 0x00]);
    v.push(vec![0x82, 0x00]);
    v.push(vec![0x82, 0x80, 0x80, 0x80, 0x80, 0x00]);
    v.push(vec![0x84, 0x80, 0x80, 0x80, 0x80, 0x80, 0x80, 0x80, 0x80, 0x80, 0x80, 0x80, 0x00]);
    // ten and more bytes with bits beyond the 64th
    v.push([vec![0xff; 9], vec![0x7f]].concat());
    v.push([vec![0x80; 10], vec![0x01]].concat());
    v.push([vec![0xff; 10], vec![0x01]].concat());
    v.push([vec![0x80; 9], vec![0x04]].concat());
    v.push([vec![0x80; 20], vec![0x02]].concat());
    v.push([vec![0x80; 300], vec![0x01]].concat());
    // truncated: continuation bit without a next byte (swallows what follows)
    v.push(vec![0x80]);
    v.push(vec![0xff, 0xff]);
    v
}

fn generate(cfg: &GenCfg, rng: &mut Rng, w: &mut dyn Write) {
    let scale = cfg.scale.max(1);
    let (files, muts) = if cfg.thorough { (200 * scale, 360) } else { (36 * scale, 120) };
    let mut case = 0;
    // ---- hand-written files from the crate's tests and the format documentation
    let fixed: &[(&str, u32, &[u8])] = &[
        ("dimacs", 0, b"c Example CNF format file\nc\np cnf 4 3\n1 3 -4 0\n4 0 2\n-3"),
        ("dimacs", 0, b"p cnf 0 0\n"),
        ("dimacs", 0, b"c Sample SAT format\nc\np sat 4\n(*(+(1 3 -4)\n    +(4)\n    +(2 3)))"),
        ("dimacs", 3, b"c 1 a\nc 2 b\nc 3\nc co [[0, 1], [2]]\np cnf 3 3\n1 2 0 -1 3 0 x 1 2 3 0\n"),
        ("dimacs", 1, b"c vo [[2, 3], [1]]\np satex 3\n=(xor(1 2) -(3))\n"),
        ("nnf", 0, b"nnf 15 17 4\nL -3\nL -2\nL 1\nA 3 2 1 0\nL 3\nO 3 2 4 3\nL -4\nA 2 6 5\nL 4\nA 2 2 8\nA 2 1 4\nL 2\nO 2 2 11 10\nA 2 12 9\nO 4 2 13 7\n"),
        ("aiger", 0, b"aag 7 2 0 2 3\n2\n4\n6\n12\n6 13 15\n12 2 4\n14 3 5\ni0 x\ni1 y\no0 s\no1 c\nc\nhalf adder\n"),
        ("aiger", 0, b"aig 5 2 0 2 3\n10\n6\n\x02\x02\x03\x02\x01\x02i0 x\ni1 y\no0 s\no1 c\nc\nhalf adder\n"),
        ("aiger", 0, b"aag 7 2 1 2 4\n2\n4\n6 8\n6\n7\n8 4 10\n10 13 15\n12 2 6\n14 3 7\ni0 toggle\ni1 ~reset\no0 q\no1 ~q\nl0 q\nc foobar\n"),
        ("aiger", 0, b"aig 5 1 1 0 3 1 1\n10 0\n4\n3\n\x01\x02\x04\x02\x01\x02"),
        ("aiger", 0, b"aag 3 2 0 1 1 1 1 2 1\n2\n4\n6\n2\n3\n1\n2\n1\n4\n5\n6\n6 4 2\n"),
    ];
    for (fmt, opts, bytes) in fixed {
        case += 1;
        writeln!(w, "case fixed {} {}", fmt, case).unwrap();
        writeln!(w, "file {} {} 0 - {}", fmt, opts, hex(bytes)).unwrap();
        writeln!(w, "truncall").unwrap();
        writeln!(w, "muts {} {}", rng.next() % 1_000_000, muts).unwrap();
    }
    // ---- generated valid files with expected truth tables
    for k in 0..files {
        case += 1;
        match k % 4 {
            0 => {
                let (t, n, tt, opts) = gen_cnf(rng);
                writeln!(w, "case gen cnf {}", case).unwrap();
                writeln!(w, "file dimacs {} {} {} {}", opts, n, tt, hex(&t)).unwrap();
            }
            1 => {
                let (t, n, tt, opts) = gen_sat(rng);
                writeln!(w, "case gen sat {}", case).unwrap();
                writeln!(w, "file dimacs {} {} {} {}", opts, n, tt, hex(&t)).unwrap();
            }
            2 => {
                let (t, n, tt, opts) = gen_nnf(rng);
                writeln!(w, "case gen nnf {}", case).unwrap();
                writeln!(w, "file nnf {} {} {} {}", opts, n, tt, hex(&t)).unwrap();
            }
            _ => {
                let (aag, aig, n, tt) = gen_aiger_pair(rng);
                writeln!(w, "case gen aiger {}", case).unwrap();
                writeln!(w, "pair {} {} {} {}", n, tt, hex(&aag), hex(&aig)).unwrap();
                writeln!(w, "truncall").unwrap();
                writeln!(w, "muts {} {}", rng.next() % 1_000_000, muts / 2).unwrap();
                writeln!(w, "usebase 2").unwrap();
            }
        }
        writeln!(w, "truncall").unwrap();
        writeln!(w, "muts {} {}", rng.next() % 1_000_000, muts).unwrap();
    }
    // ---- numbers and nesting the parsers must cope with (any failure here is a violation)
    let big = ["1152921504606846975", "1152921504606846976", "18446744073709551615", "99999999999", "99999999"];
    writeln!(w, "case stress numbers").unwrap();
    for (fmt, opts, tmpl) in [
        ("dimacs", 0, "p cnf N 1\n1 0\n"),
        ("dimacs", 0, "p cnf 1 N\n1 0\n"),
        ("nnf", 0, "nnf 1 0 N\nL 1\n"),
        ("nnf", 0, "nnf 2 1 1\nL 1\nA N 0\n"),
        ("nnf", 0, "nnf 1 0 1\nL N\n"),
        ("aiger", 0, "aag 1 1 0 1 0\n2\nN\n"),
        ("aiger", 0, "aig 1 0 0 0 1\n\x02N"),
    ] {
        for n in big {
            writeln!(w, "raw {} {} {}", fmt, opts, hex(tmpl.replace('N', n).as_bytes())).unwrap();
        }
    }
    // numbers beyond usize::MAX / 16 are rejected with a diagnostic everywhere
    for (fmt, opts, tmpl) in [
        ("dimacs", 0, "p sat N\n(1)\n"),
        ("nnf", 0, "nnf N 0 1\nL 1\n"),
        ("nnf", 0, "nnf 1 N 1\nL 1\n"),
        ("aiger", 0, "aag N 0 0 0 0\n"),
        ("aiger", 0, "aig N 0 N 0 0\n"),
        ("aiger", 0, "aag 0 0 0 0 0 0 0 N\n"),
        ("dimacs", 1, "c N\np cnf 1 1\n1 0\n"),
        ("dimacs", 1, "c vo [N]\np cnf 1 1\n1 0\n"),
        ("dimacs", 2, "c co [N]\np cnf 1 1\n1 0\n"),
    ] {
        for n in ["1152921504606846976", "18446744073709551615", "18446744073709551616"] {
            writeln!(w, "raw {} {} {}", fmt, opts, hex(tmpl.replace('N', n).as_bytes())).unwrap();
        }
    }
    writeln!(w, "case stress nesting").unwrap();
    for (fmt, opts, kind, n) in [("dimacs", 0, "sat-parens", 1000), ("dimacs", 0, "sat-neg", 1000), ("dimacs", 1, "tree", 1000),
        ("dimacs", 0, "cnf-long", if cfg.thorough { 2_000_000 } else { 200_000 })] {
        writeln!(w, "big {} {} {} {}", fmt, opts, kind, n).unwrap();
    }

    // ---- AIGER 1.9: structured problems, each as aag, renumbered aag and aig
    {
        let jpats: &[&[usize]] = &[&[], &[0], &[1], &[2], &[0, 0], &[1, 0, 3], &[5], &[2, 1], &[0, 2, 0], &[3, 3], &[1, 1, 1, 1, 1]];
        let sizes = [0usize, 1, 2, 5];
        let ands = [0usize, 1, 2, 5, 9];
        // (o, b, c, j, f; None = chosen at random)
        let mut shapes: Vec<(Option<usize>, Option<usize>, Option<usize>, Vec<usize>, usize)> = Vec::new();
        // every justice shape with every number of fairness constraints (more fairness constraints
        // than justice literals, fewer, none of either), the other sections at random
        for jp in jpats {
            for f in sizes {
                shapes.push((None, None, None, jp.to_vec(), f));
            }
        }
        // one section alone, in every size
        for sec in 0..4 {
            for n in sizes {
                let pick = |k: usize| Some(if k == sec { n } else { 0 });
                shapes.push((pick(0), pick(1), pick(2), Vec::new(), if sec == 3 { n } else { 0 }));
            }
        }
        let random = if cfg.thorough { 1100 * scale } else { 100 * scale };
        for _ in 0..random {
            let j = if rng.chance(1, 3) { Vec::new() } else { (0..rng.range(1, 4)).map(|_| *rng.pick(&[0usize, 1, 1, 2, 3, 5])).collect() };
            shapes.push((None, None, None, j, *rng.pick(&sizes)));
        }
        for (n, (o, b, c, j, f)) in shapes.into_iter().enumerate() {
            let i = rng.below(5) as usize;
            let l = (rng.below(4) as usize).min(6 - i);
            let sh = Shape {
                i,
                l: if n % 7 == 3 { 3.min(6 - i) } else { l },
                a: *rng.pick(&ands),
                o: o.unwrap_or_else(|| *rng.pick(&sizes)),
                b: b.unwrap_or_else(|| *rng.pick(&sizes)),
                c: c.unwrap_or_else(|| *rng.pick(&sizes)),
                j,
                f,
                sym: match rng.below(4) { 0 => 0, 1 | 2 => 1, _ => 2 },
            };
            case += 1;
            writeln!(w, "case aiger19 {}", case).unwrap();
            writeln!(w, "aig19 {} {} first", rng.next() % 1_000_000_000, shape_words(&sh)).unwrap();
            if n % (if cfg.thorough { 20 } else { 8 }) == 0 {
                // prefixes and mutations of the ASCII file, then of the binary one
                let k = if cfg.thorough { muts / 3 } else { muts / 2 };
                writeln!(w, "truncall").unwrap();
                writeln!(w, "muts {} {}", rng.next() % 1_000_000, k).unwrap();
                writeln!(w, "usebase 2").unwrap();
                writeln!(w, "truncall").unwrap();
                writeln!(w, "muts {} {}", rng.next() % 1_000_000, k).unwrap();
            }
        }
    }

    // ---- boundary values in every numeric field of otherwise valid files
    for (name, fmt, opts, text) in BOUND_TEMPLATES {
        let (pieces, fields) = template_fields(text);
        writeln!(w, "case bounds {} template", name).unwrap();
        writeln!(w, "file {} {} 0 - {}", fmt, opts, hex(&instantiate(&pieces, &fields, None, b""))).unwrap();
        // every single field, and the group of coupled fields as one more
        let grouped: Vec<usize> = (0..fields.len()).filter(|&k| fields[k].1).collect();
        let mut targets: Vec<Vec<usize>> = (0..fields.len()).filter(|&k| !fields[k].1).map(|k| vec![k]).collect();
        if !grouped.is_empty() {
            targets.push(grouped);
        }
        for t in targets {
            writeln!(w, "case bounds {} field {}", name, t.iter().map(|k| k.to_string()).collect::<Vec<_>>().join("+")).unwrap();
            let mut vals: Vec<&str> = BOUNDS_CORE.to_vec();
            if cfg.thorough {
                vals.extend_from_slice(BOUNDS_EXTRA);
            } else {
                for _ in 0..4 {
                    vals.push(*rng.pick(BOUNDS_EXTRA));
                }
            }
            for v in vals {
                let input = instantiate(&pieces, &fields, Some(&|k| t.contains(&k)), v.as_bytes());
                writeln!(w, "bnd {} {} {}", fmt, opts, hex(&input)).unwrap();
            }
        }
    }
    // binary AIGER: the four deltas of two AND gates (6 = 4 & 2, 8 = 6 & 3)
    for d in 0..4 {
        writeln!(w, "case bounds aig-delta field {}", d).unwrap();
        for e in varint_bounds() {
            let mut input = b"aig 4 2 0 1 2\n8\n".to_vec();
            for (k, orig) in [2u8, 2, 2, 3].iter().enumerate() {
                if k == d {
                    input.extend_from_slice(&e);
                } else {
                    input.push(*orig);
                }
            }
            input.extend_from_slice(b"o0 out\n");
            writeln!(w, "bnd aiger 0 {}", hex(&input)).unwrap();
        }
    }

    // ---- listed known findings: one dedicated, deterministic case per class (both tiers)
    // (1) memory reserved by a number of the input: allocation failure abort / capacity overflow
    writeln!(w, "case kf-parser-alloc").unwrap();
    for (fmt, opts, tmpl) in [
        ("nnf", 0, "nnf N 0 1\nL 1\n"),
        ("nnf", 0, "nnf 1 N 1\nL 1\n"),
        ("dimacs", 0, "p sat N\n(1)\n"),
        ("aiger", 0, "aag N 0 0 0 0\n"),
        ("aiger", 0, "aig N N 0 0 0\n"),
        ("aiger", 0, "aig N 0 N 0 0\n"),
        ("aiger", 0, "aag N 0 0 N 0\n"),
        ("aiger", 0, "aig N 0 0 0 N\n"),
        ("aiger", 0, "aag 0 0 0 0 0 N\n"),
        ("aiger", 0, "aag 0 0 0 0 0 0 N\n"),
        ("aiger", 0, "aag 0 0 0 0 0 0 0 N\n"),
        ("aiger", 0, "aag 0 0 0 0 0 0 0 0 N\n"),
        ("aiger", 0, "aag 0 0 0 0 0 0 0 1\nN\n"),
        ("dimacs", 1, "c N\np cnf 1 1\n1 0\n"),
        ("dimacs", 1, "c vo [N]\np cnf 1 1\n1 0\n"),
        ("dimacs", 2, "c co [N]\np cnf 1 1\n1 0\n"),
        ("nnf", 1, "c N x\nnnf 1 0 1\nL 1\n"),
        ("nnf", 1, "c vo [N]\nnnf 1 0 1\nL 1\n"),
    ] {
        for n in ["1152921504606846975", "99999999999"] {
            writeln!(w, "raw {} {} {}", fmt, opts, hex(tmpl.replace('N', n).as_bytes())).unwrap();
        }
    }
    // (2) clause tree given, zero clauses declared: `num_clauses - 1` underflows (debug builds)
    writeln!(w, "case kf-parser-co-zero-clauses").unwrap();
    writeln!(w, "raw dimacs 2 {}", hex(b"c co [0]\np cnf 1 0\n")).unwrap();
    writeln!(w, "raw dimacs 3 {}", hex(b"c 1 a\nc co [[0, 1]]\np cnf 1 0\n")).unwrap();
    // (3) order tree without leaves is accepted by `tree()` and violates `VarSet::check_valid`
    writeln!(w, "case kf-parser-empty-order-tree").unwrap();
    writeln!(w, "raw dimacs 1 {}", hex(b"c vo []\np cnf 1 1\n1 0\n")).unwrap();
    writeln!(w, "raw nnf 1 {}", hex(b"c vo [ [] ]\nnnf 1 0 1\nL 1\n")).unwrap();
    // (4) diagnostics that mention a placeholder span: offset computation underflows in load_file
    writeln!(w, "case kf-parser-diag-span").unwrap();
    for t in [&b"aag 0 0 0 0 0\nc0 x\n"[..], b"aag 0 0 0 0 0\nb0 x\n", b"aag 0 0 0 0 0 0\nj0 x\n", b"aig 0 0 0 0 0\nf0 x\n"] {
        writeln!(w, "raw aiger 0 {}", hex(t)).unwrap();
    }
    writeln!(w, "raw dimacs 1 {}", hex(b"c vo []\np cnf 3 4\n1 0\n")).unwrap();
    // (5) recursion depth = nesting depth of the input: stack overflow
    writeln!(w, "case kf-parser-deep-nesting").unwrap();
    for (opts, kind) in [(0, "sat-parens"), (0, "sat-neg"), (1, "tree")] {
        writeln!(w, "big dimacs {} {} 400000", opts, kind).unwrap();
    }
    // ---- candidates for new findings: only with `gen --kf-candidates 1`
    if cfg.extra.get("kf-candidates").map(|s| s.as_str()) == Some("1") {
        // TVBitVec (latch reset values) keeps everything in its first block and reads element i at
        // bits i, i+1 instead of 2i, 2i+1: values of latch 1.. are wrong, index 16 is out of bounds
        writeln!(w, "case kf-candidate-latch-init-values").unwrap();
        writeln!(w, "latchinit {} 00", hex(b"aag 2 0 2 0 0\n2 0\n4 0\n")).unwrap();
        writeln!(w, "latchinit {} 00", hex(b"aig 2 0 2 0 0\n0\n0\n")).unwrap();
        writeln!(w, "latchinit {} -1", hex(b"aag 2 0 2 0 0\n2 0 2\n4 0 1\n")).unwrap();
        writeln!(w, "latchinit {} 100", hex(b"aag 3 0 3 0 0\n2 0 1\n4 0 0\n6 0 0\n")).unwrap();
        writeln!(w, "latchinit {} 0-1", hex(b"aig 3 0 3 0 0\n0\n0 4\n0 1\n")).unwrap();
        for k in 0..6 {
            let sh = Shape { i: k % 3, l: 2 + k % 2, a: 2, o: 1, b: 0, c: 0, j: Vec::new(), f: 0, sym: 0 };
            writeln!(w, "aig19 {} {} all", 1000 + k, shape_words(&sh)).unwrap();
        }
        writeln!(w, "case kf-candidate-latch-init-17").unwrap();
        let mut t = String::from("aag 17 0 17 0 0\n");
        for k in 0..17 {
            t.push_str(&format!("{} 0\n", 2 * (k + 1)));
        }
        writeln!(w, "latchinit {} {}", hex(t.as_bytes()), "0".repeat(17)).unwrap();
        writeln!(w, "dbgfmt {}", hex(t.as_bytes())).unwrap();
    }
    // Known finding KF-parser-deep-chain: Circuit::find_cycle (check_acyclic, on by default) recurses
    // along the gates: a chain of AND gates written with forward references overflows the stack
    writeln!(w, "case kf-parser-deep-chain").unwrap();
    writeln!(w, "big aiger 0 aag-chain 300000").unwrap();
    writeln!(w, "big nnf 0 nnf-chain 300000").unwrap();
    let _ = case;
}

fn make(_f: &BTreeMap<String, String>) -> Box<dyn Scenario> {
    // scratch directory of this run (input files for `load_file` and for the child process);
    // directories left behind by runs that ended more than half an hour ago are removed
    if let Ok(rd) = std::fs::read_dir(std::env::temp_dir()) {
        for e in rd.flatten() {
            let old = e.metadata().and_then(|m| m.modified()).ok().and_then(|t| t.elapsed().ok()).map_or(false, |d| d.as_secs() > 1800);
            if old && e.file_name().to_string_lossy().starts_with("c18_parsers_") {
                let _ = std::fs::remove_dir_all(e.path());
            }
        }
    }
    let tmp = std::env::temp_dir().join(format!("c18_parsers_{}", std::process::id()));
    let _ = std::fs::create_dir_all(&tmp);
    Box::new(Parsers { base: Vec::new(), base2: Vec::new(), fmt: Fmt::Dimacs, opts: 0, tmp, force_child: false, child_mem_mb: CHILD_MEM_MB })
}

fn main() {
    let args: Vec<String> = std::env::args().collect();
    if args.get(1).map(|s| s.as_str()) == Some("--one-input") {
        child_main(&args);
    }
    harness_main(generate, make)
}
