//! C19, ABI layout: `size_of` / `align_of` / field offsets of every FFI type as the Rust side of the
//! harness sees it (the hand-written `#[repr(C)]` mirrors, the `oxidd-ffi-c` crate is a
//! cdylib/staticlib and exports no Rust types), the bit pattern of the INVALID handle and the
//! by-value passing of handles / pairs / manager handles as the freshly built `liboxidd_ffi_c.so`
//! does it.  One output line per operation line; the Lean side (`OxiddModel.Ffi.DriverAbi`) predicts
//! every line from the tables that `tools/extract_ffi_abi.py` extracts from
//! `crates/oxidd-ffi-c/src/*.rs` (C layout algorithm over the extracted field types).
//!
//! The table `mirrors! { "c type" => Mirror { fields } }` below is read by the translator: it is the
//! correspondence source type <-> mirror that obligations (c)/(d) of `Generated/ObFfiAbi.lean` use,
//! and the generator emits one `layout` line per row.
//!
//! Operation lines: `layout <c type>`; `invalid <kind>` (bytes of `oxidd_<kind>_cofactor_true(INVALID)`);
//! `pair <kind>` (`cofactors(x0)` against `cofactor_true/false(x0)`, bit for bit);
//! `manager <kind>` (`containing_manager(f)._p == manager._p`, `ref(f)` returns `f`'s bits).

use oxv::*;
use std::collections::BTreeMap;
use std::ffi::{CString, c_char, c_void};
use std::io::Write;
use std::mem::{align_of, offset_of, size_of};
use std::ptr::null;

fn ffi_target_dir() -> String {
    if let Ok(exe) = std::env::current_exe() {
        if let Some(h) = exe.parent().and_then(|p| p.parent()).and_then(|p| p.parent()) {
            if h.join("Cargo.toml").exists() {
                return h.join("target-ffi").to_string_lossy().into_owned();
            }
        }
    }
    "/verif/harness/target-ffi".to_string()
}
fn default_lib() -> String {
    format!("{}/release/liboxidd_ffi_c.so", ffi_target_dir())
}

// ------------------------------------------------------------------------------------------------
// the mirrors (same declarations as in c19_capi.rs / c19_capi_multi.rs; the translator compares the
// three files with each other and with the source)

/// `oxidd_bdd_t` / `oxidd_bcdd_t` / `oxidd_zbdd_t`
#[repr(C)]
#[derive(Clone, Copy, PartialEq, Eq, Debug)]
struct CF {
    p: *const c_void,
    i: usize,
}
const INVALID: CF = CF { p: null(), i: 0 };
/// `oxidd_*_manager_t`
#[repr(C)]
#[derive(Clone, Copy)]
struct CM {
    p: *const c_void,
}
#[repr(C)]
struct CPair {
    first: CF,
    second: CF,
}
#[repr(C)]
struct CRange {
    start: u32,
    end: u32,
}
#[repr(C)]
struct CDup {
    added: CRange,
    present_var: u32,
}
#[repr(C)]
#[derive(Clone, Copy)]
struct CVarBool {
    var: u32,
    val: bool,
}
#[repr(C)]
struct CAssignment {
    data: *mut i8,
    len: usize,
}
#[repr(C)]
struct CNatural {
    ptr: *mut u64,
    len: u64,
    shl: u64,
}
#[repr(C)]
struct CStringT {
    data: *const c_char,
    len: usize,
    cap: usize,
}
#[repr(C)]
struct CError {
    msg: CStringT,
}
#[repr(C)]
#[derive(Clone, Copy)]
struct CStr {
    ptr: *const c_char,
    len: usize,
}
#[repr(C)]
struct CDddmpSettings {
    version: u8,
    ascii: bool,
    strict: bool,
    diagram_name: CStr,
}
/// `oxidd_opt_*`
#[repr(C)]
struct COpt<T: Copy> {
    is_some: bool,
    value: std::mem::MaybeUninit<T>,
}
#[repr(C)]
struct CSizeHint {
    lower: usize,
    upper: usize,
}
/// `oxidd_iter_*`
#[repr(C)]
struct CIter<T: Copy> {
    next: extern "C" fn(*mut c_void) -> COpt<T>,
    size_hint: Option<extern "C" fn(*mut c_void) -> CSizeHint>,
    context: *mut c_void,
}
/// `oxidd_named_*`
#[repr(C)]
#[derive(Clone, Copy)]
struct CNamed {
    func: CF,
    name: CStr,
}
/// `oxidd_slice_*` (returned by the `oxidd_dddmp_support_*` accessors)
#[repr(C)]
struct CSlice<T> {
    ptr: *const T,
    len: usize,
}

macro_rules! mirrors {
    ($( $c:literal => $t:ty { $($f:ident),* } ),* $(,)?) => {
        /// the C type names of the table, in order
        const C_TYPES: &[&str] = &[$($c),*];
        /// (size, align, field offsets) of the mirror of a C type
        fn layout_of(name: &str) -> Option<(usize, usize, Vec<usize>)> {
            match name {
                $( $c => Some((size_of::<$t>(), align_of::<$t>(), vec![$(offset_of!($t, $f)),*])), )*
                _ => None,
            }
        }
    };
}

mirrors! {
    "bdd_t" => CF { p, i },
    "bcdd_t" => CF { p, i },
    "zbdd_t" => CF { p, i },
    "bdd_manager_t" => CM { p },
    "bcdd_manager_t" => CM { p },
    "zbdd_manager_t" => CM { p },
    "bdd_pair_t" => CPair { first, second },
    "bcdd_pair_t" => CPair { first, second },
    "zbdd_pair_t" => CPair { first, second },
    "var_no_range_t" => CRange { start, end },
    "duplicate_var_name_result_t" => CDup { added, present_var },
    "var_no_bool_pair_t" => CVarBool { var, val },
    "assignment_t" => CAssignment { data, len },
    "natural_t" => CNatural { ptr, len, shl },
    "string_t" => CStringT { data, len, cap },
    "error_t" => CError { msg },
    "str_t" => CStr { ptr, len },
    "dddmp_export_settings_t" => CDddmpSettings { version, ascii, strict, diagram_name },
    "size_hint_t" => CSizeHint { lower, upper },
    "opt<bdd_t>" => COpt<CF> { is_some, value },
    "opt<str_t>" => COpt<CStr> { is_some, value },
    "opt<named<bdd_t>>" => COpt<CNamed> { is_some, value },
    "opt<var_no_bool_pair_t>" => COpt<CVarBool> { is_some, value },
    "iter<bdd_t>" => CIter<CF> { next, size_hint, context },
    "iter<bcdd_t>" => CIter<CF> { next, size_hint, context },
    "iter<zbdd_t>" => CIter<CF> { next, size_hint, context },
    "iter<str_t>" => CIter<CStr> { next, size_hint, context },
    "iter<named<bdd_t>>" => CIter<CNamed> { next, size_hint, context },
    "named<bdd_t>" => CNamed { func, name },
    "named<bcdd_t>" => CNamed { func, name },
    "named<zbdd_t>" => CNamed { func, name },
    "slice<VarNo>" => CSlice<u32> { ptr, len },
    "slice<LevelNo>" => CSlice<u32> { ptr, len },
    "BooleanOperator" => u8 {},
    "dddmp_version" => u8 {},
    "partial_ordering" => i8 {},
}

// ------------------------------------------------------------------------------------------------
// the library

struct Lib(*mut c_void);
impl Lib {
    fn open(path: &str) -> Result<Lib, String> {
        let c = CString::new(path).unwrap();
        let h = unsafe { libc::dlopen(c.as_ptr(), libc::RTLD_NOW | libc::RTLD_LOCAL) };
        if h.is_null() {
            return Err(format!("dlopen({path}) failed"));
        }
        Ok(Lib(h))
    }
    /// SAFETY: `T` must be the function pointer type of the symbol
    unsafe fn sym<T: Copy>(&self, kind: &str, name: &str) -> Result<T, String> {
        assert_eq!(size_of::<T>(), size_of::<*mut c_void>());
        let full = format!("oxidd_{kind}_{name}");
        let c = CString::new(full.clone()).unwrap();
        let p = unsafe { libc::dlsym(self.0, c.as_ptr()) };
        if p.is_null() { Err(format!("missing-symbol:{full}")) } else { Ok(unsafe { std::mem::transmute_copy::<*mut c_void, T>(&p) }) }
    }
}

type F1 = unsafe extern "C" fn(CF) -> CF;

/// the entry points this scenario calls (read by tools/extract_ffi_abi.py like the table of
/// c19_capi.rs: every field type is compared with the source's signature in every family)
struct Api {
    manager_new: unsafe extern "C" fn(usize, usize, u32) -> CM,
    manager_unref: unsafe extern "C" fn(CM),
    add_vars: unsafe extern "C" fn(CM, u32) -> CRange,
    num_vars: unsafe extern "C" fn(CM) -> u32,
    var: unsafe extern "C" fn(CM, u32) -> CF,
    fref: F1,
    funref: unsafe extern "C" fn(CF),
    containing_manager: unsafe extern "C" fn(CF) -> CM,
    cofactors: unsafe extern "C" fn(CF) -> CPair,
    cofactor_true: F1,
    cofactor_false: F1,
}

fn load_api(lib: &Lib, kind: &str) -> Result<Api, String> {
    macro_rules! req {
        ($n:literal) => {
            unsafe { lib.sym(kind, $n) }?
        };
    }
    Ok(Api {
        manager_new: req!("manager_new"),
        manager_unref: req!("manager_unref"),
        add_vars: req!("manager_add_vars"),
        num_vars: req!("manager_num_vars"),
        var: req!("var"),
        fref: req!("ref"),
        funref: req!("unref"),
        containing_manager: req!("containing_manager"),
        cofactors: req!("cofactors"),
        cofactor_true: req!("cofactor_true"),
        cofactor_false: req!("cofactor_false"),
    })
}

fn bytes_of<T>(v: &T) -> String {
    let p = v as *const T as *const u8;
    (0..size_of::<T>()).map(|k| format!("{:02x}", unsafe { *p.add(k) })).collect()
}

struct Abi {
    lib: Result<Lib, String>,
}

impl Abi {
    fn api(&self, kind: &str) -> Result<Api, String> {
        load_api(self.lib.as_ref().map_err(|e| e.clone())?, kind)
    }
    fn invalid(&self, kind: &str) -> Result<String, String> {
        let api = self.api(kind)?;
        let r = unsafe { (api.cofactor_true)(INVALID) };
        Ok(format!("bytes={}", bytes_of(&r)))
    }
    /// manager with one variable and the function x0
    fn with_x0<R>(&self, kind: &str, body: impl FnOnce(&Api, CM, CF) -> Result<R, String>) -> Result<R, String> {
        let api = self.api(kind)?;
        let m = unsafe { (api.manager_new)(1024, 1024, 1) };
        if m.p.is_null() {
            return Err("manager-null".into());
        }
        let r = unsafe { (api.add_vars)(m, 1) };
        if (r.start, r.end) != (0, 1) {
            unsafe { (api.manager_unref)(m) };
            return Err(format!("add_vars={}..{}", r.start, r.end));
        }
        let x = unsafe { (api.var)(m, 0) };
        let out = if x.p.is_null() { Err("var-invalid".to_string()) } else { body(&api, m, x) };
        unsafe { (api.funref)(x) };
        unsafe { (api.manager_unref)(m) };
        out
    }
    fn pair(&self, kind: &str) -> Result<String, String> {
        self.with_x0(kind, |api, _m, x| {
            let p = unsafe { (api.cofactors)(x) };
            let (t, f) = unsafe { ((api.cofactor_true)(x), (api.cofactor_false)(x)) };
            let name = |h: CF| if h == t && h != f { "cofactor_true" } else if h == f && h != t { "cofactor_false" } else { "other" };
            let s = format!("first={} second={} valid={}", name(p.first), name(p.second), (p.first.ok2() && p.second.ok2()) as u8);
            for h in [p.first, p.second, t, f] {
                unsafe { (api.funref)(h) };
            }
            Ok(s)
        })
    }
    fn manager(&self, kind: &str) -> Result<String, String> {
        self.with_x0(kind, |api, m, x| {
            let m2 = unsafe { (api.containing_manager)(x) };
            let y = unsafe { (api.fref)(x) };
            let s = format!("containing={} ref_same={} num_vars={}", (m2.p == m.p) as u8, (y == x) as u8, unsafe { (api.num_vars)(m2) });
            unsafe { (api.funref)(y) };
            unsafe { (api.manager_unref)(m2) };
            Ok(s)
        })
    }
}
impl CF {
    fn ok2(self) -> bool {
        !self.p.is_null()
    }
}

impl Scenario for Abi {
    fn reset(&mut self) {}
    fn step(&mut self, line: &str, ctx: &mut Ctx) -> String {
        let w: Vec<&str> = line.split_whitespace().collect();
        match w.as_slice() {
            ["layout", ty] => match layout_of(ty) {
                Some((s, a, offs)) => {
                    ctx.count("layout");
                    // oracle, independent of the model: size is a multiple of the alignment, offsets ascend and fit
                    if a == 0 || s % a != 0 || offs.windows(2).any(|p| p[0] >= p[1]) || offs.iter().any(|&o| o >= s.max(1)) {
                        ctx.fail("abi-layout-inconsistent", &format!("{ty}: size {s} align {a} offsets {offs:?}"));
                    }
                    format!("layout {ty} size={s} align={a} offsets={}", offs.iter().map(|o| o.to_string()).collect::<Vec<_>>().join(","))
                }
                None => "bad-op".to_string(),
            },
            [op @ ("invalid" | "pair" | "manager"), kind @ ("bdd" | "bcdd" | "zbdd")] => {
                ctx.count(op);
                let r = match *op {
                    "invalid" => self.invalid(kind),
                    "pair" => self.pair(kind),
                    _ => self.manager(kind),
                };
                match r {
                    Ok(s) => format!("{op} {kind} {s}"),
                    Err(e) => {
                        ctx.fail("abi-call-failed", &format!("{op} {kind}: {e}"));
                        format!("{op} {kind} error:{e}")
                    }
                }
            }
            _ => "bad-op".to_string(),
        }
    }
}

fn generate(_cfg: &GenCfg, _rng: &mut Rng, w: &mut dyn Write) {
    writeln!(w, "case layouts").unwrap();
    for c in C_TYPES {
        writeln!(w, "layout {c}").unwrap();
    }
    writeln!(w, "layout no_such_t").unwrap();
    for k in ["bdd", "bcdd", "zbdd"] {
        writeln!(w, "case calls-{k}").unwrap();
        writeln!(w, "invalid {k}").unwrap();
        writeln!(w, "pair {k}").unwrap();
        writeln!(w, "manager {k}").unwrap();
    }
}
fn make(f: &BTreeMap<String, String>) -> Box<dyn Scenario> {
    let path = f.get("lib").cloned().unwrap_or_else(default_lib);
    Box::new(Abi { lib: Lib::open(&path) })
}
fn main() {
    harness_main(generate, make)
}
