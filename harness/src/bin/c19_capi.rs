//! C19 — the C interface (`oxidd-ffi-c`): ownership of handles is balanced and every call
//! produces the same function as the corresponding Rust API call. Protocol `capi`.
//!
//! Every operation line is executed twice in the same process: through the C API of the freshly
//! built `liboxidd_ffi_c.so` (loaded with `dlopen`, its own manager) and through the Rust API
//! (`oxidd::bdd` / `bcdd` / `zbdd`, its own manager). The canonical output is computed from the
//! C side only (trees are walked with `oxidd_*_cofactors`, `oxidd_*_node_var`, `oxidd_*_valid` /
//! `oxidd_*_satisfiable`); the Rust side is the reference of the oracles.
//!
//! Because a defect in this layer typically shows as a segmentation fault or an abort (a panic in
//! an `extern "C"` function aborts the process), all calls into the library happen in a child
//! process (`c19_capi child`), to which the `run` process forwards the operation lines one by
//! one. A dead child is reported as oracle failure `capi-crash` for the case that killed it.
//!
//! Operation lines (h, a, b, c: handle names; v: variable number):
//!
//! ```text
//! mgr <bdd|bcdd|zbdd> vars=<n> [cap=<c>]     new manager (C: manager_new + add_vars)            ok
//! addvars k | addnamed n1 n2 … ('-' = unnamed) [iter=1: add_named_vars_iter]      a..b [dup=<v|->]
//! numvars | numnamed | varname v [cb=1: with_var_name] | name2var s | setname v s | v2l v | l2v l
//! order v…                                   set_var_order                        new level→var map
//! const h T|F | var h v | notvar h v | zconst h empty|base | singleton h v        tree | INVALID
//! op h not a | op h <and|or|…> a b | op h ite a b c                              tree | INVALID
//! pool h a b                                 oxidd_*_and called inside run_in_worker_pool
//! quant h <forall|exists|unique> a vs | applyq h <q> <op> a b vs | restrict h a c (BDD, BCDD)
//! mksubst s v=h … | subst h a s | dropsubst s                                    (BDD, BCDD)
//! subset0|subset1|change h a v | union|intsec|diff h a b | mknode h var hi lo     (ZBDD)
//! cof h1 h2 a | coft h a | cofe h a          cofactors (two owned handles)        trees | none
//! pick h a | pickset h a b                   pick_cube_dd / pick_cube_dd_set
//! count a | sat a | valid a | satcount a vars | pickvec a | eval a <bits> | level a | nvar a
//! show a | tt a                              canonical tree / truth table (hex) through the C API
//! ref a | unref a | mref | munref | cmgr a   reference counting                    ok
//! gc                                         collect, then num_inner_nodes         count
//! dddmp a b … [names=1] [v=3] [iter=1] | dot a b … [iter=1] | import a b …
//!                                            export (DDDMP compared byte for byte with the Rust
//!                                            API's export; iter=1: the `_iter` variants), re-import
//! invalid h                                  an INVALID handle from an exhausted tiny manager
//! end                                        unref everything, gc: remaining nodes
//! ```
//!
//! Every output line ends with ` | o<k> m<j>`: the number of C-owned function references and of
//! C-owned manager references according to the documentation-level ledger.
//!
//! Oracles (signatures): `capi-differs` (C result ≠ Rust API result: tree, truth table, counts,
//! names, exported bytes), `capi-node-balance` (after `gc`/`end` the manager holds exactly the
//! nodes reachable from the C-owned references and substitution objects; at `end`: none, ZBDD:
//! the tautology chain), `capi-node-count-differs` (C side and Rust side manager hold the same
//! number of nodes after every line), `capi-arg-consumed` / `capi-handle-changed` (arguments and
//! all live handles still denote what they denoted), `capi-invalid-not-propagated`,
//! `capi-invalid-changed-state`, `capi-unexpected-invalid`, `capi-make-node-leak` (node balance
//! failures after `make_node` ran on a path on which /repo's wrapper does not take `hi`/`lo`
//! over), `capi-cap0-not-unlimited` (only while the documentation of `manager_new` promises
//! that capacity 0 means "no limit"), `capi-crash` / `capi-hang` (the child process died / did
//! not answer; in the dedicated known-finding case `kf-zbdd-addvars-oom-capi`, generated with
//! `gen … --kf 1`, the signature is `crash`).
//!
//! The generator emits, besides uniformly drawn calls, *degenerate shapes* (`Gen::degenerate_op`,
//! `enum-degenerate-*`: the result is an argument or a constant — and(f,⊤), ite(c,g,g), empty
//! variable sets, substitutions without pairs, …) whose result is released and collected right
//! away: a wrapper handing back a borrowed reference there loses the argument's nodes, which the
//! node balance / `capi-handle-changed` oracles report; and *order blocks* (`Gen::order_block`,
//! `enum-order-*`: permutations that are not involutions, followed by `v2l`/`l2v` for every
//! variable, `level`/`nvar` of every variable's function and name queries).
//!
//! `run` rebuilds the library from /repo's working tree first (`cargo build -p oxidd-ffi-c` into
//! /verif/harness/target-ffi) unless `--no-build` is given; `--lib <path>` selects another file.

use oxv::*;
use std::collections::{BTreeMap, BTreeSet};
use std::ffi::{CString, c_char, c_void};
use std::io::{BufRead, BufReader, Write};
use std::ptr::null;

use oxidd::bcdd::BCDDFunction;
use oxidd::bdd::BDDFunction;
use oxidd::util::num::{F64, Natural};
use oxidd::util::{AllocResult, OptBool, SatCountCache};
use oxidd::zbdd::ZBDDFunction;
use oxidd::{
    BooleanFunction, BooleanFunctionQuant, BooleanOperator, BooleanVecSet, Function, FunctionSubst,
    HasLevel, Manager, ManagerRef, Node, Subst,
};

/// `<harness>/target-ffi`, derived from the location of this executable (`<harness>/target/release/c19_capi`)
/// so that a copy of /verif (tools/seed_eval.py) uses its own library build
fn ffi_target_dir() -> String {
    if let Ok(exe) = std::env::current_exe() {
        if let Some(h) = exe.parent().and_then(|p| p.parent()).and_then(|p| p.parent()) {
            if h.join("Cargo.toml").exists() {
                return h.join("target-ffi").to_string_lossy().into_owned();
            }
        }
    }
    "/verif/harness/target-ffi".to_string()
}
fn default_lib() -> String {
    format!("{}/release/liboxidd_ffi_c.so", ffi_target_dir())
}
fn tmp_dir() -> String {
    format!("{}/tmp", ffi_target_dir())
}
fn repo_dir() -> String {
    std::env::var("OXIDD_REPO").unwrap_or_else(|_| "/repo".to_string())
}
const NONE32: u32 = u32::MAX;

// ------------------------------------------------------------------------------------------------
// the C ABI, declared from crates/oxidd-ffi-c/src/{bdd,bcdd,zbdd}.rs and util/*.rs

/// `oxidd_bdd_t` / `oxidd_bcdd_t` / `oxidd_zbdd_t`
#[repr(C)]
#[derive(Clone, Copy, PartialEq, Eq, Debug)]
struct CF {
    p: *const c_void,
    i: usize,
}
const INVALID: CF = CF { p: null(), i: 0 };
impl CF {
    fn ok(self) -> bool {
        !self.p.is_null()
    }
}
/// `oxidd_*_manager_t`
#[repr(C)]
#[derive(Clone, Copy)]
struct CM {
    p: *const c_void,
}
#[repr(C)]
struct CPair {
    first: CF,
    second: CF,
}
#[repr(C)]
struct CRange {
    start: u32,
    end: u32,
}
#[repr(C)]
struct CDup {
    added: CRange,
    present_var: u32,
}
#[repr(C)]
#[derive(Clone, Copy)]
struct CVarBool {
    var: u32,
    val: bool,
}
#[repr(C)]
struct CAssignment {
    data: *mut i8,
    len: usize,
}
#[repr(C)]
struct CNatural {
    ptr: *mut u64,
    len: u64,
    shl: u64,
}
#[repr(C)]
struct CStringT {
    data: *const c_char,
    len: usize,
    cap: usize,
}
#[repr(C)]
struct CError {
    msg: CStringT,
}
#[repr(C)]
#[derive(Clone, Copy)]
struct CStr {
    ptr: *const c_char,
    len: usize,
}
#[repr(C)]
struct CDddmpSettings {
    version: u8,
    ascii: bool,
    strict: bool,
    diagram_name: CStr,
}

/// `oxidd_opt_*`
#[repr(C)]
struct COpt<T: Copy> {
    is_some: bool,
    value: std::mem::MaybeUninit<T>,
}
#[repr(C)]
struct CSizeHint {
    lower: usize,
    upper: usize,
}
/// `oxidd_iter_*`
#[repr(C)]
struct CIter<T: Copy> {
    next: extern "C" fn(*mut c_void) -> COpt<T>,
    size_hint: Option<extern "C" fn(*mut c_void) -> CSizeHint>,
    context: *mut c_void,
}
/// `oxidd_named_*`
#[repr(C)]
#[derive(Clone, Copy)]
struct CNamed {
    func: CF,
    name: CStr,
}
/// iterator state on our side
struct IterCtx<T: Copy> {
    items: Vec<T>,
    pos: usize,
}
extern "C" fn iter_next<T: Copy>(ctx: *mut c_void) -> COpt<T> {
    let c = unsafe { &mut *(ctx as *mut IterCtx<T>) };
    if c.pos < c.items.len() {
        c.pos += 1;
        COpt { is_some: true, value: std::mem::MaybeUninit::new(c.items[c.pos - 1]) }
    } else {
        COpt { is_some: false, value: std::mem::MaybeUninit::uninit() }
    }
}
extern "C" fn iter_hint<T: Copy>(ctx: *mut c_void) -> CSizeHint {
    let c = unsafe { &*(ctx as *const IterCtx<T>) };
    CSizeHint { lower: c.items.len() - c.pos, upper: c.items.len() - c.pos }
}
fn make_iter<T: Copy>(ctx: &mut IterCtx<T>, with_hint: bool) -> CIter<T> {
    CIter { next: iter_next::<T>, size_hint: if with_hint { Some(iter_hint::<T>) } else { None }, context: ctx as *mut IterCtx<T> as *mut c_void }
}

type F1 = unsafe extern "C" fn(CF) -> CF;
type F2 = unsafe extern "C" fn(CF, CF) -> CF;
type F3 = unsafe extern "C" fn(CF, CF, CF) -> CF;
type FQ = unsafe extern "C" fn(u8, CF, CF, CF) -> CF;
type FV = unsafe extern "C" fn(CF, u32) -> CF;
type MV = unsafe extern "C" fn(CM, u32) -> CF;
type M0 = unsafe extern "C" fn(CM) -> CF;

struct Lib(*mut c_void);
unsafe impl Send for Lib {}
unsafe impl Sync for Lib {}
impl Lib {
    fn open(path: &str) -> Result<Lib, String> {
        let c = CString::new(path).unwrap();
        let h = unsafe { libc::dlopen(c.as_ptr(), libc::RTLD_NOW | libc::RTLD_LOCAL) };
        if h.is_null() {
            let e = unsafe { libc::dlerror() };
            let msg = if e.is_null() { "?".to_string() } else { unsafe { std::ffi::CStr::from_ptr(e) }.to_string_lossy().into_owned() };
            return Err(format!("dlopen({path}): {msg}"));
        }
        Ok(Lib(h))
    }
    /// SAFETY: `T` must be the function pointer type of the symbol
    unsafe fn sym<T: Copy>(&self, name: &str) -> Option<T> {
        assert_eq!(std::mem::size_of::<T>(), std::mem::size_of::<*mut c_void>());
        let c = CString::new(name).unwrap();
        let p = unsafe { libc::dlsym(self.0, c.as_ptr()) };
        if p.is_null() { None } else { Some(unsafe { std::mem::transmute_copy::<*mut c_void, T>(&p) }) }
    }
}

/// the entry points of one diagram kind
#[allow(dead_code)]
struct Api {
    kind: &'static str,
    manager_new: unsafe extern "C" fn(usize, usize, u32) -> CM,
    manager_ref: unsafe extern "C" fn(CM) -> CM,
    manager_unref: unsafe extern "C" fn(CM),
    fref: F1,
    funref: unsafe extern "C" fn(CF),
    containing_manager: unsafe extern "C" fn(CF) -> CM,
    num_inner_nodes: unsafe extern "C" fn(CM) -> usize,
    approx_num_inner_nodes: unsafe extern "C" fn(CM) -> usize,
    num_vars: unsafe extern "C" fn(CM) -> u32,
    num_named_vars: unsafe extern "C" fn(CM) -> u32,
    add_vars: unsafe extern "C" fn(CM, u32) -> CRange,
    add_named_vars: unsafe extern "C" fn(CM, *const *const c_char, u32) -> CDup,
    var_name: unsafe extern "C" fn(CM, u32, *mut usize) -> *const c_char,
    set_var_name: unsafe extern "C" fn(CM, u32, *const c_char, usize) -> u32,
    name_to_var: unsafe extern "C" fn(CM, *const c_char, usize) -> u32,
    var_to_level: unsafe extern "C" fn(CM, u32) -> u32,
    level_to_var: unsafe extern "C" fn(CM, u32) -> u32,
    gc: unsafe extern "C" fn(CM) -> usize,
    gc_count: unsafe extern "C" fn(CM) -> u64,
    set_var_order: unsafe extern "C" fn(CM, *const u32, usize),
    export_dddmp: unsafe extern "C" fn(CM, *const c_char, usize, *const CF, usize, *const *const c_char, *const CDddmpSettings, *mut CError) -> bool,
    import_dddmp: unsafe extern "C" fn(CM, *mut c_void, *const u32, *mut CF, *mut CError) -> bool,
    dump_all_dot_path: unsafe extern "C" fn(CM, *const c_char, usize, *const CF, *const *const c_char, usize, *mut CError) -> bool,
    export_dddmp_iter: unsafe extern "C" fn(CM, *const c_char, usize, CIter<CF>, *const CDddmpSettings, *mut CError) -> bool,
    export_dddmp_with_names_iter: unsafe extern "C" fn(CM, *const c_char, usize, CIter<CNamed>, *const CDddmpSettings, *mut CError) -> bool,
    dump_all_dot_path_iter: unsafe extern "C" fn(CM, *const c_char, usize, CIter<CNamed>, *mut CError) -> bool,
    add_named_vars_iter: unsafe extern "C" fn(CM, CIter<CStr>) -> CDup,
    with_var_name: unsafe extern "C" fn(CM, u32, extern "C" fn(*mut c_void, *const c_char, usize) -> *mut c_void, *mut c_void) -> *mut c_void,
    run_in_worker_pool: unsafe extern "C" fn(CM, extern "C" fn(*mut c_void) -> *mut c_void, *mut c_void) -> *mut c_void,
    var: MV,
    not_var: MV,
    false_: M0,
    true_: M0,
    cofactors: unsafe extern "C" fn(CF) -> CPair,
    cofactor_true: F1,
    cofactor_false: F1,
    node_level: unsafe extern "C" fn(CF) -> u32,
    node_var: unsafe extern "C" fn(CF) -> u32,
    not: F1,
    bin: [(&'static str, F2); 8],
    ite: F3,
    node_count: unsafe extern "C" fn(CF) -> usize,
    satisfiable: unsafe extern "C" fn(CF) -> bool,
    valid: unsafe extern "C" fn(CF) -> bool,
    sat_count: unsafe extern "C" fn(CF, u32) -> CNatural,
    sat_count_double: unsafe extern "C" fn(CF, u32) -> f64,
    pick_cube: unsafe extern "C" fn(CF) -> CAssignment,
    pick_cube_dd: F1,
    pick_cube_dd_set: F2,
    eval: unsafe extern "C" fn(CF, *const CVarBool, usize) -> bool,
    // BDD and BCDD only
    substitute: Option<unsafe extern "C" fn(CF, *const c_void) -> CF>,
    substitution_new: Option<unsafe extern "C" fn(usize) -> *mut c_void>,
    substitution_add_pair: Option<unsafe extern "C" fn(*mut c_void, u32, CF)>,
    substitution_free: Option<unsafe extern "C" fn(*mut c_void)>,
    restrict: Option<F2>,
    forall: Option<F2>,
    exists: Option<F2>,
    unique: Option<F2>,
    apply_forall: Option<FQ>,
    apply_exists: Option<FQ>,
    apply_unique: Option<FQ>,
    // ZBDD only
    singleton: Option<MV>,
    make_node: Option<F3>,
    empty: Option<M0>,
    base: Option<M0>,
    subset0: Option<FV>,
    subset1: Option<FV>,
    change: Option<FV>,
    union: Option<F2>,
    intsec: Option<F2>,
    diff: Option<F2>,
}

/// kind independent entry points
struct Common {
    assignment_free: unsafe extern "C" fn(CAssignment),
    natural_free: unsafe extern "C" fn(CNatural),
    natural_to_string: unsafe extern "C" fn(*const CNatural) -> CStringT,
    string_free: unsafe extern "C" fn(CStringT),
    error_free: unsafe extern "C" fn(CError),
    dddmp_open: unsafe extern "C" fn(*const c_char, usize, *mut CError) -> *mut c_void,
    dddmp_close: unsafe extern "C" fn(*mut c_void),
    dddmp_num_roots: unsafe extern "C" fn(*const c_void) -> usize,
}

struct Loaded {
    _lib: Lib,
    apis: [Api; 3],
    common: Common,
}

fn load_api(lib: &Lib, kind: &'static str) -> Result<Api, String> {
    macro_rules! req {
        ($n:literal) => {
            unsafe { lib.sym(&format!("oxidd_{}_{}", kind, $n)) }.ok_or_else(|| format!("missing symbol oxidd_{}_{}", kind, $n))?
        };
    }
    macro_rules! opt {
        ($n:literal) => {
            unsafe { lib.sym(&format!("oxidd_{}_{}", kind, $n)) }
        };
    }
    Ok(Api {
        kind,
        manager_new: req!("manager_new"),
        manager_ref: req!("manager_ref"),
        manager_unref: req!("manager_unref"),
        fref: req!("ref"),
        funref: req!("unref"),
        containing_manager: req!("containing_manager"),
        num_inner_nodes: req!("manager_num_inner_nodes"),
        approx_num_inner_nodes: req!("manager_approx_num_inner_nodes"),
        num_vars: req!("manager_num_vars"),
        num_named_vars: req!("manager_num_named_vars"),
        add_vars: req!("manager_add_vars"),
        add_named_vars: req!("manager_add_named_vars"),
        var_name: req!("manager_var_name"),
        set_var_name: req!("manager_set_var_name"),
        name_to_var: req!("manager_name_to_var"),
        var_to_level: req!("manager_var_to_level"),
        level_to_var: req!("manager_level_to_var"),
        gc: req!("manager_gc"),
        gc_count: req!("manager_gc_count"),
        set_var_order: req!("manager_set_var_order"),
        export_dddmp: req!("manager_export_dddmp"),
        import_dddmp: req!("manager_import_dddmp"),
        dump_all_dot_path: req!("manager_dump_all_dot_path"),
        export_dddmp_iter: req!("manager_export_dddmp_iter"),
        export_dddmp_with_names_iter: req!("manager_export_dddmp_with_names_iter"),
        dump_all_dot_path_iter: req!("manager_dump_all_dot_path_iter"),
        add_named_vars_iter: req!("manager_add_named_vars_iter"),
        with_var_name: req!("manager_with_var_name"),
        run_in_worker_pool: req!("manager_run_in_worker_pool"),
        var: req!("var"),
        not_var: req!("not_var"),
        false_: req!("false"),
        true_: req!("true"),
        cofactors: req!("cofactors"),
        cofactor_true: req!("cofactor_true"),
        cofactor_false: req!("cofactor_false"),
        node_level: req!("node_level"),
        node_var: req!("node_var"),
        not: req!("not"),
        bin: [
            ("and", req!("and")),
            ("or", req!("or")),
            ("xor", req!("xor")),
            ("equiv", req!("equiv")),
            ("nand", req!("nand")),
            ("nor", req!("nor")),
            ("imp", req!("imp")),
            ("imp_strict", req!("imp_strict")),
        ],
        ite: req!("ite"),
        node_count: req!("node_count"),
        satisfiable: req!("satisfiable"),
        valid: req!("valid"),
        sat_count: req!("sat_count"),
        sat_count_double: req!("sat_count_double"),
        pick_cube: req!("pick_cube"),
        pick_cube_dd: req!("pick_cube_dd"),
        pick_cube_dd_set: req!("pick_cube_dd_set"),
        eval: req!("eval"),
        substitute: opt!("substitute"),
        substitution_new: opt!("substitution_new"),
        substitution_add_pair: opt!("substitution_add_pair"),
        substitution_free: opt!("substitution_free"),
        restrict: opt!("restrict"),
        forall: opt!("forall"),
        exists: opt!("exists"),
        unique: opt!("unique"),
        apply_forall: opt!("apply_forall"),
        apply_exists: opt!("apply_exists"),
        apply_unique: opt!("apply_unique"),
        singleton: opt!("singleton"),
        make_node: opt!("make_node"),
        empty: opt!("empty"),
        base: opt!("base"),
        subset0: opt!("subset0"),
        subset1: opt!("subset1"),
        change: opt!("change"),
        union: opt!("union"),
        intsec: opt!("intsec"),
        diff: opt!("diff"),
    })
}

fn load(path: &str) -> Result<Loaded, String> {
    let lib = Lib::open(path)?;
    let apis = [load_api(&lib, "bdd")?, load_api(&lib, "bcdd")?, load_api(&lib, "zbdd")?];
    macro_rules! req {
        ($n:literal) => {
            unsafe { lib.sym($n) }.ok_or_else(|| format!("missing symbol {}", $n))?
        };
    }
    let common = Common {
        assignment_free: req!("oxidd_assignment_free"),
        natural_free: req!("oxidd_natural_free"),
        natural_to_string: req!("oxidd_natural_to_string"),
        string_free: req!("oxidd_string_free"),
        error_free: req!("oxidd_error_free"),
        dddmp_open: req!("oxidd_dddmp_open"),
        dddmp_close: req!("oxidd_dddmp_close"),
        dddmp_num_roots: req!("oxidd_dddmp_num_roots"),
    };
    Ok(Loaded { _lib: lib, apis, common })
}

const OPS: [(&str, BooleanOperator); 8] = [
    ("and", BooleanOperator::And),
    ("or", BooleanOperator::Or),
    ("xor", BooleanOperator::Xor),
    ("equiv", BooleanOperator::Equiv),
    ("nand", BooleanOperator::Nand),
    ("nor", BooleanOperator::Nor),
    ("imp", BooleanOperator::Imp),
    ("imp_strict", BooleanOperator::ImpStrict),
];
fn bool_op(s: &str) -> Option<BooleanOperator> {
    OPS.iter().find(|o| o.0 == s).map(|o| o.1)
}

// ------------------------------------------------------------------------------------------------
// the Rust API mirror

/// kind specific parts of the mirror (everything that needs concrete types)
trait MirrorFn: BooleanFunction + Clone + 'static {
    fn new_mgr(cap: usize, cache: usize, threads: u32) -> Self::ManagerRef;
    /// variable of the root node, `NONE32` for terminals
    fn node_var(&self) -> u32;
    fn node_level(&self) -> u32;
    fn terminal_name(&self) -> &'static str;
    /// quantification, restriction, set operations
    fn kind_op(_op: &str, _args: &[&Self], _num: u32, _bop: Option<BooleanOperator>) -> Option<AllocResult<Self>> {
        None
    }
    fn kind_const(_mr: &Self::ManagerRef, _what: &str, _v: u32) -> Option<AllocResult<Self>> {
        None
    }
    fn subst(_f: &Self, _vars: &[u32], _reps: &[Self]) -> Option<AllocResult<Self>> {
        None
    }
    fn reorder(mr: &Self::ManagerRef, order: &[u32]);
    fn export_dddmp(mr: &Self::ManagerRef, path: &str, funcs: &[&Self], names: Option<&[String]>, v3: bool) -> Result<(), String>;
    fn dump_dot(mr: &Self::ManagerRef, path: &str, funcs: &[(&Self, String)]) -> Result<(), String>;
}

macro_rules! mirror_common {
    ($F:ty) => {
        fn node_var(&self) -> u32 {
            self.with_manager_shared(|m, e| match m.get_node(e) {
                Node::Inner(n) => m.level_to_var(n.level()),
                Node::Terminal(_) => NONE32,
            })
        }
        fn node_level(&self) -> u32 {
            self.with_manager_shared(|m, e| m.get_node(e).level())
        }
        fn reorder(mr: &Self::ManagerRef, order: &[u32]) {
            mr.with_manager_exclusive(|m| oxidd_reorder::set_var_order(m, order))
        }
        fn export_dddmp(mr: &Self::ManagerRef, path: &str, funcs: &[&Self], names: Option<&[String]>, v3: bool) -> Result<(), String> {
            let file = std::fs::File::create(path).map_err(|e| e.to_string())?;
            let set = oxidd_dump::dddmp::ExportSettings::default().ascii();
            let set = set.version(if v3 { oxidd_dump::dddmp::DDDMPVersion::V3_0 } else { oxidd_dump::dddmp::DDDMPVersion::V2_0 }).diagram_name("capi").strict(false);
            mr.with_manager_shared(|m| match names {
                None => set.export(file, m, funcs.iter().copied()),
                Some(ns) => set.export_with_names(file, m, funcs.iter().copied().zip(ns.iter())),
            })
            .map_err(|e| e.to_string())
        }
        fn dump_dot(mr: &Self::ManagerRef, path: &str, funcs: &[(&Self, String)]) -> Result<(), String> {
            let file = std::fs::File::create(path).map_err(|e| e.to_string())?;
            mr.with_manager_shared(|m| oxidd_dump::dot::dump_all(std::io::BufWriter::new(file), m, funcs.iter().map(|(f, n)| (*f, n.as_str()))))
                .map_err(|e| e.to_string())
        }
    };
}

macro_rules! mirror_quant {
    ($F:ty) => {
        fn kind_op(op: &str, a: &[&Self], _num: u32, bop: Option<BooleanOperator>) -> Option<AllocResult<Self>> {
            Some(match (op, a.len()) {
                ("restrict", 2) => a[0].restrict(a[1]),
                ("forall", 2) => a[0].forall(a[1]),
                ("exists", 2) => a[0].exists(a[1]),
                ("unique", 2) => a[0].unique(a[1]),
                ("apply_forall", 3) => a[0].apply_forall(bop?, a[1], a[2]),
                ("apply_exists", 3) => a[0].apply_exists(bop?, a[1], a[2]),
                ("apply_unique", 3) => a[0].apply_unique(bop?, a[1], a[2]),
                _ => return None,
            })
        }
        fn subst(f: &Self, vars: &[u32], reps: &[Self]) -> Option<AllocResult<Self>> {
            let s: Subst<$F> = Subst::new(vars.to_vec(), reps.to_vec());
            Some(f.substitute(&s))
        }
    };
}

impl MirrorFn for BDDFunction {
    fn new_mgr(cap: usize, cache: usize, threads: u32) -> Self::ManagerRef {
        oxidd::bdd::new_manager(cap, cache, threads)
    }
    fn terminal_name(&self) -> &'static str {
        if self.valid() { "T" } else { "F" }
    }
    mirror_common!(BDDFunction);
    mirror_quant!(BDDFunction);
}
impl MirrorFn for BCDDFunction {
    fn new_mgr(cap: usize, cache: usize, threads: u32) -> Self::ManagerRef {
        oxidd::bcdd::new_manager(cap, cache, threads)
    }
    fn terminal_name(&self) -> &'static str {
        if self.valid() { "T" } else { "F" }
    }
    mirror_common!(BCDDFunction);
    mirror_quant!(BCDDFunction);
}
impl MirrorFn for ZBDDFunction {
    fn new_mgr(cap: usize, cache: usize, threads: u32) -> Self::ManagerRef {
        oxidd::zbdd::new_manager(cap, cache, threads)
    }
    fn terminal_name(&self) -> &'static str {
        if self.satisfiable() { "B" } else { "E" }
    }
    mirror_common!(ZBDDFunction);
    fn kind_op(op: &str, a: &[&Self], num: u32, _bop: Option<BooleanOperator>) -> Option<AllocResult<Self>> {
        Some(match (op, a.len()) {
            ("subset0", 1) => a[0].subset0(num),
            ("subset1", 1) => a[0].subset1(num),
            ("change", 1) => a[0].change(num),
            ("union", 2) => a[0].union(a[1]),
            ("intsec", 2) => a[0].intsec(a[1]),
            ("diff", 2) => a[0].diff(a[1]),
            ("make_node", 3) => a[0].with_manager_shared(|m, var| {
                let hi = m.clone_edge(a[1].as_edge(m));
                let lo = m.clone_edge(a[2].as_edge(m));
                oxidd::zbdd::make_node(m, var, hi, lo).map(|e| ZBDDFunction::from_edge(m, e))
            }),
            _ => return None,
        })
    }
    fn kind_const(mr: &Self::ManagerRef, what: &str, v: u32) -> Option<AllocResult<Self>> {
        Some(mr.with_manager_shared(|m| match what {
            "singleton" => ZBDDFunction::singleton(m, v),
            "empty" => Ok(ZBDDFunction::empty(m)),
            "base" => Ok(ZBDDFunction::base(m)),
            _ => Err(oxidd::util::OutOfMemory),
        }))
    }
}

/// object safe view of the mirror: functions live in slots
trait RSide {
    fn add_vars(&mut self, k: u32) -> (u32, u32);
    fn add_named(&mut self, names: &[String]) -> (u32, u32, u32);
    fn num_vars(&self) -> u32;
    fn num_named(&self) -> u32;
    fn var_name(&self, v: u32) -> String;
    fn set_var_name(&mut self, v: u32, name: &str) -> u32;
    fn name_to_var(&self, name: &str) -> u32;
    fn v2l(&self, v: u32) -> u32;
    fn l2v(&self, l: u32) -> u32;
    fn order(&mut self, order: &[u32]);
    fn gc(&mut self) -> usize;
    fn num_inner(&self) -> usize;
    fn konst(&mut self, what: &str, v: u32) -> Option<usize>;
    /// `None`: unknown operation or allocation failure
    fn op(&mut self, op: &str, args: &[usize], num: u32, bop: Option<BooleanOperator>) -> Option<usize>;
    fn cof(&mut self, a: usize) -> Option<(usize, usize)>;
    fn free(&mut self, a: usize);
    fn tree(&self, a: usize) -> String;
    fn tt(&self, a: usize) -> String;
    fn node_count(&self, a: usize) -> usize;
    fn sat(&self, a: usize) -> bool;
    fn valid(&self, a: usize) -> bool;
    fn sat_count(&self, a: usize, vars: u32) -> (String, f64);
    fn pick_cube(&self, a: usize) -> Option<Vec<i8>>;
    fn eval(&self, a: usize, bits: u64) -> bool;
    fn level(&self, a: usize) -> u32;
    fn nvar(&self, a: usize) -> u32;
    fn subst_new(&mut self, id: &str, pairs: &[(u32, usize)]);
    fn subst_apply(&mut self, a: usize, id: &str) -> Option<usize>;
    fn subst_free(&mut self, id: &str);
    fn subst_trees(&self, id: &str) -> Vec<String>;
    fn export_dddmp(&self, path: &str, funcs: &[usize], names: Option<&[String]>, v3: bool) -> Result<(), String>;
    fn dump_dot(&self, path: &str, funcs: &[(usize, String)]) -> Result<(), String>;
    fn live(&self) -> usize;
}

struct RS<F: MirrorFn> {
    mr: F::ManagerRef,
    slots: Vec<Option<F>>,
    substs: BTreeMap<String, (Vec<u32>, Vec<F>)>,
}

impl<F: MirrorFn> RS<F> {
    fn new() -> Self {
        RS { mr: F::new_mgr(1 << 16, 1024, 1), slots: Vec::new(), substs: BTreeMap::new() }
    }
    fn put(&mut self, r: AllocResult<F>) -> Option<usize> {
        match r {
            Ok(f) => {
                self.slots.push(Some(f));
                Some(self.slots.len() - 1)
            }
            Err(_) => None,
        }
    }
    fn g(&self, a: usize) -> &F {
        self.slots[a].as_ref().expect("mirror slot is empty")
    }
    fn tree_of(f: &F) -> String {
        match f.cofactors() {
            None => f.terminal_name().to_string(),
            Some((t, e)) => format!("(v{} {} {})", f.node_var(), Self::tree_of(&t), Self::tree_of(&e)),
        }
    }
}

fn tt_hex(bits: impl Iterator<Item = bool>) -> String {
    // bit a of the table = value under the assignment a (bit v of a = value of variable v)
    let v: Vec<bool> = bits.collect();
    let mut s = String::new();
    let mut i = v.len();
    while i > 0 {
        let lo = i.saturating_sub(4);
        let mut d = 0u32;
        for k in (lo..i).rev() {
            d = d * 2 + v[k] as u32;
        }
        s.push(char::from_digit(d, 16).unwrap());
        i = lo;
    }
    let t = s.trim_start_matches('0');
    if t.is_empty() { "0".into() } else { t.to_string() }
}

impl<F: MirrorFn> RSide for RS<F> {
    fn add_vars(&mut self, k: u32) -> (u32, u32) {
        let r = self.mr.with_manager_exclusive(|m| m.add_vars(k));
        (r.start, r.end)
    }
    fn add_named(&mut self, names: &[String]) -> (u32, u32, u32) {
        self.mr.with_manager_exclusive(|m| match m.add_named_vars(names.iter().map(|s| s.as_str())) {
            Ok(r) => (r.start, r.end, NONE32),
            Err(e) => (e.added_vars.start, e.added_vars.end, e.present_var),
        })
    }
    fn num_vars(&self) -> u32 {
        self.mr.with_manager_shared(|m| m.num_vars())
    }
    fn num_named(&self) -> u32 {
        self.mr.with_manager_shared(|m| m.num_named_vars())
    }
    fn var_name(&self, v: u32) -> String {
        self.mr.with_manager_shared(|m| m.var_name(v).to_string())
    }
    fn set_var_name(&mut self, v: u32, name: &str) -> u32 {
        self.mr.with_manager_exclusive(|m| match m.set_var_name(v, name) {
            Ok(()) => NONE32,
            Err(e) => e.present_var,
        })
    }
    fn name_to_var(&self, name: &str) -> u32 {
        self.mr.with_manager_shared(|m| m.name_to_var(name).unwrap_or(NONE32))
    }
    fn v2l(&self, v: u32) -> u32 {
        self.mr.with_manager_shared(|m| m.var_to_level(v))
    }
    fn l2v(&self, l: u32) -> u32 {
        self.mr.with_manager_shared(|m| m.level_to_var(l))
    }
    fn order(&mut self, order: &[u32]) {
        if order.len() >= 2 {
            F::reorder(&self.mr, order)
        }
    }
    fn gc(&mut self) -> usize {
        self.mr.with_manager_shared(|m| {
            m.gc();
            m.num_inner_nodes()
        })
    }
    fn num_inner(&self) -> usize {
        self.mr.with_manager_shared(|m| m.num_inner_nodes())
    }
    fn konst(&mut self, what: &str, v: u32) -> Option<usize> {
        let r = match what {
            "T" => Ok(self.mr.with_manager_shared(|m| F::t(m))),
            "F" => Ok(self.mr.with_manager_shared(|m| F::f(m))),
            "var" => self.mr.with_manager_shared(|m| F::var(m, v)),
            "notvar" => self.mr.with_manager_shared(|m| F::not_var(m, v)),
            _ => F::kind_const(&self.mr, what, v)?,
        };
        self.put(r)
    }
    fn op(&mut self, op: &str, args: &[usize], num: u32, bop: Option<BooleanOperator>) -> Option<usize> {
        let a: Vec<&F> = args.iter().map(|&i| self.g(i)).collect();
        let r = match (op, a.len()) {
            ("not", 1) => a[0].not(),
            ("and", 2) => a[0].and(a[1]),
            ("or", 2) => a[0].or(a[1]),
            ("xor", 2) => a[0].xor(a[1]),
            ("equiv", 2) => a[0].equiv(a[1]),
            ("nand", 2) => a[0].nand(a[1]),
            ("nor", 2) => a[0].nor(a[1]),
            ("imp", 2) => a[0].imp(a[1]),
            ("imp_strict", 2) => a[0].imp_strict(a[1]),
            ("ite", 3) => a[0].ite(a[1], a[2]),
            ("pick", 1) => a[0].pick_cube_dd(|_, _, _| false),
            ("pickset", 2) => a[0].pick_cube_dd_set(a[1]),
            ("coft", 1) => a[0].cofactor_true().ok_or(oxidd::util::OutOfMemory),
            ("cofe", 1) => a[0].cofactor_false().ok_or(oxidd::util::OutOfMemory),
            _ => F::kind_op(op, &a, num, bop)?,
        };
        self.put(r)
    }
    fn cof(&mut self, a: usize) -> Option<(usize, usize)> {
        let (t, e) = self.g(a).cofactors()?;
        let t = self.put(Ok(t)).unwrap();
        let e = self.put(Ok(e)).unwrap();
        Some((t, e))
    }
    fn free(&mut self, a: usize) {
        self.slots[a] = None;
    }
    fn tree(&self, a: usize) -> String {
        Self::tree_of(self.g(a))
    }
    fn tt(&self, a: usize) -> String {
        let n = self.num_vars();
        let f = self.g(a);
        tt_hex((0..1u64 << n).map(|x| f.eval((0..n).map(|v| (v, (x >> v) & 1 != 0)))))
    }
    fn node_count(&self, a: usize) -> usize {
        self.g(a).node_count()
    }
    fn sat(&self, a: usize) -> bool {
        self.g(a).satisfiable()
    }
    fn valid(&self, a: usize) -> bool {
        self.g(a).valid()
    }
    fn sat_count(&self, a: usize, vars: u32) -> (String, f64) {
        let mut c1: SatCountCache<Natural, std::hash::RandomState> = SatCountCache::default();
        let n: Natural = self.g(a).sat_count(vars, &mut c1);
        let mut c2: SatCountCache<F64, std::hash::RandomState> = SatCountCache::default();
        let d: F64 = self.g(a).sat_count(vars, &mut c2);
        (n.to_string(), d.0)
    }
    fn pick_cube(&self, a: usize) -> Option<Vec<i8>> {
        self.g(a).pick_cube(|_, _, _| false).map(|v| {
            v.into_iter()
                .map(|b| match b {
                    OptBool::None => -1,
                    OptBool::False => 0,
                    OptBool::True => 1,
                })
                .collect()
        })
    }
    fn eval(&self, a: usize, bits: u64) -> bool {
        let n = self.num_vars();
        self.g(a).eval((0..n).map(|v| (v, (bits >> v) & 1 != 0)))
    }
    fn level(&self, a: usize) -> u32 {
        self.g(a).node_level()
    }
    fn nvar(&self, a: usize) -> u32 {
        self.g(a).node_var()
    }
    fn subst_new(&mut self, id: &str, pairs: &[(u32, usize)]) {
        let vars = pairs.iter().map(|p| p.0).collect();
        let reps = pairs.iter().map(|p| self.g(p.1).clone()).collect();
        self.substs.insert(id.to_string(), (vars, reps));
    }
    fn subst_apply(&mut self, a: usize, id: &str) -> Option<usize> {
        let (vars, reps) = self.substs.get(id)?;
        let r = F::subst(self.g(a), vars, reps)?;
        self.put(r)
    }
    fn subst_free(&mut self, id: &str) {
        self.substs.remove(id);
    }
    fn subst_trees(&self, id: &str) -> Vec<String> {
        self.substs.get(id).map(|s| s.1.iter().map(|f| Self::tree_of(f)).collect()).unwrap_or_default()
    }
    fn export_dddmp(&self, path: &str, funcs: &[usize], names: Option<&[String]>, v3: bool) -> Result<(), String> {
        let fs: Vec<&F> = funcs.iter().map(|&i| self.g(i)).collect();
        F::export_dddmp(&self.mr, path, &fs, names, v3)
    }
    fn dump_dot(&self, path: &str, funcs: &[(usize, String)]) -> Result<(), String> {
        let fs: Vec<(&F, String)> = funcs.iter().map(|(i, n)| (self.g(*i), n.clone())).collect();
        F::dump_dot(&self.mr, path, &fs)
    }
    fn live(&self) -> usize {
        self.slots.iter().filter(|s| s.is_some()).count() + self.substs.values().map(|s| s.1.len()).sum::<usize>()
    }
}

// ------------------------------------------------------------------------------------------------
// the scenario proper (runs in the child process)

/// local replacement of `Ctx` inside the child: failures and counters are sent to the parent
#[derive(Default)]
struct Rep {
    fails: Vec<(String, String)>,
    counts: BTreeMap<String, u64>,
}
impl Rep {
    fn fail(&mut self, sig: &str, msg: &str) {
        self.fails.push((sig.to_string(), msg.to_string()));
    }
    fn count(&mut self, k: &str) {
        *self.counts.entry(k.to_string()).or_insert(0) += 1;
    }
}

struct Entry {
    c: CF,
    /// slot of the mirror function (present iff `c` is valid)
    r: Option<usize>,
    /// C-owned references held under this name
    cnt: usize,
    /// canonical tree at creation (recomputed after `order`)
    tree: String,
}

struct SubstObj {
    c: *mut c_void,
    /// trees of the replacement functions (each is a reference owned by the object)
    reps: Vec<(u32, String)>,
}

struct Real {
    ld: std::sync::Arc<Loaded>,
    kind: usize,
    cm: Option<CM>,
    mrefs: usize,
    rs: Option<Box<dyn RSide>>,
    h: BTreeMap<String, Entry>,
    substs: BTreeMap<String, SubstObj>,
    /// capacity limited manager: results may be INVALID at any time (suite `oom`)
    tiny: bool,
    /// `inner_node_capacity = 0`, documented as "no limit"
    cap0: bool,
    /// `make_node` was called on one of the paths on which the wrapper in /repo does not take
    /// `hi`/`lo` over: node balance failures of this case carry the signature of that defect
    make_node_path: bool,
    ended: bool,
    file_no: u64,
}

fn complement_tree(s: &str) -> String {
    s.chars()
        .map(|c| match c {
            'T' => 'F',
            'F' => 'T',
            c => c,
        })
        .collect()
}

impl Real {
    fn new(ld: std::sync::Arc<Loaded>) -> Self {
        Real { ld, kind: 0, cm: None, mrefs: 0, rs: None, h: BTreeMap::new(), substs: BTreeMap::new(), tiny: false, cap0: false, make_node_path: false, ended: false, file_no: 0 }
    }
    fn api(&self) -> &Api {
        &self.ld.apis[self.kind]
    }
    fn balance_sig(&self, sig: &'static str) -> &'static str {
        if self.make_node_path { "capi-make-node-leak" } else { sig }
    }
    fn own(&self) -> usize {
        self.h.values().map(|e| e.cnt).sum()
    }
    fn tail(&self) -> String {
        format!(" | o{} m{}", self.own(), self.mrefs)
    }

    /// canonical tree of a valid handle through C API calls only; `f` is borrowed. The keys of
    /// the inner nodes met on the way are added to `keys` (one key per stored node).
    fn c_tree(&self, f: CF, keys: &mut Option<&mut BTreeSet<String>>) -> String {
        let api = self.api();
        let v = unsafe { (api.node_var)(f) };
        if v == NONE32 {
            return match api.kind {
                "zbdd" => (if unsafe { (api.satisfiable)(f) } { "B" } else { "E" }).to_string(),
                _ => (if unsafe { (api.valid)(f) } { "T" } else { "F" }).to_string(),
            };
        }
        let p = unsafe { (api.cofactors)(f) };
        if !p.first.ok() || !p.second.ok() {
            return "(cofactors-invalid)".into();
        }
        let t = self.c_tree(p.first, keys);
        let e = self.c_tree(p.second, keys);
        unsafe {
            (api.funref)(p.first);
            (api.funref)(p.second);
        }
        let s = format!("(v{} {} {})", v, t, e);
        if let Some(k) = keys {
            if api.kind == "bcdd" {
                // a node and its complement share the stored node
                let c = complement_tree(&s);
                k.insert(if c < s { c } else { s.clone() });
            } else {
                k.insert(s.clone());
            }
        }
        s
    }
    fn tree(&self, f: CF) -> String {
        self.c_tree(f, &mut None)
    }
    fn c_eval(&self, f: CF, bits: u64, n: u32) -> bool {
        let args: Vec<CVarBool> = (0..n).map(|v| CVarBool { var: v, val: (bits >> v) & 1 != 0 }).collect();
        unsafe { (self.api().eval)(f, args.as_ptr(), args.len()) }
    }
    fn c_tt(&self, f: CF) -> String {
        let n = unsafe { (self.api().num_vars)(self.cm.unwrap()) };
        tt_hex((0..1u64 << n).map(|x| self.c_eval(f, x, n)))
    }

    /// expected number of stored inner nodes: distinct nodes reachable from the C-owned handles and
    /// from the replacement functions held by substitution objects (ZBDD: plus the manager's
    /// tautology chain), computed from the C side walk
    fn expected_nodes(&self) -> usize {
        let mut keys = BTreeSet::new();
        for e in self.h.values() {
            if e.cnt > 0 && e.c.ok() {
                self.c_tree(e.c, &mut Some(&mut keys));
            }
        }
        for s in self.substs.values() {
            for (_, t) in &s.reps {
                collect_keys(t, self.api().kind == "bcdd", &mut keys);
            }
        }
        if self.api().kind == "zbdd" {
            // taut(n, l) = (v_l taut(l+1) taut(l+1)), the last one over B
            let cm = self.cm.unwrap();
            let n = unsafe { (self.api().num_vars)(cm) };
            let mut below = "B".to_string();
            for l in (0..n).rev() {
                let v = unsafe { (self.api().level_to_var)(cm, l) };
                below = format!("(v{} {} {})", v, below, below);
                keys.insert(below.clone());
            }
        }
        keys.len()
    }

    /// all live handles still denote what they denoted when they were created
    fn check_handles(&self, rep: &mut Rep, why: &str) {
        for (name, e) in &self.h {
            if e.cnt > 0 && e.c.ok() {
                let t = self.tree(e.c);
                if t != e.tree {
                    rep.fail("capi-handle-changed", &format!("{why}: handle {name} was {} and is now {}", e.tree, t));
                }
            }
        }
    }
    fn check_args(&self, rep: &mut Rep, line: &str, args: &[&str]) {
        for a in args {
            if let Some(e) = self.h.get(*a) {
                if e.cnt > 0 && e.c.ok() {
                    let t = self.tree(e.c);
                    if t != e.tree {
                        rep.fail("capi-arg-consumed", &format!("`{line}`: argument {a} was {} and is {} after the call", e.tree, t));
                    }
                }
            }
        }
    }

    fn teardown(&mut self) {
        if let Some(cm) = self.cm.take() {
            let api = &self.ld.apis[self.kind];
            for e in self.h.values() {
                if e.c.ok() {
                    for _ in 0..e.cnt {
                        unsafe { (api.funref)(e.c) };
                    }
                }
            }
            for s in self.substs.values() {
                if let Some(f) = api.substitution_free {
                    unsafe { f(s.c) };
                }
            }
            for _ in 0..self.mrefs {
                unsafe { (api.manager_unref)(cm) };
            }
        }
        self.h.clear();
        self.substs.clear();
        self.mrefs = 0;
        self.rs = None;
        self.ended = false;
        self.tiny = false;
        self.cap0 = false;
        self.make_node_path = false;
    }

    /// bind `name` to the C result `c` (owned if valid) and the mirror result `r`
    fn put(&mut self, rep: &mut Rep, line: &str, name: &str, c: CF, r: Option<usize>, args_invalid: bool) -> String {
        if !c.ok() {
            if let Some(r) = r {
                self.rs.as_mut().unwrap().free(r);
                if !args_invalid && self.cap0 {
                    rep.fail("capi-cap0-not-unlimited", &format!("`{line}` returned an invalid handle in a manager created with inner_node_capacity = 0, which is documented as \"no limit\""));
                } else if !args_invalid && !self.tiny {
                    rep.fail("capi-unexpected-invalid", &format!("`{line}` returned an invalid handle although all arguments are valid and the manager is far from full"));
                }
            }
            if self.tiny && !args_invalid {
                rep.count("oom_results");
            }
            self.h.insert(name.to_string(), Entry { c: INVALID, r: None, cnt: 0, tree: "INVALID".into() });
            return "INVALID".into();
        }
        if args_invalid {
            rep.fail("capi-invalid-not-propagated", &format!("`{line}` has an invalid argument but returned a valid handle"));
        }
        let tree = self.tree(c);
        match r {
            Some(ri) => {
                let rs = self.rs.as_ref().unwrap();
                let rt = rs.tree(ri);
                if rt != tree {
                    rep.fail("capi-differs", &format!("`{line}`: C result {tree}, Rust API result {rt}"));
                }
                let (ct, rtt) = (self.c_tt(c), rs.tt(ri));
                if ct != rtt {
                    rep.fail("capi-differs", &format!("`{line}`: truth table through oxidd_*_eval {ct}, through the Rust API {rtt}"));
                }
            }
            None => {
                if !args_invalid {
                    rep.fail("capi-differs", &format!("`{line}`: C result {tree} but the Rust API call failed"));
                }
            }
        }
        self.h.insert(name.to_string(), Entry { c, r, cnt: 1, tree: tree.clone() });
        tree
    }

    fn get(&self, name: &str) -> Option<(CF, Option<usize>)> {
        self.h.get(name).filter(|e| e.cnt > 0 || !e.c.ok()).map(|e| (e.c, e.r))
    }

    fn release(&mut self, name: &str) {
        // one C-owned reference of `name` is gone (unref / consumed)
        let dead = {
            let e = self.h.get_mut(name).unwrap();
            if !e.c.ok() {
                return;
            }
            e.cnt -= 1;
            e.cnt == 0
        };
        if dead {
            let e = self.h.remove(name).unwrap();
            if let Some(r) = e.r {
                self.rs.as_mut().unwrap().free(r);
            }
        }
    }

    fn step(&mut self, line: &str, rep: &mut Rep) -> String {
        let w = words(line);
        if w.is_empty() {
            return "bad-op".into();
        }
        if w[0] == "mgr" {
            return self.op_mgr(&w, rep);
        }
        if self.cm.is_none() || self.ended {
            return "bad-op".into();
        }
        let nn_before = unsafe { (self.api().num_inner_nodes)(self.cm.unwrap()) };
        let out = match self.step_inner(line, &w, rep) {
            Some(o) => o,
            None => return "bad-op".into(),
        };
        if !self.ended {
            // statistics only: the two managers executed the same calls
            let nc = unsafe { (self.api().num_inner_nodes)(self.cm.unwrap()) };
            let nr = self.rs.as_ref().unwrap().num_inner();
            if !self.tiny {
                rep.count(if nc == nr { "nn_equal_mirror" } else { "nn_differs_mirror" });
                if nc != nr {
                    // same calls, same algorithms, one worker thread each: the stores agree
                    rep.fail(self.balance_sig("capi-node-count-differs"), &format!("after `{line}` the C side manager holds {nc} inner nodes, the Rust side manager {nr}"));
                }
            }
            let _ = nn_before;
        }
        format!("{}{}", out, self.tail())
    }

    fn op_mgr(&mut self, w: &[&str], rep: &mut Rep) -> String {
        self.teardown();
        if w.len() < 3 {
            return "bad-op".into();
        }
        self.kind = match w[1] {
            "bdd" => 0,
            "bcdd" => 1,
            "zbdd" => 2,
            _ => return "bad-op".into(),
        };
        let kv = |k: &str| w.iter().find_map(|x| x.strip_prefix(k).and_then(|x| x.strip_prefix('=')));
        let n: u32 = kv("vars").and_then(|x| x.parse().ok()).unwrap_or(0);
        let cap: usize = kv("cap").and_then(|x| x.parse().ok()).unwrap_or(1 << 16);
        self.tiny = cap < 1 << 12;
        // an INVALID result in a capacity-0 manager is a failure only while the documentation
        // says that 0 means "no limit"
        self.cap0 = cap == 0 && cap0_documented_unlimited(["bdd", "bcdd", "zbdd"][self.kind]);
        let api = &self.ld.apis[self.kind];
        let cm = unsafe { (api.manager_new)(cap, 1024, 1) };
        if cm.p.is_null() {
            rep.fail("capi-manager-null", "manager_new returned an invalid manager");
            return "bad-op".into();
        }
        self.cm = Some(cm);
        self.mrefs = 1;
        let r = unsafe { (api.add_vars)(cm, n) };
        if (r.start, r.end) != (0, n) {
            rep.fail("capi-differs", &format!("add_vars({n}) on a fresh manager returned {}..{}", r.start, r.end));
        }
        let mut rs: Box<dyn RSide> = match self.kind {
            0 => Box::new(RS::<BDDFunction>::new()),
            1 => Box::new(RS::<BCDDFunction>::new()),
            _ => Box::new(RS::<ZBDDFunction>::new()),
        };
        rs.add_vars(n);
        self.rs = Some(rs);
        rep.count(&format!("mgr_{}", api.kind));
        format!("ok{}", self.tail())
    }

    fn step_inner(&mut self, line: &str, w: &[&str], rep: &mut Rep) -> Option<String> {
        let cm = self.cm.unwrap();
        let ld = self.ld.clone();
        let api = &ld.apis[self.kind];
        let n = unsafe { (api.num_vars)(cm) };
        let num = |s: &str| s.parse::<u32>().ok();
        let show_v = |v: u32| if v == NONE32 { "-".to_string() } else { v.to_string() };
        rep.count(&format!("op_{}", w[0]));
        Some(match (w[0], w.len()) {
            ("addvars", 2) => {
                let k = num(w[1])?;
                let r = unsafe { (api.add_vars)(cm, k) };
                let rr = self.rs.as_mut().unwrap().add_vars(k);
                if (r.start, r.end) != rr {
                    rep.fail("capi-differs", &format!("add_vars: C {}..{}, Rust {}..{}", r.start, r.end, rr.0, rr.1));
                }
                format!("{}..{}", r.start, r.end)
            }
            ("addnamed", _) => {
                let use_iter = w.contains(&"iter=1");
                let names: Vec<String> = w[1..].iter().filter(|s| !s.contains('=')).map(|s| if *s == "-" { String::new() } else { s.to_string() }).collect();
                let cs: Vec<CString> = names.iter().map(|s| CString::new(s.as_str()).unwrap()).collect();
                // an unnamed variable is passed as NULL or as the empty string, alternating
                let ptrs: Vec<*const c_char> = cs.iter().enumerate().map(|(i, c)| if names[i].is_empty() && i % 2 == 0 { null() } else { c.as_ptr() }).collect();
                let r = if use_iter {
                    // `oxidd_*_manager_add_named_vars_iter` with borrowed, not null-terminated strings
                    let mut ctx = IterCtx { items: names.iter().map(|s| CStr { ptr: if s.is_empty() { null() } else { s.as_ptr() as *const c_char }, len: s.len() }).collect(), pos: 0 };
                    rep.count("iter_api_calls");
                    unsafe { (api.add_named_vars_iter)(cm, make_iter(&mut ctx, true)) }
                } else {
                    unsafe { (api.add_named_vars)(cm, ptrs.as_ptr(), ptrs.len() as u32) }
                };
                let rr = self.rs.as_mut().unwrap().add_named(&names);
                if (r.added.start, r.added.end, r.present_var) != rr {
                    rep.fail("capi-differs", &format!("add_named_vars: C {}..{} present {}, Rust {}..{} present {}", r.added.start, r.added.end, r.present_var, rr.0, rr.1, rr.2));
                }
                format!("{}..{} dup={}", r.added.start, r.added.end, show_v(r.present_var))
            }
            ("numvars", 1) => {
                let r = self.rs.as_ref().unwrap().num_vars();
                if n != r {
                    rep.fail("capi-differs", &format!("num_vars: C {n}, Rust {r}"));
                }
                n.to_string()
            }
            ("numnamed", 1) => {
                let c = unsafe { (api.num_named_vars)(cm) };
                let r = self.rs.as_ref().unwrap().num_named();
                if c != r {
                    rep.fail("capi-differs", &format!("num_named_vars: C {c}, Rust {r}"));
                }
                c.to_string()
            }
            ("varname", 2) | ("varname", 3) => {
                let v = num(w[1])?;
                if v >= n {
                    return None;
                }
                if w.len() == 3 {
                    // `oxidd_*_manager_with_var_name`: the name is only borrowed inside the callback
                    if w[2] != "cb=1" {
                        return None;
                    }
                    extern "C" fn cb(data: *mut c_void, p: *const c_char, len: usize) -> *mut c_void {
                        let out = unsafe { &mut *(data as *mut String) };
                        let bytes = if len == 0 { &[][..] } else { unsafe { std::slice::from_raw_parts(p as *const u8, len) } };
                        *out = String::from_utf8_lossy(bytes).into_owned();
                        data
                    }
                    let mut got = String::from("?");
                    let ret = unsafe { (api.with_var_name)(cm, v, cb, &mut got as *mut String as *mut c_void) };
                    let r = self.rs.as_ref().unwrap().var_name(v);
                    if got != r || ret != &mut got as *mut String as *mut c_void {
                        rep.fail("capi-differs", &format!("with_var_name({v}): callback saw {got:?}, Rust {r:?}"));
                    }
                    rep.count("callback_api_calls");
                    return Some(if got.is_empty() { "-".into() } else { got });
                }
                let mut len = usize::MAX;
                let p = unsafe { (api.var_name)(cm, v, &mut len) };
                let s = if p.is_null() {
                    String::new()
                } else {
                    let s = unsafe { std::ffi::CStr::from_ptr(p) }.to_string_lossy().into_owned();
                    unsafe { libc::free(p as *mut c_void) };
                    s
                };
                let r = self.rs.as_ref().unwrap().var_name(v);
                if s != r || len != r.len() {
                    rep.fail("capi-differs", &format!("var_name({v}): C {s:?} (len {len}), Rust {r:?}"));
                }
                if s.is_empty() { "-".into() } else { s }
            }
            ("name2var", 2) => {
                let name = if w[1] == "-" { "" } else { w[1] };
                let c = unsafe { (api.name_to_var)(cm, if name.is_empty() { null() } else { name.as_ptr() as *const c_char }, name.len()) };
                let r = if name.is_empty() { NONE32 } else { self.rs.as_ref().unwrap().name_to_var(name) };
                if c != r {
                    rep.fail("capi-differs", &format!("name_to_var({name:?}): C {c}, Rust {r}"));
                }
                show_v(c)
            }
            ("setname", 3) => {
                let v = num(w[1])?;
                if v >= n {
                    return None;
                }
                let name = if w[2] == "-" { "" } else { w[2] };
                let c = unsafe { (api.set_var_name)(cm, v, if name.is_empty() { null() } else { name.as_ptr() as *const c_char }, name.len()) };
                let r = self.rs.as_mut().unwrap().set_var_name(v, name);
                if c != r {
                    rep.fail("capi-differs", &format!("set_var_name({v}, {name:?}): C {c}, Rust {r}"));
                }
                if c == NONE32 { "ok".into() } else { format!("dup={c}") }
            }
            ("v2l", 2) | ("l2v", 2) => {
                let v = num(w[1])?;
                if v >= n {
                    return None;
                }
                let (c, r) = if w[0] == "v2l" {
                    (unsafe { (api.var_to_level)(cm, v) }, self.rs.as_ref().unwrap().v2l(v))
                } else {
                    (unsafe { (api.level_to_var)(cm, v) }, self.rs.as_ref().unwrap().l2v(v))
                };
                if c != r {
                    rep.fail("capi-differs", &format!("{}({v}): C {c}, Rust {r}", w[0]));
                }
                c.to_string()
            }
            ("order", _) => {
                let order: Vec<u32> = w[1..].iter().map(|s| num(s)).collect::<Option<_>>()?;
                let mut seen = BTreeSet::new();
                if order.iter().any(|&v| v >= n || !seen.insert(v)) {
                    return None;
                }
                // functions are the same before and after: remember the truth tables
                let before: Vec<(String, String)> = self.h.iter().filter(|(_, e)| e.cnt > 0 && e.c.ok()).map(|(k, e)| (k.clone(), self.c_tt(e.c))).collect();
                unsafe { (api.set_var_order)(cm, order.as_ptr(), order.len()) };
                self.rs.as_mut().unwrap().order(&order);
                for (k, tt) in before {
                    let e = self.h.get(&k).unwrap();
                    let now = self.c_tt(e.c);
                    if now != tt {
                        rep.fail("capi-order-changed-function", &format!("`{line}`: handle {k} had truth table {tt} and has {now} after set_var_order"));
                    }
                }
                let names: Vec<String> = self.h.keys().cloned().collect();
                for k in names {
                    let (c, r, live) = {
                        let e = &self.h[&k];
                        (e.c, e.r, e.cnt > 0 && e.c.ok())
                    };
                    if live {
                        let t = self.tree(c);
                        if let Some(r) = r {
                            let rt = self.rs.as_ref().unwrap().tree(r);
                            if rt != t {
                                rep.fail("capi-differs", &format!("`{line}`: handle {k} is {t} on the C side and {rt} on the Rust side after reordering"));
                            }
                        }
                        self.h.get_mut(&k).unwrap().tree = t;
                    }
                }
                // the replacement functions held by substitution objects have no C handle: their
                // trees under the new order are taken from the mirror
                for (id, s) in self.substs.iter_mut() {
                    let ts = self.rs.as_ref().unwrap().subst_trees(id);
                    for (i, t) in ts.into_iter().enumerate() {
                        if i < s.reps.len() {
                            s.reps[i].1 = t;
                        }
                    }
                }
                let l2v: Vec<String> = (0..n).map(|l| unsafe { (api.level_to_var)(cm, l) }.to_string()).collect();
                for l in 0..n {
                    let r = self.rs.as_ref().unwrap().l2v(l);
                    if r.to_string() != l2v[l as usize] {
                        rep.fail("capi-differs", &format!("`{line}`: level {l} holds variable {} on the C side and {r} on the Rust side", l2v[l as usize]));
                    }
                }
                l2v.join(" ")
            }
            ("const", 3) | ("var", 3) | ("notvar", 3) | ("zconst", 3) | ("singleton", 3) => {
                if self.h.contains_key(w[1]) {
                    return None;
                }
                let (c, what, v) = match (w[0], w[2]) {
                    ("const", "T") => (unsafe { (api.true_)(cm) }, "T", 0),
                    ("const", "F") => (unsafe { (api.false_)(cm) }, "F", 0),
                    ("zconst", "empty") => (unsafe { (api.empty?)(cm) }, "empty", 0),
                    ("zconst", "base") => (unsafe { (api.base?)(cm) }, "base", 0),
                    ("var", _) | ("notvar", _) | ("singleton", _) => {
                        let v = num(w[2])?;
                        if v >= n {
                            return None;
                        }
                        match w[0] {
                            "var" => (unsafe { (api.var)(cm, v) }, "var", v),
                            "notvar" => (unsafe { (api.not_var)(cm, v) }, "notvar", v),
                            _ => (unsafe { (api.singleton?)(cm, v) }, "singleton", v),
                        }
                    }
                    _ => return None,
                };
                let r = self.rs.as_mut().unwrap().konst(what, v);
                self.put(rep, line, w[1], c, r, false)
            }
            ("invalid", 2) => {
                if self.h.contains_key(w[1]) {
                    return None;
                }
                let c = self.obtain_invalid(rep);
                self.h.insert(w[1].to_string(), Entry { c, r: None, cnt: 0, tree: "INVALID".into() });
                "INVALID".into()
            }
            ("op", _) | ("quant", 5) | ("applyq", 7) | ("restrict", 4) | ("pick", 3) | ("pickset", 4) | ("coft", 3) | ("cofe", 3) | ("subset0", 4) | ("subset1", 4) | ("change", 4) | ("union", 4) | ("intsec", 4) | ("diff", 4) | ("mknode", 5) => {
                self.op_fn(line, w, rep)?
            }
            ("pool", 4) => {
                // `pool h a b`: `oxidd_*_and(a, b)` executed from inside the manager's worker pool
                // (`oxidd_*_manager_run_in_worker_pool`, the documented way to batch operations)
                if self.h.contains_key(w[1]) {
                    return None;
                }
                let (ca, ra) = self.get(w[2])?;
                let (cb, rb) = self.get(w[3])?;
                struct Job {
                    and: F2,
                    a: CF,
                    b: CF,
                    res: CF,
                    ran: bool,
                }
                extern "C" fn job(data: *mut c_void) -> *mut c_void {
                    let j = unsafe { &mut *(data as *mut Job) };
                    j.res = unsafe { (j.and)(j.a, j.b) };
                    j.ran = true;
                    data
                }
                let mut j = Job { and: api.bin[0].1, a: ca, b: cb, res: INVALID, ran: false };
                let nn0 = unsafe { (api.num_inner_nodes)(cm) };
                let ret = unsafe { (api.run_in_worker_pool)(cm, job, &mut j as *mut Job as *mut c_void) };
                if !j.ran || ret != &mut j as *mut Job as *mut c_void {
                    rep.fail("capi-worker-pool", &format!("`{line}`: the callback did not run or its result was not returned"));
                }
                let bad = !ca.ok() || !cb.ok();
                let rr = match (ra, rb) {
                    (Some(x), Some(y)) if !bad => self.rs.as_mut().unwrap().op("and", &[x, y], 0, None),
                    _ => None,
                };
                if bad {
                    self.invalid_unchanged(rep, line, nn0, j.res.ok());
                }
                rep.count("callback_api_calls");
                let out = self.put(rep, line, w[1], j.res, rr, bad);
                self.check_args(rep, line, &[w[2], w[3]]);
                out
            }
            ("cof", 4) => {
                if self.h.contains_key(w[1]) || self.h.contains_key(w[2]) || w[1] == w[2] {
                    return None;
                }
                let (c, r) = self.get(w[3])?;
                let nn0 = unsafe { (api.num_inner_nodes)(cm) };
                let p = unsafe { (api.cofactors)(c) };
                if p.first.ok() != p.second.ok() {
                    rep.fail("capi-cofactors-half", &format!("`{line}`: exactly one of the two cofactor handles is valid"));
                }
                let rr = match r {
                    Some(r) => self.rs.as_mut().unwrap().cof(r),
                    None => None,
                };
                if !c.ok() {
                    self.invalid_unchanged(rep, line, nn0, p.first.ok() || p.second.ok());
                }
                self.check_args(rep, line, &[w[3]]);
                if !p.first.ok() {
                    if let Some((a, b)) = rr {
                        let rs = self.rs.as_mut().unwrap();
                        rs.free(a);
                        rs.free(b);
                        if c.ok() {
                            rep.fail("capi-differs", &format!("`{line}`: C cofactors are invalid, the Rust API returns cofactors"));
                        }
                    }
                    self.h.insert(w[1].to_string(), Entry { c: INVALID, r: None, cnt: 0, tree: "INVALID".into() });
                    self.h.insert(w[2].to_string(), Entry { c: INVALID, r: None, cnt: 0, tree: "INVALID".into() });
                    "none".into()
                } else {
                    let a = self.put(rep, line, w[1], p.first, rr.map(|x| x.0), !c.ok());
                    let b = self.put(rep, line, w[2], p.second, rr.map(|x| x.1), !c.ok());
                    format!("{a} {b}")
                }
            }
            ("othermgr", 2) => {
                // A SECOND manager of the same kind on the same thread, between two uses of the main
                // one: same number of variables, same gc count, other functions in the same low node
                // slots, each referenced twice, counted with the same `vars`. Anything the wrapper
                // layer keeps between calls (a cache keyed by node id, say) must not leak from one
                // manager into the other. The main manager is not touched.
                let vars = num(w[1])?;
                let nv = n.max(2);
                let tm = unsafe { (api.manager_new)(1 << 12, 1024, 1) };
                if tm.p.is_null() {
                    rep.fail("capi-manager-null", "manager_new returned an invalid manager");
                    return None;
                }
                unsafe { (api.add_vars)(tm, nv) };
                let target = unsafe { (api.gc_count)(cm) };
                let mut guard = 0;
                while unsafe { (api.gc_count)(tm) } < target && guard < 64 {
                    unsafe { (api.gc)(tm) };
                    guard += 1;
                }
                let nat_str = |f: CF| -> String {
                    let nat = unsafe { (api.sat_count)(f, vars) };
                    let st = unsafe { (ld.common.natural_to_string)(&nat) };
                    let ns = unsafe { std::slice::from_raw_parts(st.data as *const u8, st.len) };
                    let ns = String::from_utf8_lossy(ns).into_owned();
                    unsafe {
                        (ld.common.string_free)(st);
                        (ld.common.natural_free)(nat);
                    }
                    ns
                };
                let mut held: Vec<CF> = Vec::new();
                if vars >= nv && vars <= 100 {
                    for i in 0..nv.min(4) {
                        for j in (i + 1)..nv.min(4) {
                            let (xi, xj) = unsafe { ((api.var)(tm, i), (api.var)(tm, j)) };
                            for (name, f2) in api.bin.iter() {
                                let quarter: u128 = match *name {
                                    "and" => 1,
                                    "or" => 3,
                                    "xor" => 2,
                                    _ => continue,
                                };
                                let f = unsafe { f2(xi, xj) };
                                if !f.ok() {
                                    continue;
                                }
                                held.push(unsafe { (api.fref)(f) });
                                held.push(f);
                                let expect: u128 = quarter << (vars - 2);
                                let got = nat_str(f);
                                let d = unsafe { (api.sat_count_double)(f, vars) };
                                if got != expect.to_string() || d != expect as f64 {
                                    rep.fail("capi-differs", &format!("`{line}`: in a second manager on the same thread sat_count(x{i} {name} x{j}, {vars}) = {got} / {d:e}, expected {expect}"));
                                }
                                rep.count("othermgr_counts");
                            }
                            unsafe {
                                (api.funref)(xi);
                                (api.funref)(xj);
                            }
                        }
                    }
                }
                for f in held {
                    unsafe { (api.funref)(f) };
                }
                unsafe { (api.manager_unref)(tm) };
                "ok".to_string()
            }
            ("count", 2) | ("sat", 2) | ("valid", 2) | ("pickvec", 2) | ("level", 2) | ("nvar", 2) | ("show", 2) | ("tt", 2) | ("satcount", 3) | ("eval", 3) => {
                let (c, r) = self.get(w[1])?;
                if !c.ok() {
                    // these functions are documented to require a valid function, except the two
                    // node queries
                    return Some(match w[0] {
                        "level" | "nvar" => {
                            let v = if w[0] == "level" { unsafe { (api.node_level)(c) } } else { unsafe { (api.node_var)(c) } };
                            if v != NONE32 {
                                rep.fail("capi-invalid-not-propagated", &format!("`{line}`: {} of an invalid handle is {v}", w[0]));
                            }
                            "-".into()
                        }
                        _ => "skip-invalid".into(),
                    });
                }
                let rs = self.rs.as_ref().unwrap();
                let out = match w[0] {
                    "count" => {
                        let (a, b) = (unsafe { (api.node_count)(c) }, r.map(|r| rs.node_count(r)));
                        if Some(a) != b {
                            rep.fail("capi-differs", &format!("`{line}`: node_count C {a}, Rust {b:?}"));
                        }
                        a.to_string()
                    }
                    "sat" | "valid" => {
                        let (a, b) = if w[0] == "sat" { (unsafe { (api.satisfiable)(c) }, r.map(|r| rs.sat(r))) } else { (unsafe { (api.valid)(c) }, r.map(|r| rs.valid(r))) };
                        if Some(a) != b {
                            rep.fail("capi-differs", &format!("`{line}`: C {a}, Rust {b:?}"));
                        }
                        (a as u8).to_string()
                    }
                    "level" | "nvar" => {
                        let (a, b) = if w[0] == "level" { (unsafe { (api.node_level)(c) }, r.map(|r| rs.level(r))) } else { (unsafe { (api.node_var)(c) }, r.map(|r| rs.nvar(r))) };
                        if Some(a) != b {
                            rep.fail("capi-differs", &format!("`{line}`: C {a}, Rust {b:?}"));
                        }
                        show_v(a)
                    }
                    "show" => self.tree(c),
                    "tt" => self.c_tt(c),
                    "eval" => {
                        let bits = u64::from_str_radix(w[2], 2).ok()?;
                        // `eval a b_{n-1}…b_0`: bit v = value of variable v
                        let (a, b) = (self.c_eval(c, bits, n), r.map(|r| rs.eval(r, bits)));
                        if Some(a) != b {
                            rep.fail("capi-differs", &format!("`{line}`: eval C {a}, Rust {b:?}"));
                        }
                        (a as u8).to_string()
                    }
                    "satcount" => {
                        let vars = num(w[2])?;
                        let nat = unsafe { (api.sat_count)(c, vars) };
                        let s = unsafe { (ld.common.natural_to_string)(&nat) };
                        let ns = unsafe { std::slice::from_raw_parts(s.data as *const u8, s.len) };
                        let ns = String::from_utf8_lossy(ns).into_owned();
                        unsafe {
                            (ld.common.string_free)(s);
                            (ld.common.natural_free)(nat);
                        }
                        let d = unsafe { (api.sat_count_double)(c, vars) };
                        if let Some(r) = r {
                            let (rn, rd) = rs.sat_count(r, vars);
                            if rn != ns || rd.to_bits() != d.to_bits() {
                                rep.fail("capi-differs", &format!("`{line}`: sat_count C {ns} / {d:e}, Rust {rn} / {rd:e}"));
                            }
                        }
                        let ds = if d.fract() == 0.0 && d.abs() < 9.0e15 { format!("{}", d as u64) } else { format!("{:e}", d) };
                        format!("{ns} {ds}")
                    }
                    "pickvec" => {
                        let a = unsafe { (api.pick_cube)(c) };
                        let cv: Option<Vec<i8>> = if a.data.is_null() { None } else { Some(unsafe { std::slice::from_raw_parts(a.data, a.len) }.to_vec()) };
                        unsafe { (ld.common.assignment_free)(a) };
                        let rv = r.map(|r| rs.pick_cube(r));
                        if Some(&cv) != rv.as_ref() {
                            rep.fail("capi-differs", &format!("`{line}`: pick_cube C {cv:?}, Rust {rv:?}"));
                        }
                        match cv {
                            None => "NONE".into(),
                            Some(v) => v
                                .iter()
                                .map(|x| match x {
                                    0 => '0',
                                    1 => '1',
                                    _ => '-',
                                })
                                .collect(),
                        }
                    }
                    _ => return None,
                };
                self.check_args(rep, line, &[w[1]]);
                out
            }
            ("ref", 2) => {
                let (c, _) = self.get(w[1])?;
                let r = unsafe { (api.fref)(c) };
                if r != c {
                    rep.fail("capi-ref-result", &format!("`{line}`: oxidd_*_ref does not return its argument"));
                }
                if c.ok() {
                    self.h.get_mut(w[1]).unwrap().cnt += 1;
                }
                "ok".into()
            }
            ("unref", 2) => {
                let (c, _) = self.get(w[1])?;
                unsafe { (api.funref)(c) };
                self.release(w[1]);
                "ok".into()
            }
            ("mref", 1) => {
                let r = unsafe { (api.manager_ref)(cm) };
                if r.p != cm.p {
                    rep.fail("capi-ref-result", "manager_ref does not return its argument");
                }
                self.mrefs += 1;
                "ok".into()
            }
            ("munref", 1) => {
                if self.mrefs <= 1 {
                    return None;
                }
                unsafe { (api.manager_unref)(cm) };
                self.mrefs -= 1;
                "ok".into()
            }
            ("cmgr", 2) => {
                let (c, _) = self.get(w[1])?;
                if !c.ok() {
                    return Some("skip-invalid".into());
                }
                let m = unsafe { (api.containing_manager)(c) };
                if m.p != cm.p {
                    rep.fail("capi-containing-manager", &format!("`{line}`: containing_manager returns a different manager"));
                }
                self.mrefs += 1;
                self.check_args(rep, line, &[w[1]]);
                "ok".into()
            }
            ("qrace", 3) => {
                // C API queries and ref/unref on several threads while one more thread reorders the
                // variables through the C API (BDD, BCDD; ZBDD managers are not reordered with
                // nodes, KF-zbdd-reorder: there the extra thread collects garbage). Every query
                // answer is independent of the variable order, or constrained by the function alone:
                //   node_var(f) is a variable f depends on (the top variable of a reduced ordered
                //   diagram), NONE for constants; node_level(f) < n; eval, sat_count as the truth
                //   table says; ref returns the same handle.
                let (threads, rounds) = (num(w[1])? as usize, num(w[2])? as usize);
                if threads == 0 || threads > 16 || rounds == 0 || rounds > 1_000_000 || n > 10 {
                    return None;
                }
                struct Sh<T>(T);
                unsafe impl<T> Send for Sh<T> {}
                unsafe impl<T> Sync for Sh<T> {}
                let zb = self.kind == 2;
                let mut items: Vec<(String, CF, Vec<bool>, Vec<u32>)> = Vec::new();
                for (k, e) in self.h.iter() {
                    if e.cnt > 0 && e.c.ok() {
                        let tt: Vec<bool> = (0..1u64 << n).map(|x| self.c_eval(e.c, x, n)).collect();
                        let supp: Vec<u32> = (0..n).filter(|v| (0..1usize << n).any(|x| tt[x] != tt[x ^ (1 << v)])).collect();
                        items.push((k.clone(), e.c, tt, supp));
                    }
                }
                if items.is_empty() {
                    return Some("none".into());
                }
                let orig: Vec<u32> = (0..n).map(|l| unsafe { (api.level_to_var)(cm, l) }).collect();
                let done = std::sync::atomic::AtomicBool::new(false);
                let fails: std::sync::Mutex<Vec<String>> = std::sync::Mutex::new(Vec::new());
                let queries = std::sync::atomic::AtomicUsize::new(0);
                let (node_var, node_level, eval, scd, fref, funref, svo, gc) = (api.node_var, api.node_level, api.eval, api.sat_count_double, api.fref, api.funref, api.set_var_order, api.gc);
                let shared = Sh((cm, &items));
                std::thread::scope(|s| {
                    let (shared, done, fails, queries, orig) = (&shared, &done, &fails, &queries, &orig);
                    s.spawn(move || {
                        let cm = shared.0 .0;
                        let mut ord = orig.clone();
                        for r in 0..rounds {
                            if zb {
                                unsafe { gc(cm) };
                            } else {
                                let i = r % (ord.len() - 1).max(1);
                                if ord.len() > 1 {
                                    ord.swap(i, i + 1);
                                }
                                if r % 7 == 3 {
                                    ord.reverse();
                                }
                                unsafe { svo(cm, ord.as_ptr(), ord.len()) };
                            }
                        }
                        if !zb {
                            unsafe { svo(cm, orig.as_ptr(), orig.len()) };
                        }
                        done.store(true, std::sync::atomic::Ordering::SeqCst);
                    });
                    for t in 0..threads {
                        s.spawn(move || {
                            let items = shared.0 .1;
                            let mut it = t;
                            let mut local = 0usize;
                            while !(done.load(std::sync::atomic::Ordering::SeqCst) && local >= rounds) {
                                let (k, c, tt, supp) = &items[it % items.len()];
                                let c = *c;
                                let mut bad = |m: String| {
                                    let mut f = fails.lock().unwrap();
                                    if f.len() < 3 {
                                        f.push(m);
                                    }
                                };
                                let v = unsafe { node_var(c) };
                                let l = unsafe { node_level(c) };
                                if !zb {
                                    if supp.is_empty() {
                                        if v != NONE32 || l != NONE32 {
                                            bad(format!("handle {k} is constant: node_var {v}, node_level {l}"));
                                        }
                                    } else {
                                        if !supp.contains(&v) {
                                            bad(format!("node_var({k}) = {v}: the function depends on the variables {supp:?} only"));
                                        }
                                        if l >= n {
                                            bad(format!("node_level({k}) = {l} with {n} levels"));
                                        }
                                    }
                                }
                                let bits = (it as u64).wrapping_mul(0x9E37_79B9) % (1u64 << n);
                                let args: Vec<CVarBool> = (0..n).map(|v| CVarBool { var: v, val: (bits >> v) & 1 != 0 }).collect();
                                let e = unsafe { eval(c, args.as_ptr(), args.len()) };
                                if e != tt[bits as usize] {
                                    bad(format!("eval({k}, {bits:b}) = {e}, the truth table says {}", tt[bits as usize]));
                                }
                                if it % 4 == 0 {
                                    let d = unsafe { scd(c, n) };
                                    let want = tt.iter().filter(|b| **b).count() as f64;
                                    if d != want {
                                        bad(format!("sat_count_double({k}, {n}) = {d}, the truth table has {want} ones"));
                                    }
                                }
                                let c2 = unsafe { fref(c) };
                                if c2 != c {
                                    bad(format!("ref({k}) returned a different handle"));
                                }
                                unsafe { funref(c2) };
                                it += threads;
                                local += 1;
                            }
                            queries.fetch_add(local, std::sync::atomic::Ordering::SeqCst);
                        });
                    }
                });
                *rep.counts.entry("qrace_queries".into()).or_insert(0) += queries.load(std::sync::atomic::Ordering::SeqCst) as u64;
                *rep.counts.entry("qrace_reorderings".into()).or_insert(0) += if zb { 0 } else { rounds as u64 };
                for m in fails.into_inner().unwrap() {
                    rep.fail("capi-query-during-reordering", &format!("`{line}`: {m} (queries on {threads} threads while another thread calls {})", if zb { "gc" } else { "set_var_order" }));
                }
                // the functions are the same afterwards, the order is the original one again
                for (k, c, tt, _) in &items {
                    let now: Vec<bool> = (0..1u64 << n).map(|x| self.c_eval(*c, x, n)).collect();
                    if &now != tt {
                        rep.fail("capi-order-changed-function", &format!("`{line}`: handle {k} denotes a different function after the concurrent phase"));
                    }
                }
                unsafe { (api.gc)(cm) };
                self.rs.as_mut().unwrap().gc();
                self.check_handles(rep, "after qrace");
                "ok".into()
            }
            ("gc", 1) => {
                unsafe { (api.gc)(cm) };
                let c = unsafe { (api.num_inner_nodes)(cm) };
                let r = self.rs.as_mut().unwrap().gc();
                let e = self.expected_nodes();
                if c != e {
                    rep.fail(self.balance_sig("capi-node-balance"), &format!("after gc the C side manager holds {c} inner nodes; the C-owned references (o{}) and substitution objects reach {e}", self.own()));
                }
                if r != e {
                    rep.fail("capi-mirror-node-balance", &format!("after gc the Rust side manager holds {r} inner nodes; expected {e}"));
                }
                self.check_handles(rep, "after gc");
                c.to_string()
            }
            ("mksubst", _) if w.len() >= 2 => {
                if self.substs.contains_key(w[1]) {
                    return None;
                }
                let mut pairs = Vec::new();
                for p in &w[2..] {
                    let (v, hn) = p.split_once('=')?;
                    let v = num(v)?;
                    if v >= n {
                        return None;
                    }
                    let (c, r) = self.get(hn)?;
                    pairs.push((v, hn.to_string(), c, r));
                }
                if pairs.iter().any(|p| !p.2.ok()) {
                    // add_pair requires a valid replacement
                    return Some("skip-invalid".into());
                }
                if pairs.iter().any(|p| p.3.is_none()) {
                    return None;
                }
                let s = unsafe { (api.substitution_new?)(pairs.len()) };
                for p in &pairs {
                    unsafe { (api.substitution_add_pair?)(s, p.0, p.2) };
                }
                let reps = pairs.iter().map(|p| (p.0, self.h[&p.1].tree.clone())).collect();
                let rp: Vec<(u32, usize)> = pairs.iter().map(|p| (p.0, p.3.unwrap())).collect();
                self.rs.as_mut().unwrap().subst_new(w[1], &rp);
                self.substs.insert(w[1].to_string(), SubstObj { c: s, reps });
                let names: Vec<&str> = pairs.iter().map(|p| p.1.as_str()).collect();
                self.check_args(rep, line, &names);
                "ok".into()
            }
            ("subst", 4) => {
                if self.h.contains_key(w[1]) {
                    return None;
                }
                let (c, r) = self.get(w[2])?;
                let sp = if w[3] == "NULL" { std::ptr::null_mut() } else { self.substs.get(w[3])?.c };
                let nn0 = unsafe { (api.num_inner_nodes)(cm) };
                let res = unsafe { (api.substitute?)(c, sp) };
                let bad = !c.ok() || sp.is_null();
                let rr = if bad { None } else { r.and_then(|r| self.rs.as_mut().unwrap().subst_apply(r, w[3])) };
                if bad {
                    self.invalid_unchanged(rep, line, nn0, res.ok());
                }
                let out = self.put(rep, line, w[1], res, rr, bad);
                self.check_args(rep, line, &[w[2]]);
                out
            }
            ("dropsubst", 2) => {
                let s = self.substs.remove(w[1])?;
                unsafe { (api.substitution_free?)(s.c) };
                self.rs.as_mut().unwrap().subst_free(w[1]);
                "ok".into()
            }
            ("dddmp", _) | ("dot", _) | ("import", _) if w.len() >= 2 => self.op_files(line, w, rep)?,
            ("end", 1) => {
                self.check_handles(rep, "before the final unref");
                let names: Vec<String> = self.h.keys().cloned().collect();
                for k in names {
                    let (c, cnt) = (self.h[&k].c, self.h[&k].cnt);
                    if c.ok() {
                        for _ in 0..cnt {
                            unsafe { (api.funref)(c) };
                        }
                    }
                    if let Some(r) = self.h[&k].r {
                        self.rs.as_mut().unwrap().free(r);
                    }
                }
                self.h.clear();
                let sids: Vec<String> = self.substs.keys().cloned().collect();
                for k in sids {
                    let s = self.substs.remove(&k).unwrap();
                    if let Some(f) = api.substitution_free {
                        unsafe { f(s.c) };
                    }
                    self.rs.as_mut().unwrap().subst_free(&k);
                }
                unsafe { (api.gc)(cm) };
                let c = unsafe { (api.num_inner_nodes)(cm) };
                let r = self.rs.as_mut().unwrap().gc();
                let e = self.expected_nodes();
                if c != e {
                    rep.fail(self.balance_sig("capi-node-balance"), &format!("after releasing every C-owned reference and gc the manager holds {c} inner nodes, expected {e}"));
                }
                if r != e {
                    rep.fail("capi-mirror-node-balance", &format!("after dropping everything and gc the Rust side manager holds {r} inner nodes, expected {e}"));
                }
                if self.rs.as_ref().unwrap().live() != 0 {
                    rep.fail("capi-mirror-ledger", "mirror functions remain although no C handle is owned");
                }
                for _ in 0..self.mrefs {
                    unsafe { (api.manager_unref)(cm) };
                }
                self.mrefs = 0;
                self.cm = None;
                self.rs = None;
                self.ended = true;
                rep.count("cases_ended");
                c.to_string()
            }
            _ => return None,
        })
    }

    /// an operation got an invalid argument: the result must be invalid and nothing may change
    fn invalid_unchanged(&self, rep: &mut Rep, line: &str, nn0: usize, result_valid: bool) {
        rep.count("invalid_arg_calls");
        if result_valid {
            rep.fail("capi-invalid-not-propagated", &format!("`{line}` has an invalid argument but returned a valid handle"));
        }
        let nn1 = unsafe { (self.api().num_inner_nodes)(self.cm.unwrap()) };
        if nn1 != nn0 {
            rep.fail("capi-invalid-changed-state", &format!("`{line}` has an invalid argument but the node count changed from {nn0} to {nn1}"));
        }
        self.check_handles(rep, line);
    }

    /// function-valued operations following the `op1`/`op2`/`op3` pattern
    fn op_fn(&mut self, line: &str, w: &[&str], rep: &mut Rep) -> Option<String> {
        let cm = self.cm.unwrap();
        let ld = self.ld.clone();
        let api = &ld.apis[self.kind];
        let n = unsafe { (api.num_vars)(cm) };
        let name = w[1];
        if self.h.contains_key(name) {
            return None;
        }
        // (mirror op name, C call, handle arguments, numeric argument, operator)
        let mut numarg = 0u32;
        let mut bop = None;
        let (rop, args): (&str, Vec<&str>) = match (w[0], w.len()) {
            ("op", 4) if w[2] == "not" => ("not", vec![w[3]]),
            ("op", 6) if w[2] == "ite" => ("ite", vec![w[3], w[4], w[5]]),
            ("op", 5) => (OPS.iter().find(|o| o.0 == w[2])?.0, vec![w[3], w[4]]),
            ("quant", 5) => (
                match w[2] {
                    "forall" => "forall",
                    "exists" => "exists",
                    "unique" => "unique",
                    _ => return None,
                },
                vec![w[3], w[4]],
            ),
            ("applyq", 7) => {
                bop = Some(bool_op(w[3])?);
                (
                    match w[2] {
                        "forall" => "apply_forall",
                        "exists" => "apply_exists",
                        "unique" => "apply_unique",
                        _ => return None,
                    },
                    vec![w[4], w[5], w[6]],
                )
            }
            ("restrict", 4) => ("restrict", vec![w[2], w[3]]),
            ("pick", 3) => ("pick", vec![w[2]]),
            ("pickset", 4) => ("pickset", vec![w[2], w[3]]),
            ("coft", 3) => ("coft", vec![w[2]]),
            ("cofe", 3) => ("cofe", vec![w[2]]),
            ("subset0", 4) | ("subset1", 4) | ("change", 4) => {
                numarg = w[3].parse().ok()?;
                if numarg >= n {
                    return None;
                }
                (w[0], vec![w[2]])
            }
            ("union", 4) | ("intsec", 4) | ("diff", 4) => (w[0], vec![w[2], w[3]]),
            ("mknode", 5) => ("make_node", vec![w[2], w[3], w[4]]),
            _ => return None,
        };
        let mut cs = Vec::new();
        let mut rsl = Vec::new();
        for a in &args {
            let (c, r) = self.get(a)?;
            cs.push(c);
            rsl.push(r);
        }
        let any_invalid = cs.iter().any(|c| !c.ok());
        let nn0 = unsafe { (api.num_inner_nodes)(cm) };
        let res: CF = unsafe {
            match rop {
                "not" => (api.not)(cs[0]),
                "ite" => (api.ite)(cs[0], cs[1], cs[2]),
                "forall" => (api.forall?)(cs[0], cs[1]),
                "exists" => (api.exists?)(cs[0], cs[1]),
                "unique" => (api.unique?)(cs[0], cs[1]),
                "apply_forall" => (api.apply_forall?)(bop? as u8, cs[0], cs[1], cs[2]),
                "apply_exists" => (api.apply_exists?)(bop? as u8, cs[0], cs[1], cs[2]),
                "apply_unique" => (api.apply_unique?)(bop? as u8, cs[0], cs[1], cs[2]),
                "restrict" => (api.restrict?)(cs[0], cs[1]),
                "pick" => (api.pick_cube_dd)(cs[0]),
                "pickset" => (api.pick_cube_dd_set)(cs[0], cs[1]),
                "coft" => (api.cofactor_true)(cs[0]),
                "cofe" => (api.cofactor_false)(cs[0]),
                "subset0" => (api.subset0?)(cs[0], numarg),
                "subset1" => (api.subset1?)(cs[0], numarg),
                "change" => (api.change?)(cs[0], numarg),
                "union" => (api.union?)(cs[0], cs[1]),
                "intsec" => (api.intsec?)(cs[0], cs[1]),
                "diff" => (api.diff?)(cs[0], cs[1]),
                "make_node" => (api.make_node?)(cs[0], cs[1], cs[2]),
                b => (api.bin.iter().find(|o| o.0 == b)?.1)(cs[0], cs[1]),
            }
        };
        rep.count(&format!("fn_{rop}"));
        // (a valid C handle without mirror function only exists after an earlier oracle failure)
        let rr = if any_invalid || rsl.iter().any(|r| r.is_none()) {
            None
        } else {
            let ra: Vec<usize> = rsl.iter().map(|r| r.unwrap()).collect();
            self.rs.as_mut().unwrap().op(rop, &ra, numarg, bop)
        };
        if any_invalid && rop != "make_node" {
            self.invalid_unchanged(rep, line, nn0, res.ok());
        }
        let terminal_cof = (rop == "coft" || rop == "cofe") && !any_invalid && !res.ok() && rr.is_none();
        let out = if terminal_cof {
            // a terminal has no cofactors: invalid on both sides
            self.h.insert(name.to_string(), Entry { c: INVALID, r: None, cnt: 0, tree: "INVALID".into() });
            "INVALID".to_string()
        } else {
            self.put(rep, line, name, res, rr, any_invalid)
        };
        if rop == "make_node" {
            // `oxidd_zbdd_make_node` takes ownership of `hi` and `lo` (documented)
            rep.count(if any_invalid { "make_node_invalid_arg" } else { "make_node_valid" });
            if (!cs[0].ok() && (cs[1].ok() || cs[2].ok())) || (cs[0].ok() && !cs[1].ok() && cs[2].ok()) {
                self.make_node_path = true;
                rep.count("make_node_defective_path");
            }
            self.release(args[1]);
            if self.h.contains_key(args[2]) {
                self.release(args[2]);
            }
            self.check_args(rep, line, &[args[0]]);
        } else {
            self.check_args(rep, line, &args);
        }
        Some(out)
    }

    fn op_files(&mut self, line: &str, w: &[&str], rep: &mut Rep) -> Option<String> {
        let cm = self.cm.unwrap();
        let ld = self.ld.clone();
        let api = &ld.apis[self.kind];
        let opts: Vec<&str> = w[1..].iter().copied().filter(|x| x.contains('=')).collect();
        let hs: Vec<&str> = w[1..].iter().copied().filter(|x| !x.contains('=')).collect();
        let named = opts.contains(&"names=1");
        let v3 = opts.contains(&"v=3");
        // the `_iter` variants of the exports take the functions through a C iterator
        let use_iter = opts.contains(&"iter=1");
        if use_iter {
            rep.count("iter_api_calls");
        }
        let mut cs = Vec::new();
        let mut rsl = Vec::new();
        for a in &hs {
            let (c, r) = self.get(a)?;
            cs.push(c);
            rsl.push(r);
        }
        let any_invalid = cs.iter().any(|c| !c.ok());
        let tmp_dir = tmp_dir();
        std::fs::create_dir_all(&tmp_dir).ok();
        self.file_no += 1;
        let pid = std::process::id();
        let cpath = format!("{tmp_dir}/c-{pid}-{}.{}", self.file_no, if w[0] == "dot" { "dot" } else { "dddmp" });
        let rpath = format!("{tmp_dir}/r-{pid}-{}.{}", self.file_no, if w[0] == "dot" { "dot" } else { "dddmp" });
        let fnames: Vec<CString> = hs.iter().map(|h| CString::new(format!("f_{h}")).unwrap()).collect();
        let fptrs: Vec<*const c_char> = fnames.iter().map(|c| c.as_ptr()).collect();
        let mut err = std::mem::MaybeUninit::<CError>::uninit();
        let take_err = |err: std::mem::MaybeUninit<CError>| -> String {
            let e = unsafe { err.assume_init() };
            let s = unsafe { std::slice::from_raw_parts(e.msg.data as *const u8, e.msg.len) };
            let s = String::from_utf8_lossy(s).into_owned();
            unsafe { (ld.common.error_free)(e) };
            s
        };
        let nn0 = unsafe { (api.num_inner_nodes)(cm) };
        let out = match w[0] {
            "dot" => {
                let ok = if use_iter {
                    let mut ctx = IterCtx { items: cs.iter().zip(&fnames).map(|(f, nm)| CNamed { func: *f, name: CStr { ptr: nm.as_ptr(), len: nm.as_bytes().len() } }).collect(), pos: 0 };
                    unsafe { (api.dump_all_dot_path_iter)(cm, cpath.as_ptr() as *const c_char, cpath.len(), make_iter(&mut ctx, false), err.as_mut_ptr()) }
                } else {
                    unsafe { (api.dump_all_dot_path)(cm, cpath.as_ptr() as *const c_char, cpath.len(), cs.as_ptr(), fptrs.as_ptr(), cs.len(), err.as_mut_ptr()) }
                };
                let msg = take_err(err);
                if !ok {
                    rep.fail("capi-dot", &format!("`{line}`: dump_all_dot_path failed: {msg}"));
                } else if !msg.is_empty() {
                    rep.fail("capi-dot", &format!("`{line}`: success but error message {msg:?}"));
                }
                // invalid functions are skipped by the C wrapper
                let rf: Vec<(usize, String)> = hs.iter().zip(&rsl).filter_map(|(h, r)| r.map(|r| (r, format!("f_{h}")))).collect();
                if let Err(e) = self.rs.as_ref().unwrap().dump_dot(&rpath, &rf) {
                    rep.fail("capi-mirror-dot", &e);
                }
                let (a, b) = (std::fs::read(&cpath).unwrap_or_default(), std::fs::read(&rpath).unwrap_or_default());
                if a.is_empty() {
                    rep.fail("capi-dot", &format!("`{line}`: empty DOT file"));
                }
                rep.count(if a == b { "dot_bytes_equal" } else { "dot_bytes_differ" });
                "ok".to_string()
            }
            "dddmp" | "import" => {
                let name = "capi";
                let set = CDddmpSettings { version: if v3 { 1 } else { 0 }, ascii: true, strict: false, diagram_name: CStr { ptr: name.as_ptr() as *const c_char, len: name.len() } };
                let ok = if use_iter && named {
                    let mut ctx = IterCtx { items: cs.iter().zip(&fnames).map(|(f, nm)| CNamed { func: *f, name: CStr { ptr: nm.as_ptr(), len: nm.as_bytes().len() } }).collect(), pos: 0 };
                    unsafe { (api.export_dddmp_with_names_iter)(cm, cpath.as_ptr() as *const c_char, cpath.len(), make_iter(&mut ctx, true), &set, err.as_mut_ptr()) }
                } else if use_iter {
                    let mut ctx = IterCtx { items: cs.clone(), pos: 0 };
                    unsafe { (api.export_dddmp_iter)(cm, cpath.as_ptr() as *const c_char, cpath.len(), make_iter(&mut ctx, true), &set, err.as_mut_ptr()) }
                } else {
                    unsafe { (api.export_dddmp)(cm, cpath.as_ptr() as *const c_char, cpath.len(), cs.as_ptr(), cs.len(), if named { fptrs.as_ptr() } else { null() }, &set, err.as_mut_ptr()) }
                };
                if any_invalid {
                    // documented: `false` and an error naming the invalid function
                    let msg = take_err(err);
                    if ok || !msg.contains("is invalid") {
                        rep.fail("capi-invalid-not-propagated", &format!("`{line}`: export with an invalid function returned {ok} / {msg:?}"));
                    }
                    rep.count("invalid_arg_calls");
                    "err".to_string()
                } else if !ok {
                    let msg = take_err(err);
                    rep.fail("capi-dddmp", &format!("`{line}`: export failed: {msg}"));
                    "err".to_string()
                } else if rsl.iter().any(|r| r.is_none()) {
                    let _ = take_err(err);
                    "ok".to_string()
                } else {
                    let msg = take_err(err);
                    if !msg.is_empty() {
                        rep.fail("capi-dddmp", &format!("`{line}`: success but error message {msg:?}"));
                    }
                    let rf: Vec<usize> = rsl.iter().map(|r| r.unwrap()).collect();
                    let rn: Vec<String> = hs.iter().map(|h| format!("f_{h}")).collect();
                    if let Err(e) = self.rs.as_ref().unwrap().export_dddmp(&rpath, &rf, if named { Some(&rn) } else { None }, v3) {
                        rep.fail("capi-mirror-dddmp", &e);
                    }
                    let (a, b) = (std::fs::read(&cpath).unwrap_or_default(), std::fs::read(&rpath).unwrap_or_default());
                    if a != b {
                        rep.count("dddmp_bytes_differ_numbering");
                    }
                    // the numbering of the nodes of one level follows the iteration order of that
                    // level's unique table, i.e. the slot numbers the two managers happened to
                    // hand out: the files are compared up to a renumbering of the nodes
                    let (a, b) = (canon_dddmp_ascii(&a), canon_dddmp_ascii(&b));
                    if a != b {
                        rep.fail("capi-differs", &format!("`{line}`: the DDDMP file written through the C API ({} bytes) differs from the Rust API's ({} bytes): {cpath} {rpath}", a.len(), b.len()));
                    } else {
                        rep.count("dddmp_bytes_equal");
                    }
                    if w[0] == "import" {
                        let mut err2 = std::mem::MaybeUninit::<CError>::uninit();
                        let f = unsafe { (ld.common.dddmp_open)(cpath.as_ptr() as *const c_char, cpath.len(), err2.as_mut_ptr()) };
                        let msg = take_err(err2);
                        if f.is_null() {
                            rep.fail("capi-dddmp", &format!("`{line}`: dddmp_open failed: {msg}"));
                        } else {
                            let nr = unsafe { (ld.common.dddmp_num_roots)(f) };
                            if nr != cs.len() {
                                rep.fail("capi-dddmp", &format!("`{line}`: {nr} roots in the file, {} exported", cs.len()));
                            }
                            let mut roots = vec![INVALID; nr];
                            let mut err3 = std::mem::MaybeUninit::<CError>::uninit();
                            let ok = unsafe { (api.import_dddmp)(cm, f, null(), roots.as_mut_ptr(), err3.as_mut_ptr()) };
                            let msg = take_err(err3);
                            if !ok {
                                rep.fail("capi-dddmp", &format!("`{line}`: import failed: {msg}"));
                            } else {
                                // the imported roots are owned by the caller; same manager ⇒ same nodes
                                for (i, r) in roots.iter().enumerate() {
                                    if !r.ok() {
                                        rep.fail("capi-dddmp", &format!("`{line}`: imported root {i} is invalid"));
                                        continue;
                                    }
                                    let t = self.tree(*r);
                                    let e = &self.h[hs[i]].tree;
                                    if &t != e {
                                        rep.fail("capi-differs", &format!("`{line}`: imported root {i} is {t}, exported {e}"));
                                    }
                                    unsafe { (api.funref)(*r) };
                                }
                                rep.count("dddmp_imports");
                            }
                            unsafe { (ld.common.dddmp_close)(f) };
                        }
                    }
                    "ok".to_string()
                }
            }
            _ => return None,
        };
        let _ = nn0;
        if rep.fails.is_empty() || std::env::var("C19_KEEP").is_err() {
            let _ = std::fs::remove_file(&cpath);
            let _ = std::fs::remove_file(&rpath);
        }
        self.check_args(rep, line, &hs);
        Some(out)
    }

    /// exhaust a tiny manager of the same kind: the failing operation must return INVALID
    fn obtain_invalid(&mut self, rep: &mut Rep) -> CF {
        let api = self.api();
        let nv = 4u32;
        // ZBDD managers keep one node per variable themselves
        let cap = if api.kind == "zbdd" { nv as usize + 1 } else { 1 };
        let m = unsafe { (api.manager_new)(cap, 16, 1) };
        unsafe { (api.add_vars)(m, nv) };
        let mut owned = Vec::new();
        let mut inv = None;
        for v in 0..nv {
            let f = unsafe { (api.var)(m, v) };
            if f.ok() {
                owned.push(f);
            } else {
                inv = Some(f);
                break;
            }
        }
        for f in owned {
            unsafe { (api.funref)(f) };
        }
        unsafe { (api.manager_unref)(m) };
        match inv {
            Some(f) => {
                if f != INVALID {
                    rep.fail("capi-invalid-shape", &format!("the invalid handle is {{{:?}, {}}}, expected {{NULL, 0}}", f.p, f.i));
                }
                rep.count("oom_invalid_obtained");
                f
            }
            None => {
                rep.fail("capi-no-oom", &format!("a manager with capacity {cap} stored {nv} variable nodes"));
                INVALID
            }
        }
    }
}

fn collect_keys(tree: &str, bcdd: bool, keys: &mut BTreeSet<String>) {
    // every balanced "(…)" substring of the canonical tree is an inner node
    let b = tree.as_bytes();
    let mut stack = Vec::new();
    for (i, &c) in b.iter().enumerate() {
        if c == b'(' {
            stack.push(i);
        } else if c == b')' {
            if let Some(s) = stack.pop() {
                let sub = &tree[s..=i];
                if bcdd {
                    let c = complement_tree(sub);
                    keys.insert(if c.as_str() < sub { c } else { sub.to_string() });
                } else {
                    keys.insert(sub.to_string());
                }
            }
        }
    }
}

// ------------------------------------------------------------------------------------------------
// child process: executes the lines, one answer block per line

fn one_line(s: &str) -> String {
    s.replace(['\n', '\r', '\t'], " ")
}

fn child_main(flags: &BTreeMap<String, String>) {
    std::panic::set_hook(Box::new(|info| {
        eprintln!("@panic {}", info);
    }));
    let lib = flags.get("lib").cloned().unwrap_or_else(default_lib);
    let ld = load(&lib).map(std::sync::Arc::new);
    let progress = std::sync::Arc::new(std::sync::atomic::AtomicU64::new(0));
    {
        let p = progress.clone();
        std::thread::spawn(move || {
            let mut last = 0;
            let mut stale = 0;
            loop {
                std::thread::sleep(std::time::Duration::from_millis(500));
                let now = p.load(std::sync::atomic::Ordering::Relaxed);
                if now == last && now % 2 == 1 {
                    stale += 1;
                } else {
                    stale = 0;
                    last = now;
                }
                if stale >= 90 {
                    eprintln!("@child-hang");
                    std::process::exit(4);
                }
            }
        });
    }
    let mut sc = ld.as_ref().ok().map(|l| Real::new(l.clone()));
    let stdin = std::io::stdin();
    let out = std::io::stdout();
    let mut w = out.lock();
    let mut dead = false;
    for line in stdin.lock().lines() {
        let line = line.unwrap();
        // odd = busy
        progress.fetch_add(1, std::sync::atomic::Ordering::Relaxed);
        if line == "@reset" {
            if let Some(s) = sc.as_mut() {
                if dead {
                    let old = std::mem::replace(s, Real::new(ld.as_ref().unwrap().clone()));
                    std::mem::forget(old);
                } else if std::panic::catch_unwind(std::panic::AssertUnwindSafe(|| s.teardown())).is_err() {
                    let old = std::mem::replace(s, Real::new(ld.as_ref().unwrap().clone()));
                    std::mem::forget(old);
                }
            }
            dead = false;
            writeln!(w, "@R").unwrap();
        } else {
            match (&mut sc, &ld) {
                (Some(s), _) if !dead => {
                    let mut rep = Rep::default();
                    let r = std::panic::catch_unwind(std::panic::AssertUnwindSafe(|| s.step(&line, &mut rep)));
                    for (sig, msg) in &rep.fails {
                        writeln!(w, "@F {}\t{}", sig, one_line(msg)).unwrap();
                    }
                    for (k, n) in &rep.counts {
                        writeln!(w, "@C {} {}", k, n).unwrap();
                    }
                    match r {
                        Ok(o) => writeln!(w, "@O {}", one_line(&o)).unwrap(),
                        Err(e) => {
                            let msg = if let Some(s) = e.downcast_ref::<String>() {
                                s.clone()
                            } else if let Some(s) = e.downcast_ref::<&str>() {
                                s.to_string()
                            } else {
                                "?".into()
                            };
                            writeln!(w, "@F panic\tpanic while executing `{}`: {}", line, one_line(&msg)).unwrap();
                            writeln!(w, "@O PANIC").unwrap();
                            dead = true;
                        }
                    }
                }
                (Some(_), _) => writeln!(w, "@O DEAD").unwrap(),
                (None, Err(e)) => {
                    writeln!(w, "@F capi-load\t{}", one_line(e)).unwrap();
                    writeln!(w, "@O NOLIB").unwrap();
                }
                (None, Ok(_)) => unreachable!(),
            }
        }
        w.flush().unwrap();
        progress.fetch_add(1, std::sync::atomic::Ordering::Relaxed);
    }
    // the scenario is leaked: managers with outstanding references must not be torn down here
    std::mem::forget(sc);
}

// ------------------------------------------------------------------------------------------------
// parent: builds the library, forwards the lines to the child, reports crashes

struct ChildIo {
    proc: std::process::Child,
    stdin: std::process::ChildStdin,
    /// lines of the child's stdout (a reader thread forwards them; `None` = end of file)
    lines: std::sync::mpsc::Receiver<Option<String>>,
}

/// how long one operation line may take in the child before it is killed
const LINE_TIMEOUT_S: u64 = 25;

struct Proxy {
    lib: String,
    build_err: Option<String>,
    child: Option<ChildIo>,
    dead_case: Option<String>,
    pending: Vec<(String, String)>,
}

fn build_library() -> Result<(), String> {
    let out = std::process::Command::new("cargo")
        .args(["build", "--release", "--offline", "-p", "oxidd-ffi-c"])
        .current_dir(repo_dir())
        .env("CARGO_TARGET_DIR", ffi_target_dir())
        .env_remove("RUSTFLAGS")
        .output()
        .map_err(|e| format!("cannot run cargo: {e}"))?;
    if !out.status.success() {
        let err = String::from_utf8_lossy(&out.stderr);
        let tail: String = err.chars().rev().take(1500).collect::<Vec<_>>().into_iter().rev().collect();
        return Err(format!("building oxidd-ffi-c from /repo failed: {tail}"));
    }
    Ok(())
}

impl Proxy {
    fn spawn(&mut self) -> Result<(), String> {
        let exe = std::env::current_exe().map_err(|e| e.to_string())?;
        let mut proc = std::process::Command::new(exe)
            .args(["child", "--lib", &self.lib])
            .stdin(std::process::Stdio::piped())
            .stdout(std::process::Stdio::piped())
            .spawn()
            .map_err(|e| format!("cannot start the child process: {e}"))?;
        let stdin = proc.stdin.take().unwrap();
        let mut stdout = BufReader::new(proc.stdout.take().unwrap());
        let (tx, rx) = std::sync::mpsc::channel();
        std::thread::spawn(move || {
            loop {
                let mut l = String::new();
                match stdout.read_line(&mut l) {
                    Ok(n) if n > 0 => {
                        if tx.send(Some(l)).is_err() {
                            return;
                        }
                    }
                    _ => {
                        let _ = tx.send(None);
                        return;
                    }
                }
            }
        });
        self.child = Some(ChildIo { proc, stdin, lines: rx });
        Ok(())
    }
    fn died(&mut self) -> String {
        match self.child.take() {
            Some(mut c) => {
                drop(c.stdin);
                match c.proc.wait() {
                    Ok(st) => {
                        use std::os::unix::process::ExitStatusExt;
                        match st.signal() {
                            Some(s) => format!("killed by signal {s}"),
                            None => format!("{st}"),
                        }
                    }
                    Err(e) => e.to_string(),
                }
            }
            None => "?".into(),
        }
    }
}

impl Scenario for Proxy {
    fn reset(&mut self) {
        self.dead_case = None;
        if let Some(c) = self.child.as_mut() {
            let mut ok = writeln!(c.stdin, "@reset").and_then(|_| c.stdin.flush()).is_ok();
            if ok {
                ok = matches!(c.lines.recv_timeout(std::time::Duration::from_secs(LINE_TIMEOUT_S)), Ok(Some(l)) if l.trim() == "@R");
                if !ok {
                    let _ = c.proc.kill();
                }
            }
            if !ok {
                let st = self.died();
                self.pending.push(("capi-crash".into(), format!("the process executing the C API calls died ({st}) while releasing the handles of the previous case")));
            }
        }
    }
    fn step(&mut self, line: &str, ctx: &mut Ctx) -> String {
        if let Some(e) = &self.build_err {
            ctx.fail("capi-build", e);
            return "NOLIB".into();
        }
        for (s, m) in self.pending.drain(..) {
            ctx.fail(&s, &m);
        }
        if self.dead_case.as_deref() == Some(ctx.case.as_str()) {
            return "DEAD".into();
        }
        if self.child.is_none() {
            if let Err(e) = self.spawn() {
                ctx.fail("capi-build", &e);
                return "NOLIB".into();
            }
        }
        let c = self.child.as_mut().unwrap();
        let mut alive = writeln!(c.stdin, "{}", line).and_then(|_| c.stdin.flush()).is_ok();
        let mut out = None;
        let mut hung = false;
        while alive && out.is_none() {
            match c.lines.recv_timeout(std::time::Duration::from_secs(LINE_TIMEOUT_S)) {
                Ok(Some(l)) => {
                    let l = l.trim_end_matches(['\n', '\r']);
                    if let Some(o) = l.strip_prefix("@O ") {
                        out = Some(o.to_string());
                    } else if let Some(f) = l.strip_prefix("@F ") {
                        let (sig, msg) = f.split_once('\t').unwrap_or((f, ""));
                        ctx.fail(sig, msg);
                    } else if let Some(cn) = l.strip_prefix("@C ") {
                        if let Some((k, n)) = cn.rsplit_once(' ') {
                            ctx.add(k, n.parse().unwrap_or(1));
                        }
                    }
                }
                Ok(None) => alive = false,
                Err(_) => {
                    // no answer: kill the child, the case is over
                    hung = true;
                    alive = false;
                    let _ = c.proc.kill();
                }
            }
        }
        match out {
            Some(o) => o,
            None if hung => {
                let _ = self.died();
                ctx.fail("capi-hang", &format!("the process executing the C API calls did not answer within {LINE_TIMEOUT_S} s while executing `{line}`"));
                ctx.count("child_hangs");
                self.dead_case = Some(ctx.case.clone());
                "HANG".into()
            }
            None => {
                let st = self.died();
                // dedicated known-finding cases use the signature of the finding
                let sig = if ctx.case.starts_with("case kf-") { "crash" } else { "capi-crash" };
                ctx.fail(sig, &format!("the process executing the C API calls died ({st}) while executing `{line}`"));
                ctx.count("child_crashes");
                self.dead_case = Some(ctx.case.clone());
                "CRASH".into()
            }
        }
    }
}

fn make(f: &BTreeMap<String, String>) -> Box<dyn Scenario> {
    let lib = f.get("lib").cloned().unwrap_or_else(default_lib);
    let mut build_err = None;
    if !f.contains_key("no-build") {
        if let Err(e) = build_library() {
            build_err = Some(e);
        }
    }
    if build_err.is_none() && !std::path::Path::new(&lib).exists() {
        build_err = Some(format!("{lib} does not exist"));
    }
    Box::new(Proxy { lib, build_err, child: None, dead_case: None, pending: Vec::new() })
}

// ------------------------------------------------------------------------------------------------
// generator

const BIN: [&str; 8] = ["and", "or", "xor", "equiv", "nand", "nor", "imp", "imp_strict"];
const QUANTS: [&str; 3] = ["forall", "exists", "unique"];
const NAMES: [&str; 8] = ["a", "b", "c", "x", "y", "z_1", "long_name", "q"];

struct GH {
    name: String,
    cnt: u32,
    /// truth table if the generator can predict it (bit a = value under assignment a)
    tt: Option<u64>,
}

struct Gen<'a> {
    rng: &'a mut Rng,
    w: &'a mut dyn Write,
    kind: &'static str,
    n: u32,
    hs: Vec<GH>,
    next: u32,
    l2v: Vec<u32>,
    substs: Vec<String>,
    invalid: Option<String>,
    mrefs: u32,
    tiny: bool,
}

fn bin_tt(op: &str, a: u64, b: u64) -> u64 {
    match op {
        "and" => a & b,
        "or" => a | b,
        "xor" => a ^ b,
        "equiv" => !(a ^ b),
        "nand" => !(a & b),
        "nor" => !(a | b),
        "imp" => !a | b,
        _ => !a & b,
    }
}

impl<'a> Gen<'a> {
    fn emit(&mut self, l: &str) {
        writeln!(self.w, "{}", l).unwrap();
    }
    fn full(&self) -> u64 {
        if self.n >= 6 { u64::MAX } else { (1u64 << (1u32 << self.n)) - 1 }
    }
    fn var_tt(&self, v: u32) -> u64 {
        let mut t = 0u64;
        for a in 0..(1u64 << self.n.min(6)) {
            if (a >> v) & 1 != 0 {
                t |= 1 << a;
            }
        }
        t
    }
    fn fresh(&mut self) -> String {
        self.next += 1;
        format!("h{}", self.next)
    }
    fn def(&mut self, name: &str, tt: Option<u64>) {
        let full = self.full();
        // ZBDD handles denote Boolean functions only for the Boolean operators; the prediction is
        // only used to prefer non-constant functions for `cof`
        self.hs.push(GH { name: name.to_string(), cnt: 1, tt: tt.map(|t| t & full) });
    }
    fn live(&self) -> Vec<usize> {
        (0..self.hs.len()).filter(|&i| self.hs[i].cnt > 0).collect()
    }
    /// a live handle; sometimes the invalid one
    fn arg(&mut self) -> Option<usize> {
        let l = self.live();
        if l.is_empty() {
            return None;
        }
        Some(*self.rng.pick(&l))
    }
    fn arg_name(&mut self) -> Option<String> {
        if let Some(z) = &self.invalid {
            if self.rng.chance(1, 12) {
                return Some(z.clone());
            }
        }
        self.arg().map(|i| self.hs[i].name.clone())
    }
    fn tt_of(&self, name: &str) -> Option<u64> {
        self.hs.iter().find(|h| h.name == name && h.cnt > 0).and_then(|h| h.tt)
    }
    fn leaf(&mut self) -> String {
        let h = self.fresh();
        let v = self.rng.below(self.n as u64) as u32;
        match self.rng.below(10) {
            0 => {
                self.emit(&format!("const {h} T"));
                let f = self.full();
                self.def(&h, Some(f));
            }
            1 => {
                self.emit(&format!("const {h} F"));
                self.def(&h, Some(0));
            }
            2 | 3 => {
                self.emit(&format!("notvar {h} {v}"));
                let t = !self.var_tt(v);
                self.def(&h, Some(t));
            }
            _ => {
                self.emit(&format!("var {h} {v}"));
                let t = self.var_tt(v);
                self.def(&h, Some(t));
            }
        }
        h
    }
    /// conjunction of literals over distinct variables (`positive`: a variable set)
    fn cube(&mut self, positive: bool, max: u32) -> String {
        let k = self.rng.range(1, max.min(self.n) as u64) as usize;
        let mut vs: Vec<u32> = (0..self.n).collect();
        self.rng.shuffle(&mut vs);
        let mut acc: Option<String> = None;
        for &v in &vs[..k] {
            let h = self.fresh();
            let neg = !positive && self.rng.chance(1, 2);
            self.emit(&format!("{} {h} {v}", if neg { "notvar" } else { "var" }));
            let t = if neg { !self.var_tt(v) } else { self.var_tt(v) };
            self.def(&h, Some(t));
            acc = Some(match acc {
                None => h,
                Some(a) => {
                    let r = self.fresh();
                    self.emit(&format!("op {r} and {a} {h}"));
                    let t = self.tt_of(&a).zip(self.tt_of(&h)).map(|(x, y)| x & y);
                    self.def(&r, t);
                    // the parts are released again: only the cube stays owned
                    self.unref(&a);
                    self.unref(&h);
                    r
                }
            });
        }
        acc.unwrap()
    }
    fn unref(&mut self, name: &str) {
        self.emit(&format!("unref {name}"));
        if let Some(h) = self.hs.iter_mut().find(|h| h.name == name && h.cnt > 0) {
            h.cnt -= 1;
        }
    }
    fn bits(&mut self) -> String {
        (0..self.n).map(|_| if self.rng.chance(1, 2) { '1' } else { '0' }).collect()
    }

    fn random_op(&mut self) {
        let zbdd = self.kind == "zbdd";
        let r = self.rng.below(100);
        if self.live().len() < 2 || r < 10 {
            self.leaf();
            return;
        }
        if self.rng.chance(1, 7) {
            self.degenerate_op();
            return;
        }
        let a = self.arg_name().unwrap();
        let b = self.arg_name().unwrap();
        let c = self.arg_name().unwrap();
        let h = self.fresh();
        match r {
            10..=14 => {
                self.emit(&format!("op {h} not {a}"));
                let t = self.tt_of(&a).map(|t| !t);
                self.def(&h, t);
            }
            15..=36 => {
                let op = *self.rng.pick(&BIN);
                self.emit(&format!("op {h} {op} {a} {b}"));
                let t = self.tt_of(&a).zip(self.tt_of(&b)).map(|(x, y)| bin_tt(op, x, y));
                self.def(&h, t);
            }
            37..=42 => {
                self.emit(&format!("op {h} ite {a} {b} {c}"));
                let t = self.tt_of(&a).zip(self.tt_of(&b)).zip(self.tt_of(&c)).map(|((x, y), z)| (x & y) | (!x & z));
                self.def(&h, t);
            }
            43..=47 if !zbdd => {
                let vs = self.cube(true, 2);
                let q = *self.rng.pick(&QUANTS);
                self.emit(&format!("quant {h} {q} {a} {vs}"));
                self.def(&h, None);
                if self.rng.chance(2, 3) {
                    self.unref(&vs);
                }
            }
            48..=50 if !zbdd => {
                let vs = self.cube(true, 2);
                let q = *self.rng.pick(&QUANTS);
                let op = *self.rng.pick(&BIN);
                self.emit(&format!("applyq {h} {q} {op} {a} {b} {vs}"));
                self.def(&h, None);
                self.unref(&vs);
            }
            51..=53 if !zbdd => {
                let cu = self.cube(false, 2);
                self.emit(&format!("restrict {h} {a} {cu}"));
                self.def(&h, None);
                self.unref(&cu);
            }
            54..=58 if !zbdd => {
                // substitution object: created, used, sometimes kept until the end of the case
                let sid = format!("s{}", self.next);
                let v1 = self.rng.below(self.n as u64);
                let mut line = format!("mksubst {sid} {v1}={b}");
                if self.rng.chance(1, 2) && self.n > 1 {
                    let v2 = (v1 + 1 + self.rng.below(self.n as u64 - 1)) % self.n as u64;
                    line.push_str(&format!(" {v2}={c}"));
                }
                self.emit(&line);
                self.emit(&format!("subst {h} {a} {sid}"));
                self.def(&h, None);
                if self.rng.chance(1, 4) {
                    // the object keeps its replacement functions alive without any handle
                    if self.tt_of(&b).is_some() || self.hs.iter().any(|x| x.name == b && x.cnt > 0) {
                        self.unref(&b);
                    }
                    self.emit("gc");
                }
                if self.rng.chance(2, 3) {
                    self.emit(&format!("dropsubst {sid}"));
                } else {
                    self.substs.push(sid);
                }
            }
            43..=47 if zbdd => {
                let v = self.rng.below(self.n as u64);
                let op = *self.rng.pick(&["subset0", "subset1", "change"]);
                self.emit(&format!("{op} {h} {a} {v}"));
                self.def(&h, None);
            }
            48..=53 if zbdd => {
                let op = *self.rng.pick(&["union", "intsec", "diff"]);
                self.emit(&format!("{op} {h} {a} {b}"));
                self.def(&h, None);
            }
            54..=56 if zbdd => {
                let v = self.rng.below(self.n as u64);
                if self.rng.chance(1, 2) {
                    self.emit(&format!("singleton {h} {v}"));
                } else {
                    let which = if self.rng.chance(1, 2) { "base" } else { "empty" };
                    self.emit(&format!("zconst {h} {which}"));
                }
                self.def(&h, None);
            }
            57..=58 if zbdd => self.mknode_block(&h),
            59..=63 => {
                // cofactors: prefer functions known not to be constant
                let full = self.full();
                let cands: Vec<String> = self.hs.iter().filter(|x| x.cnt > 0 && x.tt.map(|t| t != 0 && t != full).unwrap_or(false)).map(|x| x.name.clone()).collect();
                let f = if !cands.is_empty() && self.rng.chance(4, 5) { self.rng.pick(&cands).clone() } else { a.clone() };
                match self.rng.below(4) {
                    0 => {
                        self.emit(&format!("coft {h} {f}"));
                        self.def(&h, None);
                    }
                    1 => {
                        self.emit(&format!("cofe {h} {f}"));
                        self.def(&h, None);
                    }
                    _ => {
                        let h2 = self.fresh();
                        self.emit(&format!("cof {h} {h2} {f}"));
                        self.def(&h, None);
                        self.def(&h2, None);
                    }
                }
            }
            64..=66 => {
                self.emit(&format!("pick {h} {a}"));
                self.def(&h, None);
            }
            67..=68 => {
                let cu = self.cube(false, 3);
                self.emit(&format!("pickset {h} {a} {cu}"));
                self.def(&h, None);
                self.unref(&cu);
            }
            69..=78 => {
                let q = match self.rng.below(12) {
                    10 => format!("v2l {}", self.rng.below(self.n as u64)),
                    11 => format!("l2v {}", self.rng.below(self.n as u64)),
                    0 => format!("count {a}"),
                    1 => format!("sat {a}"),
                    2 => format!("valid {a}"),
                    3 => {
                        let vars = self.n + if zbdd { 0 } else { self.rng.below(3) as u32 };
                        if self.rng.below(2) == 0 {
                            // the same count before and after a second manager was used on this thread
                            self.emit(&format!("satcount {a} {vars}"));
                            self.emit(&format!("othermgr {vars}"));
                        }
                        format!("satcount {a} {vars}")
                    }
                    4 => format!("pickvec {a}"),
                    5 => format!("eval {a} {}", self.bits()),
                    6 => format!("level {a}"),
                    7 => format!("nvar {a}"),
                    8 => format!("show {a}"),
                    _ => format!("tt {a}"),
                };
                self.emit(&q);
            }
            79..=82 => {
                self.emit(&format!("ref {a}"));
                if let Some(x) = self.hs.iter_mut().find(|x| x.name == a && x.cnt > 0) {
                    x.cnt += 1;
                }
            }
            83..=89 => {
                if Some(&a) != self.invalid.as_ref() {
                    self.unref(&a);
                } else {
                    self.emit(&format!("unref {a}"));
                }
            }
            90..=92 => self.emit("gc"),
            93..=94 => match self.rng.below(3) {
                0 => {
                    self.emit("mref");
                    self.mrefs += 1;
                }
                1 if self.mrefs > 1 => {
                    self.emit("munref");
                    self.mrefs -= 1;
                }
                _ => {
                    self.emit(&format!("cmgr {a}"));
                    if Some(&a) != self.invalid.as_ref() {
                        self.mrefs += 1;
                    }
                }
            },
            95..=96 => {
                let v = self.rng.below(self.n as u64);
                let nm = *self.rng.pick(&NAMES);
                let l = match self.rng.below(6) {
                    0 => format!("setname {v} {nm}"),
                    1 => format!("setname {v} -"),
                    2 => format!("varname {v}{}", if self.rng.chance(1, 3) { " cb=1" } else { "" }),
                    3 => format!("name2var {nm}"),
                    4 => "numnamed".to_string(),
                    _ => "numvars".to_string(),
                };
                self.emit(&l);
            }
            97 if !zbdd && !self.tiny => {
                // (partial) reordering with live nodes
                let mut vs: Vec<u32> = (0..self.n).collect();
                self.rng.shuffle(&mut vs);
                let k = if self.rng.chance(1, 2) { self.n as usize } else { self.rng.range(2, self.n as u64) as usize };
                self.order_block(&vs[..k].to_vec());
                // level dependent predictions are still fine: truth tables do not change
            }
            98 => {
                let l = match self.rng.below(4) {
                    0 => format!("dddmp {a} {b}"),
                    1 => format!("dddmp {a} {b} {c} names=1 v=3"),
                    2 => format!("dot {a} {b}"),
                    _ => format!("import {a} {b}"),
                };
                let it = if self.rng.chance(1, 3) && !l.starts_with("import") { " iter=1" } else { "" };
                self.emit(&format!("{l}{it}"));
            }
            99 if self.n < 6 && !self.tiny && self.kind != "zbdd" => {
                if self.rng.chance(1, 2) {
                    self.emit("addvars 1");
                } else {
                    let nm = *self.rng.pick(&NAMES);
                    let it = if self.rng.chance(1, 2) { " iter=1" } else { "" };
                    self.emit(&format!("addnamed {nm}{it}"));
                    // a duplicate name adds nothing: ask the manager
                }
                // the number of variables may or may not have grown: stop predicting
                self.emit("numvars");
                for h in self.hs.iter_mut() {
                    h.tt = None;
                }
                self.n_unknown();
            }
            _ => {
                if self.rng.chance(1, 2) {
                    self.emit(&format!("pool {h} {a} {b}"));
                } else {
                    self.emit(&format!("op {h} and {a} {b}"));
                }
                let t = self.tt_of(&a).zip(self.tt_of(&b)).map(|(x, y)| x & y);
                self.def(&h, t);
            }
        }
    }
    /// `set_var_order(order)` followed by the complete variable ↔ level maps (a permutation that is
    /// not its own inverse distinguishes `var_to_level` from `level_to_var`), the node queries on
    /// every variable's function and the names
    fn order_block(&mut self, order: &[u32]) {
        let l: Vec<String> = order.iter().map(|v| v.to_string()).collect();
        if self.kind == "zbdd" {
            // ZBDD managers are only reordered without nodes (KF-zbdd-reorder)
            self.emit("gc");
        }
        self.emit(&format!("order {}", l.join(" ")));
        for v in 0..self.n {
            self.emit(&format!("v2l {v}"));
            self.emit(&format!("l2v {v}"));
        }
        if !self.tiny {
            for v in 0..self.n {
                if self.rng.chance(1, 2) {
                    let x = self.fresh();
                    self.emit(&format!("var {x} {v}"));
                    self.emit(&format!("level {x}"));
                    self.emit(&format!("nvar {x}"));
                    self.emit(&format!("unref {x}"));
                }
            }
        }
        let v = self.rng.below(self.n as u64);
        self.emit(&format!("varname {v}"));
        let nm = *self.rng.pick(&NAMES);
        self.emit(&format!("name2var {nm}"));
    }

    /// a random permutation of all variables, often a rotation (never an involution for n ≥ 3)
    fn permutation(&mut self) -> Vec<u32> {
        let n = self.n;
        if self.rng.chance(1, 3) {
            let k = self.rng.range(1, n as u64 - 1) as u32;
            (0..n).map(|i| (i + k) % n).collect()
        } else {
            let mut vs: Vec<u32> = (0..n).collect();
            self.rng.shuffle(&mut vs);
            vs
        }
    }

    fn constant(&mut self, val: bool) -> String {
        let h = self.fresh();
        self.emit(&format!("const {h} {}", if val { "T" } else { "F" }));
        let t = if val { self.full() } else { 0 };
        self.def(&h, Some(t));
        h
    }

    /// Degenerate arguments: the result is (a function equal to) one of the arguments or a
    /// constant, i.e. the shapes for which an implementation is tempted to hand back a reference it
    /// does not own. Every returned handle must be an owned reference of its own: the result is
    /// usually released and a collection run right away, after which the arguments must be
    /// untouched (`gc` walks all live handles and compares the number of stored nodes).
    fn degenerate_op(&mut self) {
        let zbdd = self.kind == "zbdd";
        let a = self.arg_name().unwrap();
        let b = self.arg_name().unwrap();
        let ta = self.tt_of(&a);
        let h = self.fresh();
        let full = self.full();
        let mut extra: Vec<String> = Vec::new();
        let mut tt: Option<u64> = None;
        let shape = self.rng.below(if zbdd { 22 } else { 24 });
        match shape {
            0 => {
                let t = self.constant(true);
                self.emit(&format!("op {h} and {a} {t}"));
                tt = ta;
                extra.push(t);
            }
            1 => {
                let f = self.constant(false);
                self.emit(&format!("op {h} or {f} {a}"));
                tt = ta;
                extra.push(f);
            }
            2 => {
                let op = *self.rng.pick(&["and", "or"]);
                self.emit(&format!("op {h} {op} {a} {a}"));
                tt = ta;
            }
            3 => {
                let op = *self.rng.pick(&["xor", "equiv", "imp", "imp_strict", "nand", "nor"]);
                self.emit(&format!("op {h} {op} {a} {a}"));
                tt = ta.map(|x| bin_tt(op, x, x));
            }
            4 => {
                let f = self.constant(false);
                self.emit(&format!("op {h} xor {a} {f}"));
                tt = ta;
                extra.push(f);
            }
            5 => {
                let t = self.constant(true);
                let op = *self.rng.pick(&["equiv", "imp"]);
                // a ↔ ⊤ = a, ⊤ → a = a
                self.emit(&format!("op {h} {op} {t} {a}"));
                tt = ta;
                extra.push(t);
            }
            6 => {
                self.emit(&format!("op {h} ite {a} {b} {b}"));
                tt = self.tt_of(&b);
            }
            7 => {
                let val = self.rng.chance(1, 2);
                let t = self.constant(val);
                self.emit(&format!("op {h} ite {t} {a} {b}"));
                extra.push(t);
            }
            8 => {
                let t = self.constant(true);
                let f = self.constant(false);
                self.emit(&format!("op {h} ite {a} {t} {f}"));
                tt = ta;
                extra.push(t);
                extra.push(f);
            }
            9 => {
                self.emit(&format!("op {h} ite {a} {a} {a}"));
                tt = ta;
            }
            10 => {
                let val = self.rng.chance(1, 2);
                let t = self.constant(val);
                self.emit(&format!("op {h} not {t}"));
                extra.push(t);
            }
            11 => {
                let val = self.rng.chance(1, 2);
                let t = self.constant(val);
                self.emit(&format!("pick {h} {t}"));
                self.emit(&format!("pickvec {t}"));
                extra.push(t);
            }
            12 => {
                // a cube picked from a cube is the cube itself
                let cu = self.cube(false, 3);
                self.emit(&format!("pick {h} {cu}"));
                extra.push(cu);
            }
            13 => {
                let t = self.constant(true);
                self.emit(&format!("pickset {h} {a} {t}"));
                extra.push(t);
            }
            14 => {
                let x = self.leaf();
                if self.rng.chance(1, 2) {
                    self.emit(&format!("coft {h} {x}"));
                } else {
                    self.emit(&format!("cofe {h} {x}"));
                }
                extra.push(x);
            }
            15 => {
                // two names for one node
                let v = self.rng.below(self.n as u64);
                let x = self.fresh();
                self.emit(&format!("var {x} {v}"));
                self.def(&x, None);
                self.emit(&format!("var {h} {v}"));
                extra.push(x);
            }
            16 if !zbdd => {
                // empty variable set
                let t = self.constant(true);
                let q = *self.rng.pick(&QUANTS);
                self.emit(&format!("quant {h} {q} {a} {t}"));
                extra.push(t);
            }
            17 if !zbdd => {
                let t = self.constant(true);
                let q = *self.rng.pick(&QUANTS);
                let op = *self.rng.pick(&["and", "or"]);
                self.emit(&format!("applyq {h} {q} {op} {a} {a} {t}"));
                tt = ta;
                extra.push(t);
            }
            18 if !zbdd => {
                // empty cube
                let t = self.constant(true);
                self.emit(&format!("restrict {h} {a} {t}"));
                tt = ta;
                extra.push(t);
            }
            19 if !zbdd => {
                // a substitution without pairs
                let sid = format!("s{}", self.next);
                self.emit(&format!("mksubst {sid}"));
                self.emit(&format!("subst {h} {a} {sid}"));
                tt = ta;
                if self.rng.chance(2, 3) {
                    self.emit(&format!("dropsubst {sid}"));
                } else {
                    self.substs.push(sid);
                }
            }
            20 if !zbdd => {
                // a variable replaced by itself
                let sid = format!("s{}", self.next);
                let v = self.rng.below(self.n as u64);
                let x = self.fresh();
                self.emit(&format!("var {x} {v}"));
                self.def(&x, None);
                self.emit(&format!("mksubst {sid} {v}={x}"));
                self.emit(&format!("subst {h} {a} {sid}"));
                tt = ta;
                self.emit(&format!("dropsubst {sid}"));
                extra.push(x);
            }
            21 if !zbdd => {
                // pairs for variables the function does not depend on
                let free: Vec<u32> = match ta {
                    // independent of v: the two cofactors coincide
                    Some(t) => (0..self.n.min(6)).filter(|&v| {
                        let m = self.var_tt(v);
                        ((t & m) >> (1u32 << v)) == (t & !m & full)
                    }).collect(),
                    None => Vec::new(),
                };
                let sid = format!("s{}", self.next);
                if let Some(&v) = free.first() {
                    self.emit(&format!("mksubst {sid} {v}={b}"));
                } else {
                    self.emit(&format!("mksubst {sid}"));
                }
                self.emit(&format!("subst {h} {a} {sid}"));
                self.emit(&format!("dropsubst {sid}"));
            }
            22 if !zbdd => {
                let val = self.rng.chance(1, 2);
                let t = self.constant(val);
                let cu = self.cube(true, 2);
                let q = *self.rng.pick(&QUANTS);
                // quantification of a constant
                self.emit(&format!("quant {h} {q} {t} {cu}"));
                extra.push(t);
                extra.push(cu);
            }
            23 if !zbdd => {
                let x = self.fresh();
                self.emit(&format!("op {x} not {a}"));
                self.def(&x, ta.map(|t| !t));
                // ¬¬a
                self.emit(&format!("op {h} not {x}"));
                tt = ta;
                extra.push(x);
            }
            16 | 17 if zbdd => {
                let e = self.fresh();
                self.emit(&format!("zconst {e} empty"));
                self.def(&e, None);
                let op = *self.rng.pick(&["union", "diff"]);
                // a ∪ ∅ = a ∖ ∅ = a
                self.emit(&format!("{op} {h} {a} {e}"));
                extra.push(e);
            }
            18 if zbdd => {
                let op = *self.rng.pick(&["union", "intsec", "diff"]);
                self.emit(&format!("{op} {h} {a} {a}"));
            }
            19 if zbdd => {
                let v = self.rng.below(self.n as u64);
                let x = self.fresh();
                // change twice is the identity
                self.emit(&format!("change {x} {a} {v}"));
                self.def(&x, None);
                self.emit(&format!("change {h} {x} {v}"));
                extra.push(x);
            }
            20 if zbdd => {
                // subset0 w.r.t. a variable that does not occur in the set
                let x = self.fresh();
                let v = self.rng.below(self.n as u64);
                let w = (v + 1) % self.n as u64;
                self.emit(&format!("singleton {x} {v}"));
                self.def(&x, None);
                self.emit(&format!("subset0 {h} {x} {w}"));
                extra.push(x);
            }
            _ => {
                // make_node with an empty `hi` is `lo`
                if self.n >= 2 {
                    let lv = self.rng.below(self.n as u64 - 1) as usize;
                    let (v, w) = (self.l2v[lv], self.l2v[lv + 1]);
                    let (sv, hi, lo) = (self.fresh(), self.fresh(), self.fresh());
                    self.emit(&format!("singleton {sv} {v}"));
                    self.emit(&format!("zconst {hi} empty"));
                    self.emit(&format!("singleton {lo} {w}"));
                    self.def(&sv, None);
                    self.def(&lo, None);
                    self.emit(&format!("ref {lo}"));
                    self.emit(&format!("mknode {h} {sv} {hi} {lo}"));
                    extra.push(sv);
                    extra.push(lo);
                } else {
                    self.emit(&format!("op {h} and {a} {a}"));
                    tt = ta;
                }
            }
        }
        self.def(&h, tt);
        // helper handles are released again
        for x in extra {
            if self.rng.chance(3, 4) {
                self.unref(&x);
            }
        }
        if self.rng.chance(2, 3) {
            // the result is given back; the arguments must survive the collection
            self.unref(&h);
            self.emit("gc");
            if Some(&a) != self.invalid.as_ref() && self.hs.iter().any(|x| x.name == a && x.cnt > 0) {
                self.emit(&format!("tt {a}"));
            }
        }
    }

    /// after `addnamed` the generator does not know the variable count: keep using the old one
    /// (a lower bound), which is always valid
    fn n_unknown(&mut self) {}

    /// `oxidd_zbdd_make_node`: `var` a singleton, `hi` and `lo` strictly below it; consumes `hi`, `lo`
    fn mknode_block(&mut self, h: &str) {
        if self.n < 2 {
            self.leaf();
            return;
        }
        let lv = self.rng.below(self.n as u64 - 1) as usize;
        let v = self.l2v[lv];
        let below: Vec<u32> = self.l2v[lv + 1..].to_vec();
        let sv = self.fresh();
        self.emit(&format!("singleton {sv} {v}"));
        self.def(&sv, None);
        let side = |g: &mut Self| -> String {
            let x = g.fresh();
            match g.rng.below(4) {
                0 => g.emit(&format!("zconst {x} base")),
                1 => g.emit(&format!("zconst {x} empty")),
                _ => {
                    let w = *g.rng.pick(&below);
                    g.emit(&format!("singleton {x} {w}"));
                }
            }
            g.def(&x, None);
            if g.rng.chance(1, 3) {
                let y = g.fresh();
                let w = *g.rng.pick(&below);
                g.emit(&format!("singleton {y} {w}"));
                g.def(&y, None);
                let z = g.fresh();
                g.emit(&format!("union {z} {x} {y}"));
                g.def(&z, None);
                g.unref(&x);
                g.unref(&y);
                return z;
            }
            x
        };
        let hi = side(self);
        let lo = side(self);
        if self.rng.chance(1, 3) {
            // keep a reference of our own: the node stays owned after being consumed once
            self.emit(&format!("ref {hi}"));
            self.hs.iter_mut().find(|x| x.name == hi).unwrap().cnt += 1;
        }
        self.emit(&format!("mknode {h} {sv} {hi} {lo}"));
        self.def(h, None);
        for x in [&hi, &lo] {
            if let Some(e) = self.hs.iter_mut().find(|e| &e.name == x && e.cnt > 0) {
                e.cnt -= 1;
            }
        }
        if self.rng.chance(1, 2) {
            self.unref(&sv);
        }
    }
}

fn random_case(rng: &mut Rng, w: &mut dyn Write, name: &str, kind: &'static str, n: u32, len: usize, cap: Option<usize>) {
    writeln!(w, "case {name}").unwrap();
    match cap {
        Some(c) => writeln!(w, "mgr {kind} vars={n} cap={c}").unwrap(),
        None => writeln!(w, "mgr {kind} vars={n}").unwrap(),
    }
    let mut g = Gen { rng, w, kind, n, hs: Vec::new(), next: 0, l2v: (0..n).collect(), substs: Vec::new(), invalid: None, mrefs: 1, tiny: cap.is_some() };
    if cap.is_none() && g.rng.chance(1, 2) {
        // one or two variable orders established on the empty manager (all kinds; the second one
        // starts from a non-identity order)
        let k = if g.rng.chance(1, 3) { 2 } else { 1 };
        for _ in 0..k {
            let vs = g.permutation();
            g.order_block(&vs);
            g.l2v = vs;
        }
    }
    if g.rng.chance(1, 4) {
        let k = g.rng.range(1, n as u64) as usize;
        let mut names: Vec<&str> = NAMES.to_vec();
        g.rng.shuffle(&mut names);
        for v in 0..k {
            if g.rng.chance(3, 4) {
                let l = format!("setname {v} {}", names[v]);
                g.emit(&l);
            }
        }
    }
    if g.rng.chance(1, 3) {
        g.emit("invalid z");
        g.invalid = Some("z".into());
    }
    for _ in 0..len {
        g.random_op();
    }
    if g.rng.chance(1, 2) {
        g.emit("gc");
    }
    g.emit("end");
}

fn enumerated(w: &mut dyn Write, kind: &'static str) {
    let z = kind == "zbdd";
    let mut p = |s: &str| writeln!(w, "{}", s).unwrap();
    // every function once on three variables
    p(&format!("case enum-ops-{kind}"));
    p(&format!("mgr {kind} vars=3"));
    for l in ["var a 0", "var b 1", "var c 2", "const t T", "const f F", "notvar nb 1", "show a", "show nb", "tt nb"] {
        p(l);
    }
    for (i, op) in BIN.iter().enumerate() {
        p(&format!("op r{i} {op} a b"));
        p(&format!("tt r{i}"));
        p(&format!("count r{i}"));
    }
    for l in [
        "op n not a", "op i ite a b c", "tt i", "count i", "sat i", "valid i", "sat f", "valid t", "satcount i 3", "satcount i 5", "satcount t 3", "pickvec i", "pickvec f", "pickvec t",
        "pick p i", "pick pf f", "eval i 101", "eval i 010", "level i", "nvar i", "level t", "nvar t", "cof c1 c2 i", "coft ct i", "cofe ce i", "cof d1 d2 t", "coft dt t", "cofe de f",
        "op x1 and d1 a", "level d1", "ref i", "ref i", "gc", "unref i", "gc", "unref i", "gc", "unref i", "gc", "cmgr a", "mref", "munref", "munref",
        "dddmp a b r2", "dddmp a r2 names=1 v=3", "dot a r2", "import a r2 r5", "dddmp a b r2 iter=1", "dddmp a r2 names=1 iter=1", "dot a r2 iter=1", "pool pl a b", "tt pl",
    ] {
        p(l);
    }
    if !z {
        for l in [
            "op vs and a b", "quant q0 forall r2 a", "quant q1 exists r2 vs", "quant q2 unique r2 b", "applyq q3 exists and r2 c a", "applyq q4 forall or r2 c vs", "applyq q5 unique xor r2 c b",
            "op cu and a nb", "restrict rs i cu", "pickset ps i cu", "mksubst s0 0=r2 2=nb", "subst sb i s0", "tt sb", "unref r2", "gc", "subst sb2 c s0", "dropsubst s0", "gc",
            "mksubst s1 1=c", "subst sb3 i s1", "subst sn i NULL",
        ] {
            p(l);
        }
    } else {
        for l in [
            "singleton sa 0", "singleton sb 1", "singleton sc 2", "zconst e empty", "zconst ba base", "show sa", "union u0 sa sb", "intsec u1 u0 sa", "diff u2 u0 sa", "subset0 u3 u0 0", "subset1 u4 u0 0",
            "change u5 u0 2", "tt u5", "count u5", "op cu and a nb", "pickset ps i cu", "ref sc", "mknode mk sa sb sc", "show mk", "ref ba", "mknode mk2 sb ba ba", "show mk2", "gc",
        ] {
            p(l);
        }
    }
    p("gc");
    p("end");

    // invalid handles in every argument position
    p(&format!("case enum-invalid-{kind}"));
    p(&format!("mgr {kind} vars=3"));
    for l in [
        "var a 0", "var b 1", "op g xor a b", "invalid z", "show z", "op i0 not z", "op i1 and z a", "op i2 or a z", "op i3 xor z z", "op i4 ite z a b", "op i5 ite a z b", "op i6 ite a b z", "op i7 imp_strict g z",
        "pick i8 z", "pickset i9 z a", "pickset i10 a z", "cof j1 j2 z", "coft j3 z", "cofe j4 z", "level z", "nvar z", "ref z", "unref z", "count z", "dddmp a z", "dddmp z", "dot a z g", "dddmp a z iter=1", "dddmp z a names=1 iter=1", "dot z a iter=1", "pool p1 z a", "pool p2 a z",
        "op k0 and i0 a", "op k1 not k0", "unref k1", "gc",
    ] {
        p(l);
    }
    if !z {
        for l in [
            "quant i11 forall z a", "quant i12 exists g z", "applyq i13 exists and z a b", "applyq i14 forall or a z b", "applyq i15 unique xor a b z", "restrict i16 z a", "restrict i17 g z",
            "mksubst s0 0=g", "subst i18 z s0", "subst i19 g NULL", "mksubst s1 1=z",
        ] {
            p(l);
        }
    } else {
        for l in ["subset0 i11 z 0", "subset1 i12 z 1", "change i13 z 2", "union i14 z a", "union i15 a z", "intsec i16 z g", "diff i17 g z"] {
            p(l);
        }
    }
    p("gc");
    p("end");

    // reference counting: k refs, k unrefs, collection in between
    p(&format!("case enum-refcount-{kind}"));
    p(&format!("mgr {kind} vars=4"));
    for l in [
        "var a 0", "var b 1", "var c 2", "var d 3", "op x and a b", "op y or c d", "op f xor x y", "unref x", "unref y", "gc", "ref f", "ref f", "ref f", "gc", "unref f", "unref f", "gc", "tt f", "unref f", "gc", "tt f",
        "unref f", "gc", "op g and a b", "cof g1 g2 g", "unref g", "gc", "show g1", "show g2", "unref g1", "unref g2", "gc", "unref a", "unref b", "unref c", "unref d", "gc",
    ] {
        p(l);
    }
    p("end");

    // manager references
    p(&format!("case enum-mgr-{kind}"));
    p(&format!("mgr {kind} vars=2"));
    for l in ["var a 0", "mref", "mref", "cmgr a", "munref", "unref a", "gc", "munref", "var b 1", "cmgr b", "munref", "munref", "show b"] {
        p(l);
    }
    p("end");

    // variables and names
    p(&format!("case enum-names-{kind}"));
    p(&format!("mgr {kind} vars=2"));
    for l in [
        "numvars", "numnamed", "varname 0", "setname 0 x", "setname 1 x", "setname 1 y", "setname 0 x", "numnamed", "varname 0", "varname 1", "name2var x", "name2var y", "name2var nope", "name2var -",
        "addnamed p - q", "numvars", "numnamed", "addnamed r x s", "numvars", "numnamed", "varname 5", "varname 5 cb=1", "varname 3 cb=1", "addnamed u - x w iter=1", "numvars", "addnamed - - iter=1", "numvars", "setname 0 -", "name2var x", "numnamed", "setname 0 y", "setname 1 x", "name2var y", "addvars 1",
        "numvars", "v2l 3", "l2v 3", "var a 5", "show a", "setname 0 renamed", "name2var x", "name2var renamed", "numnamed",
    ] {
        p(l);
    }
    p("end");

    if z {
        // make_node takes ownership of hi and lo — also when it fails
        for (nm, lines) in [
            ("var", vec!["singleton s1 1", "singleton s2 2", "invalid z", "mknode r z s1 s2"]),
            ("hi", vec!["singleton s0 0", "singleton s2 2", "invalid z", "mknode r s0 z s2"]),
            ("lo", vec!["singleton s0 0", "singleton s2 2", "invalid z", "mknode r s0 s2 z"]),
        ] {
            p(&format!("case enum-mknode-invalid-{nm}-{kind}"));
            p(&format!("mgr {kind} vars=3"));
            for l in lines {
                p(l);
            }
            p("gc");
            p("end");
        }
    }

    // degenerate arguments of every entry-point class: every result is released right away and a
    // collection is run; the arguments must survive, the node balance must hold
    p(&format!("case enum-degenerate-{kind}"));
    p(&format!("mgr {kind} vars=3"));
    for l in ["var a 0", "var b 1", "var c 2", "op g ite a b c", "const t T", "const f F", "gc"] {
        p(l);
    }
    let mut k = 0;
    let mut probe = |lines: &[&str], res: &str| {
        for l in lines {
            p(l);
        }
        k += 1;
        p(&format!("tt {res}"));
        p(&format!("unref {res}"));
        p("gc");
        p("tt g");
        if k % 4 == 0 {
            p("tt a");
            p("tt t");
        }
    };
    for (lines, res) in [
        (vec!["op d1 and g t"], "d1"),
        (vec!["op d2 and t g"], "d2"),
        (vec!["op d3 or g f"], "d3"),
        (vec!["op d4 and g g"], "d4"),
        (vec!["op d5 or g g"], "d5"),
        (vec!["op d6 xor g f"], "d6"),
        (vec!["op d7 xor g g"], "d7"),
        (vec!["op d8 equiv g t"], "d8"),
        (vec!["op d9 equiv g g"], "d9"),
        (vec!["op d10 imp t g"], "d10"),
        (vec!["op d11 imp_strict f g"], "d11"),
        (vec!["op d12 nand g g"], "d12"),
        (vec!["op d13 nor g f"], "d13"),
        (vec!["op d14 ite g b b"], "d14"),
        (vec!["op d15 ite t g a"], "d15"),
        (vec!["op d16 ite f a g"], "d16"),
        (vec!["op d17 ite g t f"], "d17"),
        (vec!["op d18 ite g g g"], "d18"),
        (vec!["op d19 ite g g f"], "d19"),
        (vec!["op d20 not t"], "d20"),
        (vec!["op d21 not g", "op d22 not d21", "unref d21"], "d22"),
        (vec!["pick d23 t", "pickvec t"], "d23"),
        (vec!["pick d24 f", "pickvec f"], "d24"),
        (vec!["pick d25 a"], "d25"),
        (vec!["pickset d26 g t"], "d26"),
        (vec!["pickset d27 a a"], "d27"),
        (vec!["pickset d28 t a"], "d28"),
        (vec!["coft d29 a"], "d29"),
        (vec!["cofe d30 a"], "d30"),
        (vec!["cof d31 d32 g", "unref d32"], "d31"),
        (vec!["var d33 0"], "d33"),
        (vec!["const d34 T"], "d34"),
        (vec!["pool d35 g t"], "d35"),
        (vec!["pool d36 g g"], "d36"),
        (vec!["ref g", "unref g", "op d37 and g g"], "d37"),
    ] {
        probe(&lines, res);
    }
    if !z {
        for (lines, res) in [
            (vec!["quant e1 forall g t"], "e1"),
            (vec!["quant e2 exists g t"], "e2"),
            (vec!["quant e3 unique g t"], "e3"),
            (vec!["quant e4 exists t a"], "e4"),
            (vec!["quant e5 forall f a"], "e5"),
            (vec!["quant e6 exists b a"], "e6"),
            (vec!["applyq e7 exists and g g t"], "e7"),
            (vec!["applyq e8 forall or g f t"], "e8"),
            (vec!["applyq e9 unique and g t t"], "e9"),
            (vec!["restrict e10 g t"], "e10"),
            (vec!["restrict e11 b a"], "e11"),
            (vec!["restrict e12 t a"], "e12"),
            (vec!["mksubst z0", "subst e13 g z0"], "e13"),
            (vec!["subst e14 t z0"], "e14"),
            (vec!["subst e15 a z0", "dropsubst z0"], "e15"),
            (vec!["mksubst z1 0=a", "subst e16 g z1", "dropsubst z1"], "e16"),
            (vec!["mksubst z2 2=a", "subst e17 b z2"], "e17"),
            (vec!["subst e18 t z2", "dropsubst z2"], "e18"),
            (vec!["mksubst z3 0=a 1=b 2=c", "subst e19 g z3", "dropsubst z3"], "e19"),
            (vec!["mksubst z4 0=g", "subst e20 a z4", "dropsubst z4"], "e20"),
        ] {
            probe(&lines, res);
        }
    } else {
        for (lines, res) in [
            (vec!["zconst em empty", "zconst ba base", "singleton sa 0", "singleton sb 1", "singleton sc 2", "union u g sa", "union e1 u em"], "e1"),
            (vec!["union e2 em u"], "e2"),
            (vec!["union e3 u u"], "e3"),
            (vec!["intsec e4 u u"], "e4"),
            (vec!["intsec e5 u em"], "e5"),
            (vec!["diff e6 u em"], "e6"),
            (vec!["diff e7 u u"], "e7"),
            (vec!["subset0 e8 sa 1"], "e8"),
            (vec!["subset1 e9 sa 1"], "e9"),
            (vec!["subset1 e10 sa 0"], "e10"),
            (vec!["change e11 u 2", "change e12 e11 2", "unref e11"], "e12"),
            (vec!["change e13 em 0"], "e13"),
            (vec!["change e14 ba 0"], "e14"),
            (vec!["ref sc", "zconst h0 empty", "mknode e15 sb h0 sc"], "e15"),
            (vec!["ref sc", "ref sc", "mknode e16 sb sc sc"], "e16"),
            (vec!["singleton e17 0"], "e17"),
            (vec!["zconst e18 base"], "e18"),
            (vec!["tt u", "tt sa", "tt sc", "op e19 and u u"], "e19"),
        ] {
            probe(&lines, res);
        }
    }
    p("gc");
    p("end");

    // variable orders that are not their own inverse: the complete variable <-> level maps, the
    // node queries on every variable and the names after every reordering (ZBDD: no nodes while
    // reordering, KF-zbdd-reorder)
    for (n, orders) in [
        (3u32, vec!["1 2 0", "1 2 0", "2 1", "0 2 1"]),
        (4, vec!["1 2 0 3", "3 0 1 2", "2 0", "3 1 0", "1 3 2 0"]),
        (5, vec!["1 2 3 4 0", "4 2 0", "2 3 1 0 4", "3 4 0 1 2"]),
        (6, vec!["5 0 1 2 3 4", "2 0 1 5 3 4", "4 1", "1 3 5 0 2 4"]),
    ] {
        p(&format!("case enum-order-{kind}-{n}"));
        p(&format!("mgr {kind} vars={n}"));
        p("setname 0 x");
        p(&format!("setname {} last", n - 1));
        if !z {
            // live nodes depending on all variables
            for v in 0..n {
                p(&format!("var w{v} {v}"));
            }
            p("op f0 ite w0 w1 w2");
            for v in 3..n {
                p(&format!("op f{} xor f{} w{v}", v - 2, v - 3));
            }
            p(&format!("tt f{}", n.max(3) - 3));
        }
        for (i, o) in orders.iter().enumerate() {
            if z {
                p("gc");
            }
            p(&format!("order {o}"));
            for v in 0..n {
                p(&format!("v2l {v}"));
                p(&format!("l2v {v}"));
            }
            for v in 0..n {
                if z {
                    p(&format!("var x{i}_{v} {v}"));
                    p(&format!("level x{i}_{v}"));
                    p(&format!("nvar x{i}_{v}"));
                    p(&format!("singleton y{i}_{v} {v}"));
                    p(&format!("level y{i}_{v}"));
                    p(&format!("nvar y{i}_{v}"));
                    p(&format!("unref x{i}_{v}"));
                    p(&format!("unref y{i}_{v}"));
                } else {
                    p(&format!("level w{v}"));
                    p(&format!("nvar w{v}"));
                    p(&format!("notvar x{i}_{v} {v}"));
                    p(&format!("level x{i}_{v}"));
                    p(&format!("nvar x{i}_{v}"));
                    p(&format!("unref x{i}_{v}"));
                }
                p(&format!("varname {v}"));
            }
            p("name2var x");
            p("name2var last");
            if !z {
                p(&format!("tt f{}", n.max(3) - 3));
                p(&format!("level f{}", n.max(3) - 3));
                p(&format!("nvar f{}", n.max(3) - 3));
                p(&format!("show f{}", n.max(3) - 3));
            }
        }
        p("gc");
        p("end");
    }

    // `inner_node_capacity = 0`: a manager that can only hold the terminals (if the documentation
    // of `oxidd_<kind>_manager_new` promises "no limit" for 0, an INVALID result is a failure).
    // ZBDD managers abort in `add_vars` without room for one node per variable: known finding
    // KF-zbdd-addvars-oom, dedicated case below.
    if !z {
        p(&format!("case enum-cap0-{kind}"));
        p(&format!("mgr {kind} vars=2 cap=0"));
        for l in ["const t T", "const f F", "var a 0", "var b 1", "op g and a b", "op n not t", "op x xor t f", "show g", "show x", "count t", "gc"] {
            p(l);
        }
        p("end");
    }
}

/// does the doc comment of `oxidd_<kind>_manager_new` promise that capacity 0 means "no limit"?
fn cap0_documented_unlimited(kind: &str) -> bool {
    let src = std::fs::read_to_string(format!("{}/crates/oxidd-ffi-c/src/{kind}.rs", repo_dir())).unwrap_or_default();
    let Some(end) = src.find(&format!("fn oxidd_{kind}_manager_new(")) else { return false };
    let start = src[..end].rfind("\n\n").unwrap_or(0);
    let doc: Vec<&str> = src[start..end].lines().filter_map(|l| l.trim().strip_prefix("///")).flat_map(|l| l.split_whitespace()).collect();
    doc.join(" ").contains("`0` means no limit")
}

fn generate(cfg: &GenCfg, rng: &mut Rng, w: &mut dyn Write) {
    let suite = cfg.extra.get("suite").map(|s| s.as_str()).unwrap_or("main");
    let kinds: [&'static str; 3] = ["bdd", "bcdd", "zbdd"];
    let scale = cfg.scale.max(1) as usize;
    if suite == "main" {
        for k in kinds {
            enumerated(w, k);
        }
        if cfg.extra.get("kf").map(|v| v == "1").unwrap_or(false) {
            // known finding KF-zbdd-addvars-oom reached through the C API: `add_vars` aborts the
            // process when the tautology chain does not fit (reported with signature `crash`)
            writeln!(w, "case kf-zbdd-addvars-oom-capi").unwrap();
            writeln!(w, "mgr zbdd vars=3 cap=2").unwrap();
            writeln!(w, "zconst e empty").unwrap();
            writeln!(w, "end").unwrap();
        }
        let cases = if cfg.thorough { 12000 * scale } else { 600 * scale };
        for i in 0..cases {
            let kind = kinds[i % 3];
            let n = rng.range(3, 6) as u32;
            let len = rng.range(8, if cfg.thorough { 60 } else { 35 }) as usize;
            random_case(rng, w, &format!("rnd-{kind}-{i}"), kind, n, len, None);
        }
    } else if suite == "race" {
        // queries on several threads while another one reorders (oracle only)
        let cases = if cfg.thorough { 240 * scale } else { 30 * scale };
        for i in 0..cases {
            let kind = kinds[i % 3];
            let n = rng.range(3, 6) as u32;
            writeln!(w, "case race-{kind}-{i}").unwrap();
            writeln!(w, "mgr {kind} vars={n}").unwrap();
            let mut pool: Vec<String> = Vec::new();
            for v in 0..n {
                writeln!(w, "var x{v} {v}").unwrap();
                pool.push(format!("x{v}"));
            }
            writeln!(w, "const cT T").unwrap();
            pool.push("cT".into());
            for j in 0..rng.range(4, 12) {
                let (a, b) = (rng.pick(&pool).clone(), rng.pick(&pool).clone());
                let op = *rng.pick(&["and", "or", "xor", "imp", "nand", "equiv"]);
                writeln!(w, "op g{j} {op} {a} {b}").unwrap();
                pool.push(format!("g{j}"));
            }
            if kind != "zbdd" && rng.chance(1, 2) {
                let mut order: Vec<u32> = (0..n).collect();
                rng.shuffle(&mut order);
                let l: Vec<String> = order.iter().map(|v| v.to_string()).collect();
                writeln!(w, "order {}", l.join(" ")).unwrap();
            }
            let threads = rng.range(1, 6);
            let rounds = if cfg.thorough { 4000 } else { 1500 };
            writeln!(w, "qrace {threads} {rounds}").unwrap();
            writeln!(w, "gc").unwrap();
            for h in &pool {
                writeln!(w, "tt {h}").unwrap();
                writeln!(w, "unref {h}").unwrap();
            }
            writeln!(w, "gc").unwrap();
            writeln!(w, "end").unwrap();
        }
    } else if suite == "oom" {
        let cases = if cfg.thorough { 6000 * scale } else { 300 * scale };
        for i in 0..cases {
            let kind = kinds[i % 3];
            let n = rng.range(3, 5) as u32;
            let cap = n as usize + rng.range(1, 14) as usize;
            let len = rng.range(10, 40) as usize;
            random_case(rng, w, &format!("oom-{kind}-{i}"), kind, n, len, Some(cap));
        }
    }
}

fn main() {
    let args: Vec<String> = std::env::args().collect();
    if args.get(1).map(|s| s.as_str()) == Some("child") {
        let mut flags = BTreeMap::new();
        let mut i = 2;
        while i + 1 < args.len() {
            if let Some(k) = args[i].strip_prefix("--") {
                flags.insert(k.to_string(), args[i + 1].clone());
            }
            i += 2;
        }
        child_main(&flags);
        return;
    }
    harness_main(generate, make)
}
