//! C20 (arcslab): drives the real `arcslab` crate (slab with atomically reference counted items).
//!
//! One slab per case (plus a decoy slab of the same type that must never be affected). The
//! canonical output exposes, for every `add`, the ordinal of the slot address, the ordinal of the
//! page and the offset inside the page, so that the free-list discipline (LIFO reuse, pages of K
//! slots) is observable. Oracles: `slot-reuse`, `num-items`, `dead-flag`, `item-drop`, `lifo`,
//! `page-cap`, `ext-slab`, `decoy`, and `mt-*` for the multi-threaded phase.
//!
//! Every output line is predicted by the Lean protocol `arcslab`
//! (`OxiddModel.ArcSlab.proto` in `/verif/lean/OxiddModel/ArcSlab/Driver.lean`, built on
//! `OxiddModel.ArcSlab.Model`); the `mt` phase (threads behind a barrier on a separate slab) is
//! oracle-only, the model answers `mt ok`.
//!
//! Order of the legality checks: unparseable line / anything before `cfg` / second `cfg` ->
//! `bad-op` (also after the slab died); otherwise slab dead -> `refused`; otherwise the
//! per-operation preconditions -> `refused`.
use arcslab::{ArcItem, ArcSlab, ArcSlabRef, AtomicRefCounted, ExtHandle, IntHandle};
use oxv::*;
use std::collections::{BTreeMap, HashMap, HashSet};
use std::io::Write;
use std::ptr::NonNull;
use std::sync::atomic::Ordering::SeqCst;
use std::sync::atomic::{AtomicBool, AtomicUsize};
use std::sync::{Arc, Barrier};

#[allow(dead_code)]
struct Pay<const N: usize> {
    id: u64,
    drops: Arc<AtomicUsize>,
    pad: [u64; N],
}
impl<const N: usize> Drop for Pay<N> {
    fn drop(&mut self) {
        self.drops.fetch_add(1, SeqCst);
    }
}
struct DeadFlag(Arc<AtomicBool>);
impl Drop for DeadFlag {
    fn drop(&mut self) {
        self.0.store(true, SeqCst);
    }
}

type It<const N: usize> = ArcItem<Pay<N>>;
type Slab<const N: usize, const P: usize> = ArcSlab<It<N>, DeadFlag, P>;
type SRef<const N: usize, const P: usize> = ArcSlabRef<It<N>, DeadFlag, P>;
type Ext<const N: usize, const P: usize> = ExtHandle<It<N>, DeadFlag, P>;
type Int<'a, const N: usize, const P: usize> = IntHandle<'a, It<N>, DeadFlag, P>;

const PAGE_HDR: usize = 16;

#[derive(Clone, Copy, PartialEq, Debug)]
enum Kind {
    Drop,
    DropWith,
    Into,
}

#[derive(Clone, Debug)]
enum Op {
    Cfg(usize),
    RefP,
    RefM,
    Add,
    Num,
    IClone(usize),
    IDrop(usize, Kind),
    IForce(usize),
    ToExt(usize),
    EClone(usize),
    EDrop(usize, Kind),
    Mt(usize, usize, u64),
}

fn num(s: &str) -> Option<u64> {
    if s.is_empty() || s.len() > 12 || !s.bytes().all(|b| b.is_ascii_digit()) {
        return None;
    }
    s.parse().ok()
}

fn parse(line: &str) -> Option<Op> {
    let w: Vec<&str> = line.split(' ').collect();
    let a1 = |w: &[&str]| if w.len() == 2 { num(w[1]).map(|x| x as usize) } else { None };
    Some(match w[0] {
        "cfg" => {
            let c = a1(&w)?;
            if c > 5 {
                return None;
            }
            Op::Cfg(c)
        }
        "ref+" if w.len() == 1 => Op::RefP,
        "ref-" if w.len() == 1 => Op::RefM,
        "add" if w.len() == 1 => Op::Add,
        "num" if w.len() == 1 => Op::Num,
        "iclone" => Op::IClone(a1(&w)?),
        "idrop" => Op::IDrop(a1(&w)?, Kind::Drop),
        "idropw" => Op::IDrop(a1(&w)?, Kind::DropWith),
        "iinto" => Op::IDrop(a1(&w)?, Kind::Into),
        "iforce" => Op::IForce(a1(&w)?),
        "toext" => Op::ToExt(a1(&w)?),
        "eclone" => Op::EClone(a1(&w)?),
        "edrop" => Op::EDrop(a1(&w)?, Kind::Drop),
        "edropw" => Op::EDrop(a1(&w)?, Kind::DropWith),
        "einto" => Op::EDrop(a1(&w)?, Kind::Into),
        "mt" => {
            if w.len() != 4 {
                return None;
            }
            let (t, r, s) = (num(w[1])? as usize, num(w[2])? as usize, num(w[3])?);
            if t == 0 || t > 16 || r > 100_000 {
                return None;
            }
            Op::Mt(t, r, s)
        }
        _ => return None,
    })
}

trait Dyn {
    fn op(&mut self, op: &Op, ctx: &mut Ctx) -> String;
}

struct ItemSt<const N: usize, const P: usize> {
    raw: NonNull<It<N>>,
    addr: usize,
    n_int: usize,
    ext: Vec<Ext<N, P>>,
    gone: bool,
    drops: Arc<AtomicUsize>,
}

struct St<const N: usize, const P: usize> {
    c: usize,
    refs: Vec<SRef<N, P>>,
    slab_ptr: *const Slab<N, P>,
    flag: Arc<AtomicBool>,
    dead: bool,
    items: Vec<ItemSt<N, P>>,
    addr_ord: HashMap<usize, usize>,
    page_ord: HashMap<usize, usize>,
    free_stack: Vec<usize>,
    decoy_ref: Option<SRef<N, P>>,
    decoy_ptr: *const Slab<N, P>,
    decoy_ext: Vec<Ext<N, P>>,
    decoy_flag: Arc<AtomicBool>,
    decoy_drops: Arc<AtomicUsize>,
}

impl<const N: usize, const P: usize> St<N, P> {
    fn k() -> usize {
        (P - PAGE_HDR) / std::mem::size_of::<It<N>>()
    }
    fn slot_size() -> usize {
        std::mem::size_of::<It<N>>()
    }
    fn new(c: usize) -> Self {
        let flag = Arc::new(AtomicBool::new(false));
        let r: SRef<N, P> = ArcSlab::new(DeadFlag(flag.clone()));
        let slab_ptr: *const Slab<N, P> = &*r;
        let decoy_flag = Arc::new(AtomicBool::new(false));
        let dr: SRef<N, P> = ArcSlab::new(DeadFlag(decoy_flag.clone()));
        let decoy_ptr: *const Slab<N, P> = &*dr;
        let decoy_drops = Arc::new(AtomicUsize::new(0));
        let mut decoy_ext = Vec::new();
        for i in 0..2u64 {
            let h = dr.add_item(ArcItem::new(Pay { id: 1_000_000 + i, drops: decoy_drops.clone(), pad: [0x5A; N] }));
            decoy_ext.push(ExtHandle::from(h));
        }
        St {
            c,
            refs: vec![r],
            slab_ptr,
            flag,
            dead: false,
            items: Vec::new(),
            addr_ord: HashMap::new(),
            page_ord: HashMap::new(),
            free_stack: Vec::new(),
            decoy_ref: Some(dr),
            decoy_ptr,
            decoy_ext,
            decoy_flag,
            decoy_drops,
        }
    }
    fn tot_int(&self) -> usize {
        self.items.iter().filter(|i| !i.gone).map(|i| i.n_int).sum()
    }
    fn tot_ext(&self) -> usize {
        self.items.iter().map(|i| i.ext.len()).sum()
    }
    /// only while the slab is alive
    fn slab(&self) -> &Slab<N, P> {
        unsafe { &*self.slab_ptr }
    }
    fn mark_freed(&mut self, n: usize, ctx: &mut Ctx) {
        let it = &mut self.items[n];
        it.gone = true;
        let a = it.addr;
        self.free_stack.push(a);
        ctx.count("freed");
    }
    /// oracles after every operation; updates `dead`
    fn post(&mut self, ctx: &mut Ctx, touched: Option<usize>) {
        // decoy
        let dn = unsafe { &*self.decoy_ptr }.num_items();
        if dn != 2 {
            ctx.fail("decoy", &format!("decoy slab has {} items, expected 2", dn));
        }
        if self.decoy_flag.load(SeqCst) {
            ctx.fail("decoy", "decoy slab was dropped");
        }
        if self.decoy_drops.load(SeqCst) != 0 {
            ctx.fail("decoy", "an item of the decoy slab was dropped");
        }
        for d in &self.decoy_ext {
            if !std::ptr::eq(ExtHandle::slab(d), self.decoy_ptr) {
                ctx.fail("decoy", "ExtHandle::slab of a decoy handle is not the decoy slab");
            }
        }
        let flag = self.flag.load(SeqCst);
        let expect_dead = self.refs.is_empty() && self.tot_ext() == 0;
        if flag != expect_dead {
            ctx.fail(
                "dead-flag",
                &format!("slab dropped = {}, but {} ArcSlabRefs and {} ExtHandles are alive", flag, self.refs.len(), self.tot_ext()),
            );
        }
        let was_dead = self.dead;
        self.dead = flag || expect_dead;
        if self.dead && !was_dead {
            ctx.count("dead");
        }
        if !self.dead {
            for (n, it) in self.items.iter().enumerate() {
                for e in &it.ext {
                    if !std::ptr::eq(ExtHandle::slab(e), self.slab_ptr) {
                        ctx.fail("ext-slab", &format!("ExtHandle::slab of a handle of item {} is not the slab of the case", n));
                    }
                }
            }
            let k = self.slab().num_items();
            let live = self.items.iter().filter(|i| !i.gone).count();
            if k != live {
                ctx.fail("num-items", &format!("num_items() = {}, live items = {}", k, live));
            }
        }
        if let Some(n) = touched {
            let it = &self.items[n];
            let d = it.drops.load(SeqCst);
            if d != it.gone as usize {
                ctx.fail("item-drop", &format!("item {}: payload dropped {} times, freed = {}", n, d, it.gone));
            }
        }
    }
    fn tail(&self) -> String {
        if self.dead {
            format!("dead {} items -", self.flag.load(SeqCst) as u8)
        } else {
            format!("dead {} items {}", self.flag.load(SeqCst) as u8, self.slab().num_items())
        }
    }
    fn check_freed(&self, n: usize, freed: bool, ctx: &mut Ctx) {
        let it = &self.items[n];
        let last = it.n_int + it.ext.len() == 0;
        if freed != last {
            ctx.fail("item-drop", &format!("item {}: freed = {} but {} handles remain", n, freed, it.n_int + it.ext.len()));
        }
    }

    // ---- multi-threaded oracle phase on a fresh slab
    fn mt(threads: usize, rounds: usize, seed: u64, ctx: &mut Ctx) {
        let flag = Arc::new(AtomicBool::new(false));
        let main_ref: SRef<N, P> = ArcSlab::new(DeadFlag(flag.clone()));
        let total_drops = Arc::new(AtomicUsize::new(0));
        let barrier = Arc::new(Barrier::new(threads));
        let mut joins = Vec::new();
        for t in 0..threads {
            let r = main_ref.clone();
            let b = barrier.clone();
            let td = total_drops.clone();
            joins.push(std::thread::spawn(move || worker::<N, P>(r, b, td, t, rounds, seed.wrapping_add(t as u64))));
        }
        let mut outs = Vec::new();
        let mut panicked = false;
        for j in joins {
            match j.join() {
                Ok(o) => outs.push(o),
                Err(_) => panicked = true,
            }
        }
        if panicked {
            ctx.fail("mt-panic", "a worker thread panicked");
            std::mem::forget(outs);
            std::mem::forget(main_ref);
            return;
        }
        let mut created = 0usize;
        let mut owner: HashMap<usize, usize> = HashMap::new();
        let mut survivors: Vec<Ext<N, P>> = Vec::new();
        for (t, o) in outs.into_iter().enumerate() {
            created += o.created;
            for f in o.fails {
                let (sig, msg) = f;
                ctx.fail(sig, &format!("thread {}: {}", t, msg));
            }
            for (h, id) in o.survivors {
                let a = &*h as *const It<N> as usize;
                if h.id != id {
                    ctx.fail("mt-id", &format!("thread {}: survivor at {:#x} has id {:#x}, expected {:#x}", t, a, h.id, id));
                }
                if !std::ptr::eq(ExtHandle::slab(&h), &*main_ref) {
                    ctx.fail("mt-ext-slab", "ExtHandle::slab of a survivor is not the shared slab");
                }
                match owner.get(&a) {
                    Some(&t2) if t2 != t => {
                        ctx.fail("mt-distinct", &format!("threads {} and {} hold distinct items at the same address", t2, t));
                    }
                    _ => {
                        owner.insert(a, t);
                    }
                }
                survivors.push(h);
            }
        }
        let k = main_ref.num_items();
        if k != owner.len() {
            ctx.fail("mt-num-items", &format!("num_items() = {} with {} surviving items", k, owner.len()));
        }
        let d = total_drops.load(SeqCst);
        if d + owner.len() != created {
            ctx.fail("mt-drops", &format!("{} items created, {} dropped, {} survive", created, d, owner.len()));
        }
        drop(main_ref);
        if flag.load(SeqCst) != survivors.is_empty() {
            ctx.fail("mt-dead-flag", &format!("after the last ArcSlabRef: dropped = {} with {} surviving handles", flag.load(SeqCst), survivors.len()));
        }
        while let Some(h) = survivors.pop() {
            drop(h);
            if flag.load(SeqCst) != survivors.is_empty() {
                ctx.fail("mt-dead-flag", &format!("dropped = {} with {} surviving handles", flag.load(SeqCst), survivors.len()));
                if flag.load(SeqCst) {
                    std::mem::forget(survivors);
                    return;
                }
            }
        }
        let d = total_drops.load(SeqCst);
        if d != created {
            ctx.fail("mt-drops", &format!("{} items created, {} dropped at the end", created, d));
        }
    }
}

struct WorkerOut<const N: usize, const P: usize> {
    survivors: Vec<(Ext<N, P>, u64)>,
    created: usize,
    fails: Vec<(&'static str, String)>,
}

fn worker<const N: usize, const P: usize>(
    my_ref: SRef<N, P>,
    b: Arc<Barrier>,
    td: Arc<AtomicUsize>,
    t: usize,
    rounds: usize,
    seed: u64,
) -> WorkerOut<N, P> {
    let mut rng = Rng::new(seed);
    let mut fails: Vec<(&'static str, String)> = Vec::new();
    let mut extra: Vec<SRef<N, P>> = Vec::new();
    let mut created = 0usize;
    let mut exts: Vec<(Ext<N, P>, u64)> = Vec::new();
    {
        let slab: &Slab<N, P> = &my_ref;
        let mut ints: Vec<(Int<'_, N, P>, u64)> = Vec::new();
        // address -> (id, handles held)
        let mut held: HashMap<usize, (u64, usize)> = HashMap::new();
        b.wait();
        for _ in 0..rounds {
            let nh = ints.len() + exts.len();
            let mut r = rng.below(100);
            if nh > 40 && r < 50 {
                r = 60;
            }
            match r {
                0..=29 => {
                    let id = ((t as u64 + 1) << 32) | created as u64;
                    let h = slab.add_item(ArcItem::new(Pay { id, drops: td.clone(), pad: [id; N] }));
                    created += 1;
                    let a = &*h as *const It<N> as usize;
                    if h.id != id {
                        fails.push(("mt-id", format!("fresh item at {:#x} reads id {:#x}, written {:#x}", a, h.id, id)));
                    }
                    if h.current() != 1 {
                        fails.push(("mt-id", format!("fresh item at {:#x} has reference count {}", a, h.current())));
                    }
                    if held.contains_key(&a) {
                        fails.push(("mt-distinct", format!("slot {:#x} handed out while this thread still holds an item there", a)));
                    }
                    held.insert(a, (id, 1));
                    ints.push((h, id));
                }
                30..=44 => {
                    if nh == 0 {
                        continue;
                    }
                    let i = rng.below(nh as u64) as usize;
                    if i < ints.len() {
                        let (h, id) = &ints[i];
                        if h.id != *id {
                            fails.push(("mt-id", format!("item reads id {:#x}, expected {:#x}", h.id, id)));
                        }
                        let a = &**h as *const It<N> as usize;
                        let c = (h.clone(), *id);
                        held.get_mut(&a).map(|e| e.1 += 1);
                        ints.push(c);
                    } else {
                        let (h, id) = &exts[i - ints.len()];
                        if h.id != *id {
                            fails.push(("mt-id", format!("item reads id {:#x}, expected {:#x}", h.id, id)));
                        }
                        let a = &**h as *const It<N> as usize;
                        let c = (h.clone(), *id);
                        held.get_mut(&a).map(|e| e.1 += 1);
                        exts.push(c);
                    }
                }
                45..=74 => {
                    if nh == 0 {
                        continue;
                    }
                    let i = rng.below(nh as u64) as usize;
                    let how = rng.below(3);
                    let (a, id, freed): (usize, u64, Option<bool>);
                    if i < ints.len() {
                        let (h, hid) = ints.swap_remove(i);
                        a = &*h as *const It<N> as usize;
                        id = hid;
                        if h.id != id {
                            fails.push(("mt-id", format!("item reads id {:#x}, expected {:#x}", h.id, id)));
                        }
                        freed = match how {
                            0 => {
                                drop(h);
                                None
                            }
                            1 => {
                                let mut called = false;
                                IntHandle::drop_with(h, |p| {
                                    called = true;
                                    if p.id != id {
                                        fails.push(("mt-id", format!("drop_with passes id {:#x}, expected {:#x}", p.id, id)));
                                    }
                                });
                                Some(called)
                            }
                            _ => match IntHandle::into_inner(h) {
                                Some(p) => {
                                    if p.id != id {
                                        fails.push(("mt-id", format!("into_inner returns id {:#x}, expected {:#x}", p.id, id)));
                                    }
                                    Some(true)
                                }
                                None => Some(false),
                            },
                        };
                    } else {
                        let (h, hid) = exts.swap_remove(i - ints.len());
                        a = &*h as *const It<N> as usize;
                        id = hid;
                        if h.id != id {
                            fails.push(("mt-id", format!("item reads id {:#x}, expected {:#x}", h.id, id)));
                        }
                        freed = match how {
                            0 => {
                                drop(h);
                                None
                            }
                            1 => {
                                let mut called = false;
                                ExtHandle::drop_with(h, |p| {
                                    called = true;
                                    if p.id != id {
                                        fails.push(("mt-id", format!("drop_with passes id {:#x}, expected {:#x}", p.id, id)));
                                    }
                                });
                                Some(called)
                            }
                            _ => match ExtHandle::into_inner(h) {
                                Some(p) => {
                                    if p.id != id {
                                        fails.push(("mt-id", format!("into_inner returns id {:#x}, expected {:#x}", p.id, id)));
                                    }
                                    Some(true)
                                }
                                None => Some(false),
                            },
                        };
                    }
                    let last = match held.get_mut(&a) {
                        Some(e) => {
                            e.1 -= 1;
                            e.1 == 0
                        }
                        None => false,
                    };
                    if last {
                        held.remove(&a);
                    }
                    if let Some(f) = freed {
                        if f != last {
                            fails.push(("mt-item-drop", format!("item {:#x}: freed = {}, last handle = {}", id, f, last)));
                        }
                    }
                }
                75..=84 => {
                    if ints.is_empty() {
                        continue;
                    }
                    let i = rng.below(ints.len() as u64) as usize;
                    let (h, id) = ints.swap_remove(i);
                    let e = ExtHandle::from(h);
                    if !std::ptr::eq(ExtHandle::slab(&e), slab) {
                        fails.push(("mt-ext-slab", "ExtHandle::slab is not the shared slab".into()));
                    }
                    exts.push((e, id));
                }
                85..=89 => {
                    if extra.len() < 8 {
                        extra.push(my_ref.clone());
                    }
                }
                90..=94 => {
                    extra.pop();
                }
                _ => {
                    let k = slab.num_items();
                    if k < held.len() {
                        fails.push(("mt-num-items", format!("num_items() = {} while this thread alone holds {} items", k, held.len())));
                    }
                }
            }
        }
        for (h, id) in ints.drain(..) {
            exts.push((ExtHandle::from(h), id));
        }
    }
    drop(extra);
    drop(my_ref);
    WorkerOut { survivors: exts, created, fails }
}

impl<const N: usize, const P: usize> Dyn for St<N, P> {
    fn op(&mut self, op: &Op, ctx: &mut Ctx) -> String {
        macro_rules! refuse {
            () => {{
                ctx.count("refused");
                return "refused".to_string();
            }};
        }
        if self.dead {
            refuse!();
        }
        macro_rules! item {
            ($n:expr) => {{
                match self.items.get($n) {
                    Some(it) if !it.gone => {}
                    _ => refuse!(),
                }
            }};
        }
        match *op {
            Op::Cfg(_) => "bad-op".into(),
            Op::Mt(t, r, s) => {
                ctx.count("mt");
                Self::mt(t, r, s, ctx);
                self.post(ctx, None);
                "mt ok".into()
            }
            Op::RefP => {
                if self.refs.is_empty() {
                    refuse!();
                }
                let c = self.refs[0].clone();
                if !std::ptr::eq(&*c, self.slab_ptr) {
                    ctx.fail("ext-slab", "a cloned ArcSlabRef points to another slab");
                }
                self.refs.push(c);
                self.post(ctx, None);
                "ok".into()
            }
            Op::RefM => {
                if self.refs.is_empty() {
                    refuse!();
                }
                if self.refs.len() == 1 && self.tot_ext() == 0 && self.tot_int() != 0 {
                    refuse!();
                }
                let r = self.refs.pop().unwrap();
                drop(r);
                self.post(ctx, None);
                format!("ok dead {}", self.flag.load(SeqCst) as u8)
            }
            Op::Num => {
                self.post(ctx, None);
                format!("items {}", self.slab().num_items())
            }
            Op::Add => {
                let n = self.items.len();
                let drops = Arc::new(AtomicUsize::new(0));
                let h = self.slab().add_item(ArcItem::new(Pay { id: n as u64, drops: drops.clone(), pad: [0xA5A5_0000 + n as u64; N] }));
                if h.id != n as u64 || h.current() != 1 {
                    ctx.fail("item-drop", &format!("fresh item {} reads id {} with reference count {}", n, h.id, h.current()));
                }
                let raw = IntHandle::into_raw(h);
                let addr = raw.as_ptr() as usize;
                ctx.count("add");
                if let Some(m) = self.items.iter().position(|i| !i.gone && i.addr == addr) {
                    ctx.fail("slot-reuse", &format!("item {} got the slot of the live item {}", n, m));
                }
                let seen = self.addr_ord.contains_key(&addr);
                match self.free_stack.last().copied() {
                    Some(top) => {
                        if top == addr {
                            self.free_stack.pop();
                        } else {
                            ctx.fail(
                                "lifo",
                                &format!("{} freed slots are waiting, item {} got {} slot instead of the most recently freed one", self.free_stack.len(), n, if seen { "another" } else { "a fresh" }),
                            );
                            if let Some(p) = self.free_stack.iter().position(|&a| a == addr) {
                                self.free_stack.remove(p);
                            }
                        }
                    }
                    None => {}
                }
                if seen {
                    ctx.count("add-reuse");
                }
                let next = self.addr_ord.len();
                let id = *self.addr_ord.entry(addr).or_insert(next);
                let base = addr & !(P - 1);
                if !self.page_ord.contains_key(&base) {
                    ctx.count("add-newpage");
                }
                let nextp = self.page_ord.len();
                let p = *self.page_ord.entry(base).or_insert(nextp);
                let rel = addr.wrapping_sub(base).wrapping_sub(PAGE_HDR);
                let o = rel / Self::slot_size();
                if addr - base < PAGE_HDR || rel % Self::slot_size() != 0 || o >= Self::k() {
                    ctx.fail("page-cap", &format!("slot at byte {} of its page (slot size {}, K = {})", addr - base, Self::slot_size(), Self::k()));
                }
                if self.addr_ord.len() > self.page_ord.len() * Self::k() {
                    ctx.fail("page-cap", &format!("{} distinct slots on {} pages of {} slots", self.addr_ord.len(), self.page_ord.len(), Self::k()));
                }
                self.items.push(ItemSt { raw, addr, n_int: 1, ext: Vec::new(), gone: false, drops });
                self.post(ctx, Some(n));
                format!("item {} slot {} page {} off {} items {}", n, id, p, o, self.slab().num_items())
            }
            Op::IClone(n) => {
                item!(n);
                if self.items[n].n_int == 0 {
                    refuse!();
                }
                let h: Int<'_, N, P> = unsafe { IntHandle::from_raw(self.items[n].raw) };
                let c = h.clone();
                let r = c.current();
                if c.id != n as u64 {
                    ctx.fail("item-drop", &format!("item {} reads id {}", n, c.id));
                }
                let r1 = IntHandle::into_raw(h);
                let r2 = IntHandle::into_raw(c);
                if r1 != r2 || r1 != self.items[n].raw {
                    ctx.fail("slot-reuse", "a cloned IntHandle points to another slot");
                }
                self.items[n].n_int += 1;
                self.post(ctx, Some(n));
                format!("ok rc {}", r)
            }
            Op::IDrop(n, kind) => {
                item!(n);
                if self.items[n].n_int == 0 {
                    refuse!();
                }
                let h: Int<'_, N, P> = unsafe { IntHandle::from_raw(self.items[n].raw) };
                self.items[n].n_int -= 1;
                let drops = self.items[n].drops.clone();
                let freed = match kind {
                    Kind::Drop => {
                        let before = drops.load(SeqCst);
                        drop(h);
                        drops.load(SeqCst) > before
                    }
                    Kind::DropWith => {
                        let mut called = false;
                        let mut pid = 0;
                        IntHandle::drop_with(h, |p| {
                            called = true;
                            pid = p.id;
                        });
                        if called && pid != n as u64 {
                            ctx.fail("item-drop", &format!("drop_with of item {} passes the payload {}", n, pid));
                        }
                        called
                    }
                    Kind::Into => match IntHandle::into_inner(h) {
                        Some(p) => {
                            if p.id != n as u64 {
                                ctx.fail("item-drop", &format!("into_inner of item {} returns the payload {}", n, p.id));
                            }
                            true
                        }
                        None => false,
                    },
                };
                self.check_freed(n, freed, ctx);
                if freed {
                    self.mark_freed(n, ctx);
                }
                self.post(ctx, Some(n));
                format!("gone {} {}", freed as u8, self.tail())
            }
            Op::IForce(n) => {
                item!(n);
                if self.items[n].n_int != 1 || !self.items[n].ext.is_empty() {
                    refuse!();
                }
                let h: Int<'_, N, P> = unsafe { IntHandle::from_raw(self.items[n].raw) };
                self.items[n].n_int -= 1;
                let p = unsafe { IntHandle::force_into_inner(h) };
                if p.id != n as u64 {
                    ctx.fail("item-drop", &format!("force_into_inner of item {} returns the payload {}", n, p.id));
                }
                drop(p);
                self.mark_freed(n, ctx);
                self.post(ctx, Some(n));
                format!("gone 1 {}", self.tail())
            }
            Op::ToExt(n) => {
                item!(n);
                if self.items[n].n_int == 0 {
                    refuse!();
                }
                let h: Int<'_, N, P> = unsafe { IntHandle::from_raw(self.items[n].raw) };
                self.items[n].n_int -= 1;
                let e = ExtHandle::from(h);
                if &*e as *const It<N> as usize != self.items[n].addr {
                    ctx.fail("slot-reuse", "the ExtHandle made from an IntHandle points to another slot");
                }
                self.items[n].ext.push(e);
                self.post(ctx, Some(n));
                "ok".into()
            }
            Op::EClone(n) => {
                item!(n);
                if self.items[n].ext.is_empty() {
                    refuse!();
                }
                let c = self.items[n].ext[0].clone();
                let r = c.current();
                if c.id != n as u64 || &*c as *const It<N> as usize != self.items[n].addr {
                    ctx.fail("item-drop", &format!("cloned ExtHandle of item {} reads id {}", n, c.id));
                }
                self.items[n].ext.push(c);
                self.post(ctx, Some(n));
                format!("ok rc {}", r)
            }
            Op::EDrop(n, kind) => {
                item!(n);
                if self.items[n].ext.is_empty() {
                    refuse!();
                }
                if self.refs.is_empty() && self.tot_ext() == 1 && self.tot_int() != 0 {
                    refuse!();
                }
                let h = self.items[n].ext.pop().unwrap();
                let drops = self.items[n].drops.clone();
                let freed = match kind {
                    Kind::Drop => {
                        let before = drops.load(SeqCst);
                        drop(h);
                        drops.load(SeqCst) > before
                    }
                    Kind::DropWith => {
                        let mut called = false;
                        let mut pid = 0;
                        ExtHandle::drop_with(h, |p| {
                            called = true;
                            pid = p.id;
                        });
                        if called && pid != n as u64 {
                            ctx.fail("item-drop", &format!("drop_with of item {} passes the payload {}", n, pid));
                        }
                        called
                    }
                    Kind::Into => match ExtHandle::into_inner(h) {
                        Some(p) => {
                            if p.id != n as u64 {
                                ctx.fail("item-drop", &format!("into_inner of item {} returns the payload {}", n, p.id));
                            }
                            true
                        }
                        None => false,
                    },
                };
                self.check_freed(n, freed, ctx);
                if freed {
                    self.mark_freed(n, ctx);
                }
                self.post(ctx, Some(n));
                format!("gone {} {}", freed as u8, self.tail())
            }
        }
    }
}

impl<const N: usize, const P: usize> Drop for St<N, P> {
    fn drop(&mut self) {
        let _ = self.c;
        if !self.dead && !self.flag.load(SeqCst) {
            for it in self.items.iter_mut() {
                if !it.gone {
                    for _ in 0..it.n_int {
                        let h: Int<'_, N, P> = unsafe { IntHandle::from_raw(it.raw) };
                        drop(h);
                    }
                    it.n_int = 0;
                }
            }
            for it in self.items.iter_mut() {
                it.ext.clear();
            }
            self.refs.clear();
        } else {
            // nothing of the main slab may be touched any more
            for it in self.items.iter_mut() {
                for e in it.ext.drain(..) {
                    std::mem::forget(e);
                }
            }
            for r in self.refs.drain(..) {
                std::mem::forget(r);
            }
        }
        self.decoy_ext.clear();
        self.decoy_ref = None;
    }
}

struct Sc {
    st: Option<Box<dyn Dyn>>,
}

impl Scenario for Sc {
    fn reset(&mut self) {
        self.st = None;
    }
    fn step(&mut self, line: &str, ctx: &mut Ctx) -> String {
        let op = match parse(line) {
            Some(op) => op,
            None => return "bad-op".into(),
        };
        if let Op::Cfg(c) = op {
            if self.st.is_some() {
                return "bad-op".into();
            }
            let (st, k): (Box<dyn Dyn>, usize) = match c {
                0 => (Box::new(St::<1, 64>::new(c)), St::<1, 64>::k()),
                1 => (Box::new(St::<0, 64>::new(c)), St::<0, 64>::k()),
                2 => (Box::new(St::<0, 128>::new(c)), St::<0, 128>::k()),
                3 => (Box::new(St::<1, 128>::new(c)), St::<1, 128>::k()),
                4 => (Box::new(St::<0, 256>::new(c)), St::<0, 256>::k()),
                _ => (Box::new(St::<1, 1024>::new(c)), St::<1, 1024>::k()),
            };
            self.st = Some(st);
            return format!("cfg {} K {}", c, k);
        }
        match self.st.as_mut() {
            None => "bad-op".into(),
            Some(st) => st.op(&op, ctx),
        }
    }
}

// ------------------------------------------------------------------------------------------------
// generator

/// simulated handle counts; only steers the generator (the harness decides legality on its own)
struct Sim {
    refs: usize,
    /// (n_int, n_ext, gone)
    items: Vec<(usize, usize, bool)>,
    dead: bool,
}

impl Sim {
    fn new() -> Self {
        Sim { refs: 1, items: Vec::new(), dead: false }
    }
    fn tot_int(&self) -> usize {
        self.items.iter().filter(|i| !i.2).map(|i| i.0).sum()
    }
    fn tot_ext(&self) -> usize {
        self.items.iter().filter(|i| !i.2).map(|i| i.1).sum()
    }
    fn live(&self, n: usize) -> bool {
        n < self.items.len() && !self.items[n].2
    }
    fn settle(&mut self, n: usize) {
        if self.items[n].0 + self.items[n].1 == 0 {
            self.items[n].2 = true;
        }
        if self.refs == 0 && self.tot_ext() == 0 {
            self.dead = true;
        }
    }
    /// mirror of the effect of a line (after `cfg`)
    fn apply(&mut self, line: &str) {
        let op = match parse(line) {
            Some(op) => op,
            None => return,
        };
        if self.dead {
            return;
        }
        match op {
            Op::Cfg(_) | Op::Mt(..) | Op::Num => {}
            Op::RefP => {
                if self.refs > 0 {
                    self.refs += 1
                }
            }
            Op::RefM => {
                if self.refs > 0 && !(self.refs == 1 && self.tot_ext() == 0 && self.tot_int() != 0) {
                    self.refs -= 1;
                    if self.refs == 0 && self.tot_ext() == 0 {
                        self.dead = true;
                    }
                }
            }
            Op::Add => self.items.push((1, 0, false)),
            Op::IClone(n) => {
                if self.live(n) && self.items[n].0 > 0 {
                    self.items[n].0 += 1
                }
            }
            Op::IDrop(n, _) => {
                if self.live(n) && self.items[n].0 > 0 {
                    self.items[n].0 -= 1;
                    self.settle(n);
                }
            }
            Op::IForce(n) => {
                if self.live(n) && self.items[n].0 == 1 && self.items[n].1 == 0 {
                    self.items[n].0 = 0;
                    self.settle(n);
                }
            }
            Op::ToExt(n) => {
                if self.live(n) && self.items[n].0 > 0 {
                    self.items[n].0 -= 1;
                    self.items[n].1 += 1;
                }
            }
            Op::EClone(n) => {
                if self.live(n) && self.items[n].1 > 0 {
                    self.items[n].1 += 1
                }
            }
            Op::EDrop(n, _) => {
                if self.live(n) && self.items[n].1 > 0 && !(self.refs == 0 && self.tot_ext() == 1 && self.tot_int() != 0) {
                    self.items[n].1 -= 1;
                    self.settle(n);
                }
            }
        }
    }
    fn pick(&self, rng: &mut Rng, f: impl Fn(&(usize, usize, bool)) -> bool) -> Option<usize> {
        let v: Vec<usize> = (0..self.items.len()).filter(|&i| !self.items[i].2 && f(&self.items[i])).collect();
        if v.is_empty() { None } else { Some(*rng.pick(&v)) }
    }
}

fn emit(w: &mut dyn Write, sim: &mut Sim, line: &str) {
    writeln!(w, "{}", line).unwrap();
    sim.apply(line);
}

const IDROPS: [&str; 3] = ["idrop", "idropw", "iinto"];
const EDROPS: [&str; 3] = ["edrop", "edropw", "einto"];

fn garbage(rng: &mut Rng, sim: &Sim) -> String {
    let n_items = sim.items.len();
    match rng.below(12) {
        0 => "frob".into(),
        1 => "idrop".into(),
        2 => "idrop x".into(),
        3 => "add 1".into(),
        4 => format!("cfg {}", rng.below(7)),
        5 => {
            // gone or never created
            let gone: Vec<usize> = (0..n_items).filter(|&i| sim.items[i].2).collect();
            let n = if !gone.is_empty() && rng.chance(2, 3) { *rng.pick(&gone) } else { n_items + rng.below(3) as usize };
            format!("{} {}", rng.pick(&["idrop", "iclone", "toext", "edrop", "eclone", "iforce", "iinto", "einto"]), n)
        }
        6 => match sim.pick(rng, |i| i.0 + i.1 >= 2) {
            Some(n) => format!("iforce {}", n),
            None => "iforce 99".into(),
        },
        7 => match sim.pick(rng, |i| i.1 == 0) {
            Some(n) => format!("{} {}", rng.pick(&["edrop", "eclone", "edropw", "einto"]), n),
            None => "edrop 77".into(),
        },
        8 => "ref-".into(),
        9 => match sim.pick(rng, |i| i.0 == 0) {
            Some(n) => format!("{} {}", rng.pick(&["iclone", "idrop", "toext", "iforce", "idropw"]), n),
            None => "toext 77".into(),
        },
        10 => "ref+  ".trim_end().to_string() + " 1",
        _ => "mt 0 1 1".into(),
    }
}

/// one mostly legal operation; `phase`: 0 build, 1 free, 2 mixed
fn legal_op(rng: &mut Rng, sim: &Sim, phase: u64) -> String {
    // weights: add iclone idrop iforce toext eclone edrop ref+ ref- num
    let wts: [u64; 10] = match phase {
        0 => [50, 8, 6, 2, 9, 5, 4, 5, 3, 3],
        1 => [4, 3, 40, 10, 5, 2, 26, 2, 4, 2],
        _ => [25, 8, 20, 5, 8, 5, 15, 4, 4, 3],
    };
    let tot: u64 = wts.iter().sum();
    let mut r = rng.below(tot);
    let mut k = 0;
    while r >= wts[k] {
        r -= wts[k];
        k += 1;
    }
    let allow_kill = rng.chance(1, 12);
    let s = match k {
        0 => Some("add".to_string()),
        1 => sim.pick(rng, |i| i.0 > 0).map(|n| format!("iclone {}", n)),
        2 => sim.pick(rng, |i| i.0 > 0).map(|n| format!("{} {}", rng.pick(&IDROPS), n)),
        3 => sim.pick(rng, |i| i.0 == 1 && i.1 == 0).map(|n| format!("iforce {}", n)),
        4 => sim.pick(rng, |i| i.0 > 0).map(|n| format!("toext {}", n)),
        5 => sim.pick(rng, |i| i.1 > 0).map(|n| format!("eclone {}", n)),
        6 => {
            let last = sim.refs == 0 && sim.tot_ext() == 1;
            if last && (sim.tot_int() != 0 || !allow_kill) {
                None
            } else {
                sim.pick(rng, |i| i.1 > 0).map(|n| format!("{} {}", rng.pick(&EDROPS), n))
            }
        }
        7 => {
            if sim.refs > 0 && sim.refs < 4 {
                Some("ref+".to_string())
            } else {
                None
            }
        }
        8 => {
            let last = sim.refs == 1 && sim.tot_ext() == 0;
            if sim.refs == 0 || (last && (sim.tot_int() != 0 || !allow_kill)) {
                None
            } else {
                Some("ref-".to_string())
            }
        }
        _ => Some("num".to_string()),
    };
    s.unwrap_or_else(|| if phase == 1 { "num".to_string() } else { "add".to_string() })
}

fn teardown(rng: &mut Rng, sim: &mut Sim, w: &mut dyn Write) {
    let mut order: Vec<usize> = (0..sim.items.len()).filter(|&i| !sim.items[i].2).collect();
    rng.shuffle(&mut order);
    for &n in &order {
        while sim.live(n) && sim.items[n].0 > 0 {
            let it = sim.items[n];
            let l = if it.0 == 1 && it.1 == 0 && rng.chance(1, 3) { format!("iforce {}", n) } else { format!("{} {}", rng.pick(&IDROPS), n) };
            emit(w, sim, &l);
        }
    }
    let mut toks: Vec<String> = Vec::new();
    for _ in 0..sim.refs {
        toks.push("ref-".into());
    }
    for n in 0..sim.items.len() {
        if !sim.items[n].2 {
            for _ in 0..sim.items[n].1 {
                toks.push(format!("{} {}", rng.pick(&EDROPS), n));
            }
        }
    }
    rng.shuffle(&mut toks);
    for t in toks {
        emit(w, sim, &t);
    }
}

fn after_dead(rng: &mut Rng, sim: &mut Sim, w: &mut dyn Write) {
    for _ in 0..2 {
        let l = match rng.below(6) {
            0 => "add".to_string(),
            1 => "num".to_string(),
            2 => "ref+".to_string(),
            3 => "ref-".to_string(),
            4 => format!("idrop {}", rng.below(sim.items.len() as u64 + 1)),
            _ => format!("eclone {}", rng.below(sim.items.len() as u64 + 1)),
        };
        emit(w, sim, &l);
    }
}

fn random_case(rng: &mut Rng, w: &mut dyn Write, name: &str, mt_seed: Option<u64>) {
    writeln!(w, "case {}", name).unwrap();
    let c = *rng.pick(&[0u64, 0, 0, 1, 1, 1, 1, 2, 2, 3, 3, 4, 5]);
    if rng.chance(1, 40) {
        // an operation before `cfg`
        writeln!(w, "{}", rng.pick(&["add", "num", "ref+", "idrop 0"])).unwrap();
    }
    writeln!(w, "cfg {}", c).unwrap();
    let mut sim = Sim::new();
    let nops = rng.range(20, 120);
    let mt_at = mt_seed.map(|_| rng.range(5, nops - 5));
    let mut phase = 0u64;
    let mut left = rng.range(8, 30);
    for i in 0..nops {
        if sim.dead {
            break;
        }
        if Some(i) == mt_at {
            emit(w, &mut sim, &format!("mt 4 300 {}", mt_seed.unwrap()));
            continue;
        }
        if left == 0 {
            phase = match phase {
                0 => 1,
                1 => *rng.pick(&[0, 0, 2]),
                _ => *rng.pick(&[0, 1]),
            };
            left = rng.range(5, 30);
        }
        left -= 1;
        let l = if rng.chance(1, 20) { garbage(rng, &sim) } else { legal_op(rng, &sim, phase) };
        emit(w, &mut sim, &l);
    }
    if !sim.dead && rng.chance(1, 3) {
        teardown(rng, &mut sim, w);
    }
    if sim.dead {
        after_dead(rng, &mut sim, w);
    }
}

fn generate(cfg: &GenCfg, rng: &mut Rng, w: &mut dyn Write) {
    let scale = cfg.scale.max(1);
    let n_random = if cfg.thorough { 3000 } else { 300 } * scale;
    let n_mt = if cfg.thorough { 24 } else { 6 } * scale;
    let len = if cfg.thorough { 5 } else { 4 };
    writeln!(w, "# c20_arcslab tier={} seed={} scale={}", if cfg.thorough { "thorough" } else { "quick" }, cfg.seed, scale).unwrap();
    for i in 0..n_random {
        random_case(rng, w, &format!("r{}", i), None);
    }
    for i in 0..n_mt {
        let s = rng.below(1_000_000);
        random_case(rng, w, &format!("m{}", i), Some(s));
    }
    const ALPHA: [&str; 9] = ["add", "ref+", "ref-", "idrop 0", "iclone 0", "toext 0", "edrop 0", "idrop 1", "num"];
    let total = 9usize.pow(len);
    let mut idx = 0u64;
    for c in 0..2 {
        for s in 0..total {
            writeln!(w, "case e{}", idx).unwrap();
            idx += 1;
            writeln!(w, "cfg {}", c).unwrap();
            let mut x = s;
            let mut digits = Vec::new();
            for _ in 0..len {
                digits.push(x % 9);
                x /= 9;
            }
            for d in digits.iter().rev() {
                writeln!(w, "{}", ALPHA[*d]).unwrap();
            }
        }
    }
}

fn make(_f: &BTreeMap<String, String>) -> Box<dyn Scenario> {
    Box::new(Sc { st: None })
}

fn main() {
    let _ = HashSet::<u8>::new();
    harness_main(generate, make)
}
