//! C20 (C16, C03, C05) — the manager's bookkeeping through the public API (protocol `ptrmgr`).
//!
//! The binary is built twice: with the harness feature `manager-pointer` (the pointer-based
//! manager, `oxidd-manager-pointer` + `arcslab`) and with the default features (the index-based
//! manager). Both builds must print the SAME stream (property C20) and that stream must equal
//! the one predicted by the Lean model of the pointer manager
//! (`/verif/lean/OxiddModel/Pointer/Driver.lean`).
//!
//! What is exercised: batches of (named) variable additions including empty ones and
//! `add_named_vars_from_map`, renames, reorderings with full and partial non-involutive orders,
//! complete `level_to_var` / `var_to_level` dumps, forward / backward / mixed level iteration
//! with `level_no()` and `len()`, `gc_count` / `reorder_count`, `LevelView::gc` outside a
//! reordering, `num_inner_nodes` (ArcSlab item counter vs. sum of the level tables), the ZBDD
//! tautology chain (the observable effect of the `pre_reorder` / `post_reorder` notifications),
//! static terminals of BDD (2), BCDD (1), ZBDD (2) and TDD (3) managers, and `node_count` of
//! functions that fill several 2 MiB pages of the pointer manager's node store (`NodeSet`).
//!
//! Line formats (`<kind>` = `bdd` | `bcdd` | `zbdd` | `tdd`, names as in protocol `names`: `-` is the
//! empty name, a batch is `.` or names joined by `|`):
//!
//! * `kind <kind>`          → `ok` (creates the manager; must be the first line of a case)
//! * `addvars k`            → `s..e`
//! * `addnamed <batch>`     → `s..e` | `DUP <name> <present> s..e`
//! * `frommap <batch>`      → same (the map is built by `add_named` on a fresh `VarNameMap`)
//! * `setname v <name>`     → `ok` | `DUP <name> <present> s..e` (`bad-op` unless `v < num_vars`)
//! * `names`                → `<num_levels> <num_vars> <num_named_vars> <names> <index>`
//! * `lookup <name>`        → `none` | variable
//! * `order v0 v1 …`        → `ok` (`gc`, then `set_var_order` with the given, possibly partial, order)
//! * `maps`                 → `l2v a,b,… v2l x,y,…` (`.` for no variables)
//! * `iter <pattern>`       → `<len> <item>/<len> …`, pattern over `f` (`next`) / `b` (`next_back`),
//!   item = `level_no()` of the yielded view or `-`
//! * `counters`             → `gc <gc_count> reorder <reorder_count>`
//! * `gc`                   → `ok`
//! * `mkvar v`              → `ok` (a handle for variable `v`; not for `zbdd`)
//! * `drop i`               → `ok` (drops handle `i`)
//! * `levelgc l`            → `ok` (`manager.level(l).gc()`, outside any reordering)
//! * `nodes`                → `num_inner_nodes()`
//! * `taut`                 → node count of the ZBDD tautology (`zbdd` only)
//! * `terms`                → `<num_terminals> <value> …` (values of `terminals()` in order)
//! * `consts`               → values of the constant functions (`f`, `t`; TDD: `f`, `u`, `t`)
//! * `bigcount n`           → `count <node_count>` of `⋁ x_i ∧ x_{n+i}` under the order
//!   `x_0 … x_{2n-1}` in a fresh manager of the case's kind (`bdd`, `bcdd`, n ≤ 18); `ok` for `tdd`
//!   (n ≤ 12)
//!
//! Oracles (independent of the model), after every line: `num_vars == num_levels ==
//! levels().len()`; `level_to_var` / `var_to_level` are inverse bijections; forward and backward
//! iteration yield every level once, each view's `level_no()` is its position and equals the
//! `level()` stored in every node of the view; a reference name list with the specified
//! semantics agrees with `var_name` / `name_to_var` / `num_named_vars` and every result;
//! `num_inner_nodes()` equals the sum of the level views' lengths; after `order` the requested
//! relative order holds; `node_count()` equals an independent walk with a `HashSet` of node ids;
//! the ZBDD tautology has `num_levels + 1` nodes; `terminals()` decodes to `0, 1, …` in order.
use oxidd::{BooleanFunction, Edge, Function, HasLevel, InnerNode, Manager, ManagerRef, Node, TVLFunction};
use oxidd_core::LevelView;
use oxidd_core::Countable;
use oxidd_core::util::VarNameMap;
use oxv::*;
use std::borrow::Borrow;
use std::collections::{BTreeMap, HashSet};
use std::io::Write;

// ------------------------------------------------------------------------------------ tokens

fn tok_ok(t: &str) -> bool {
    !t.is_empty() && t.bytes().all(|b| b.is_ascii_alphanumeric() || b == b'_')
}
fn dec(t: &str) -> Option<String> {
    if t == "-" {
        Some(String::new())
    } else if tok_ok(t) {
        Some(t.to_string())
    } else {
        None
    }
}
fn enc(n: &str) -> String {
    if n.is_empty() { "-".into() } else { n.to_string() }
}
fn dec_batch(t: &str) -> Option<Vec<String>> {
    if t == "." {
        return Some(Vec::new());
    }
    t.split('|').map(dec).collect()
}
fn enc_batch(names: &[String]) -> String {
    if names.is_empty() { ".".into() } else { names.iter().map(|n| enc(n)).collect::<Vec<_>>().join("|") }
}
fn num(t: &str) -> Option<u32> {
    if t.is_empty() || t.len() > 9 || !t.bytes().all(|b| b.is_ascii_digit()) {
        return None;
    }
    t.parse().ok()
}
fn join<T: ToString>(xs: impl IntoIterator<Item = T>, sep: &str) -> String {
    let v: Vec<String> = xs.into_iter().map(|x| x.to_string()).collect();
    if v.is_empty() { ".".into() } else { v.join(sep) }
}

// ------------------------------------------------------------------------------------ reference names

/// the specified behaviour of the name bookkeeping, kept next to the implementation
#[derive(Default)]
struct RefNames(Vec<String>);
impl RefNames {
    fn find(&self, n: &str) -> Option<u32> {
        if n.is_empty() { None } else { self.0.iter().position(|x| x == n).map(|i| i as u32) }
    }
    /// `Ok((s, e))` or `Err((name, present, s, e))`
    fn add(&mut self, names: &[String]) -> Result<(u32, u32), (String, u32, u32, u32)> {
        let s = self.0.len() as u32;
        for n in names {
            if let Some(p) = self.find(n) {
                return Err((n.clone(), p, s, self.0.len() as u32));
            }
            self.0.push(n.clone());
        }
        Ok((s, self.0.len() as u32))
    }
    fn set(&mut self, v: u32, n: &str) -> Result<(), (String, u32, u32, u32)> {
        if let Some(p) = self.find(n) {
            if p != v {
                let l = self.0.len() as u32;
                return Err((n.to_string(), p, l, l));
            }
            return Ok(());
        }
        self.0[v as usize] = n.to_string();
        Ok(())
    }
}

fn show_add(r: &Result<(u32, u32), (String, u32, u32, u32)>) -> String {
    match r {
        Ok((s, e)) => format!("{s}..{e}"),
        Err((n, p, s, e)) => format!("DUP {} {p} {s}..{e}", enc(n)),
    }
}

// ------------------------------------------------------------------------------------ generic manager operations

fn conv_add(r: Result<std::ops::Range<u32>, oxidd_core::error::DuplicateVarName>) -> Result<(u32, u32), (String, u32, u32, u32)> {
    match r {
        Ok(r) => Ok((r.start, r.end)),
        Err(e) => Err((e.name, e.present_var, e.added_vars.start, e.added_vars.end)),
    }
}

/// all invariants that can be evaluated through the public API, independent of the model
fn audit<M: Manager>(m: &M, names: &RefNames, ctx: &mut Ctx)
where
    M::InnerNode: HasLevel,
{
    let n = m.num_levels();
    if m.num_vars() != n {
        ctx.fail("levels-ne-vars", &format!("num_vars {} != num_levels {}", m.num_vars(), n));
    }
    if names.0.len() as u32 != n {
        ctx.fail("levels-ne-names", &format!("num_levels {} but the reference has {} variables", n, names.0.len()));
        return;
    }
    // var/level maps
    let mut seen = vec![false; n as usize];
    for l in 0..n {
        let v = m.level_to_var(l);
        if v >= n || m.var_to_level(v) != l {
            ctx.fail("varlevel-not-inverse", &format!("var_to_level(level_to_var({l}) = {v}) != {l}"));
            return;
        }
        if seen[v as usize] {
            ctx.fail("varlevel-not-injective", &format!("variable {v} on two levels"));
        }
        seen[v as usize] = true;
    }
    for v in 0..n {
        if m.level_to_var(m.var_to_level(v)) != v {
            ctx.fail("varlevel-not-inverse", &format!("level_to_var(var_to_level({v})) != {v}"));
        }
    }
    // level iteration, both directions
    let it = m.levels();
    if it.len() != n as usize {
        ctx.fail("leveliter-len", &format!("levels().len() = {} != {n}", it.len()));
    }
    let mut total = 0usize;
    let mut pos = 0u32;
    for view in it {
        check_view(m, &view, pos, "front", ctx);
        total += view.len();
        pos += 1;
    }
    if pos != n {
        ctx.fail("leveliter-count", &format!("forward iteration yields {pos} levels of {n}"));
    }
    let mut pos = n;
    for view in m.levels().rev() {
        if pos == 0 {
            ctx.fail("leveliter-count", "backward iteration yields too many levels");
            break;
        }
        pos -= 1;
        check_view(m, &view, pos, "back", ctx);
    }
    if pos != 0 {
        ctx.fail("leveliter-count", &format!("backward iteration stops {pos} levels early"));
    }
    // node count bookkeeping: the store's counter vs. the tables
    let cnt = m.num_inner_nodes();
    if cnt != total {
        ctx.fail("num-inner-nodes", &format!("num_inner_nodes() = {cnt} but the level tables hold {total} nodes"));
    }
    // names
    let mut named = 0;
    for v in 0..n {
        let want = &names.0[v as usize];
        let got = m.var_name(v);
        if got != want {
            ctx.fail("var-name", &format!("var_name({v}) = {got:?}, reference {want:?}"));
        }
        if !want.is_empty() {
            named += 1;
            if m.name_to_var(want) != Some(v) {
                ctx.fail("name-to-var", &format!("name_to_var({want:?}) = {:?}, reference {v}", m.name_to_var(want)));
            }
        }
    }
    if m.num_named_vars() != named {
        ctx.fail("num-named", &format!("num_named_vars() = {} but {named} variables are named", m.num_named_vars()));
    }
    if m.name_to_var("") != None {
        ctx.fail("name-to-var", "name_to_var(\"\") is not None");
    }
}

fn check_view<M: Manager>(m: &M, view: &M::LevelView<'_>, pos: u32, dir: &str, ctx: &mut Ctx)
where
    M::InnerNode: HasLevel,
{
    if view.level_no() != pos {
        ctx.fail("leveliter-level-no", &format!("{dir} iteration: view at position {pos} reports level_no() = {}", view.level_no()));
    }
    for e in view.iter() {
        if let Node::Inner(node) = m.get_node(e) {
            if node.level() != pos {
                ctx.fail("leveliter-node-level", &format!("{dir} iteration: node of level {} in the view at position {pos}", node.level()));
                break;
            }
        }
    }
}

fn op_iter<M: Manager>(m: &M, pat: &str, ctx: &mut Ctx) -> String {
    let mut it = m.levels();
    let mut out = vec![it.len().to_string()];
    for c in pat.chars() {
        let item = if c == 'f' { it.next() } else { it.next_back() };
        let s = match &item {
            Some(v) => v.level_no().to_string(),
            None => "-".into(),
        };
        drop(item);
        out.push(format!("{}/{}", s, it.len()));
        ctx.count(if c == 'f' { "iter.next" } else { "iter.next_back" });
    }
    out.join(" ")
}

fn op_maps<M: Manager>(m: &M) -> String {
    let n = m.num_levels();
    format!("l2v {} v2l {}", join((0..n).map(|l| m.level_to_var(l)), ","), join((0..n).map(|v| m.var_to_level(v)), ","))
}

fn op_names<M: Manager>(m: &M) -> String {
    let n = m.num_vars();
    let names: Vec<String> = (0..n).map(|v| m.var_name(v).to_string()).collect();
    let mut idx: BTreeMap<String, u32> = BTreeMap::new();
    for nm in &names {
        if !nm.is_empty() {
            if let Some(v) = m.name_to_var(nm) {
                idx.insert(enc(nm), v);
            }
        }
    }
    let idx_s = if idx.is_empty() { ".".to_string() } else { idx.iter().map(|(k, v)| format!("{k}={v}")).collect::<Vec<_>>().join(",") };
    format!("{} {} {} {} {}", m.num_levels(), n, m.num_named_vars(), enc_batch(&names), idx_s)
}

fn op_terms<M: Manager>(m: &M) -> String
where
    M::Terminal: Countable,
{
    let mut out = vec![m.num_terminals().to_string()];
    for e in m.terminals() {
        match m.get_node(&e) {
            Node::Terminal(t) => {
                let t: &M::Terminal = t.borrow();
                out.push(t.as_usize().to_string())
            }
            Node::Inner(_) => out.push("inner".into()),
        }
        m.drop_edge(e);
    }
    out.join(" ")
}

fn term_value<M: Manager>(m: &M, e: &M::Edge) -> String
where
    M::Terminal: Countable,
{
    match m.get_node(e) {
        Node::Terminal(t) => {
            let t: &M::Terminal = t.borrow();
            t.as_usize().to_string()
        }
        Node::Inner(_) => "inner".into(),
    }
}

/// independent node count: a walk with a hash set of node ids (edge tags are not part of the id)
fn walk_count<M: Manager>(m: &M, e: &M::Edge, seen: &mut HashSet<usize>) {
    if !seen.insert(e.node_id()) {
        return;
    }
    if let Node::Inner(n) = m.get_node(e) {
        for c in n.children() {
            walk_count(m, &c, seen);
        }
    }
}

// ------------------------------------------------------------------------------------ one scenario per kind

trait KindSc {
    fn step_kind(&mut self, w: &[&str], ctx: &mut Ctx) -> String;
}

macro_rules! kind_scenario {
    ($sc:ident, $mref:ty, $func:ty, new = $new:expr, var = $var:expr, consts = $consts:expr, taut = $taut:expr, big = $big:expr) => {
        struct $sc {
            mref: $mref,
            handles: Vec<Option<$func>>,
            names: RefNames,
        }
        impl $sc {
            fn new() -> Self {
                let new: fn() -> $mref = $new;
                $sc { mref: new(), handles: Vec::new(), names: RefNames::default() }
            }
            fn audit(&self, ctx: &mut Ctx) {
                let names = &self.names;
                self.mref.with_manager_shared(|m| audit(m, names, ctx));
            }
        }
        impl KindSc for $sc {
            fn step_kind(&mut self, w: &[&str], ctx: &mut Ctx) -> String {
                let out = match w {
                    ["addvars", k] => match num(k) {
                        Some(k) if k <= 4096 => {
                            let r = self.mref.with_manager_exclusive(|m| m.add_vars(k));
                            let want = self.names.add(&vec![String::new(); k as usize]);
                            let got = Ok((r.start, r.end));
                            if got != want {
                                ctx.fail("addvars-result", &format!("add_vars({k}) = {}, reference {}", show_add(&got), show_add(&want)));
                            }
                            ctx.count(if k == 0 { "addvars.zero" } else { "addvars" });
                            show_add(&got)
                        }
                        _ => return "bad-op".into(),
                    },
                    ["addnamed", b] => match dec_batch(b) {
                        Some(l) => {
                            let got = conv_add(self.mref.with_manager_exclusive(|m| m.add_named_vars(l.iter().cloned())));
                            let want = self.names.add(&l);
                            if got != want {
                                ctx.fail("addnamed-result", &format!("add_named_vars = {}, reference {}", show_add(&got), show_add(&want)));
                            }
                            ctx.count(match &got {
                                Ok((s, e)) if s == e => "addnamed.empty",
                                Ok(_) => "addnamed.ok",
                                Err((_, _, s, e)) if s == e => "addnamed.dup-first",
                                Err(_) => "addnamed.dup-later",
                            });
                            show_add(&got)
                        }
                        None => return "bad-op".into(),
                    },
                    ["frommap", b] => match dec_batch(b) {
                        Some(l) => {
                            let mut map = VarNameMap::new();
                            let _ = map.add_named(l.iter().cloned());
                            let content: Vec<String> = (0..map.len()).map(|v| map.var_name(v).to_string()).collect();
                            let was_empty = self.names.0.is_empty();
                            let got = conv_add(self.mref.with_manager_exclusive(|m| m.add_named_vars_from_map(map)));
                            let want = self.names.add(&content);
                            if got != want {
                                ctx.fail("frommap-result", &format!("add_named_vars_from_map = {}, reference {}", show_add(&got), show_add(&want)));
                            }
                            ctx.count(match (was_empty, content.is_empty()) {
                                (true, true) => "frommap.fast.empty",
                                (true, false) => "frommap.fast",
                                (false, true) => "frommap.slow.empty",
                                (false, false) => "frommap.slow",
                            });
                            show_add(&got)
                        }
                        None => return "bad-op".into(),
                    },
                    ["setname", v, t] => match (num(v), dec(t)) {
                        (Some(v), Some(n)) if (v as usize) < self.names.0.len() => {
                            let got = match self.mref.with_manager_exclusive(|m| m.set_var_name(v, n.clone())) {
                                Ok(()) => Ok(()),
                                Err(e) => Err((e.name, e.present_var, e.added_vars.start, e.added_vars.end)),
                            };
                            let want = self.names.set(v, &n);
                            if got != want {
                                ctx.fail("setname-result", &format!("set_var_name({v}, {n:?}) = {got:?}, reference {want:?}"));
                            }
                            ctx.count(if got.is_ok() { "setname.ok" } else { "setname.dup" });
                            match &got {
                                Ok(()) => "ok".into(),
                                Err((n, p, s, e)) => format!("DUP {} {p} {s}..{e}", enc(n)),
                            }
                        }
                        _ => return "bad-op".into(),
                    },
                    ["names"] => self.mref.with_manager_shared(|m| op_names(m)),
                    ["lookup", t] => match dec(t) {
                        Some(n) => match self.mref.with_manager_shared(|m| m.name_to_var(&n)) {
                            Some(v) => v.to_string(),
                            None => "none".into(),
                        },
                        None => return "bad-op".into(),
                    },
                    ["order", rest @ ..] => {
                        let n = self.names.0.len() as u32;
                        let mut order = Vec::new();
                        for t in rest {
                            match num(t) {
                                Some(v) if v < n && !order.contains(&v) => order.push(v),
                                _ => return "bad-op".into(),
                            }
                        }
                        self.mref.with_manager_exclusive(|m| {
                            m.gc();
                            oxidd_reorder::set_var_order(m, &order);
                            if !order.iter().is_sorted_by_key(|&v| m.var_to_level(v)) {
                                ctx.fail("order-not-established", &format!("after set_var_order({order:?}) the levels of these variables are not increasing"));
                            }
                        });
                        ctx.count(if order.len() as u32 == n { "order.full" } else { "order.partial" });
                        "ok".into()
                    }
                    ["maps"] => self.mref.with_manager_shared(|m| op_maps(m)),
                    ["iter", pat] if pat.bytes().all(|b| b == b'f' || b == b'b') => self.mref.with_manager_shared(|m| op_iter(m, pat, ctx)),
                    ["counters"] => self.mref.with_manager_shared(|m| format!("gc {} reorder {}", m.gc_count(), m.reorder_count())),
                    ["gc"] => {
                        self.mref.with_manager_shared(|m| m.gc());
                        "ok".into()
                    }
                    ["mkvar", v] => match num(v) {
                        Some(v) if (v as usize) < self.names.0.len() => {
                            let var: Option<fn(&$mref, u32) -> $func> = $var;
                            match var {
                                Some(f) => {
                                    self.handles.push(Some(f(&self.mref, v)));
                                    "ok".into()
                                }
                                None => return "bad-op".into(),
                            }
                        }
                        _ => return "bad-op".into(),
                    },
                    ["drop", i] => match num(i) {
                        Some(i) if (i as usize) < self.handles.len() && self.handles[i as usize].is_some() => {
                            self.handles[i as usize] = None;
                            "ok".into()
                        }
                        _ => return "bad-op".into(),
                    },
                    ["levelgc", l] => match num(l) {
                        Some(l) if (l as usize) < self.names.0.len() => {
                            self.mref.with_manager_shared(|m| m.level(l).gc());
                            "ok".into()
                        }
                        _ => return "bad-op".into(),
                    },
                    ["nodes"] => self.mref.with_manager_shared(|m| m.num_inner_nodes().to_string()),
                    ["taut"] => {
                        let taut: Option<fn(&$mref) -> usize> = $taut;
                        match taut {
                            Some(f) => {
                                let cnt = f(&self.mref);
                                // the chain built by `post_reorder_mut`: one node per level plus the terminal
                                let n = self.names.0.len();
                                if cnt != n + 1 {
                                    ctx.fail("zbdd-taut-chain", &format!("the tautology has {cnt} nodes in a manager with {n} levels (expected {})", n + 1));
                                }
                                cnt.to_string()
                            }
                            None => return "bad-op".into(),
                        }
                    }
                    ["terms"] => {
                        let out = self.mref.with_manager_shared(|m| op_terms(m));
                        // `terminals()` of a static terminal manager enumerates the values 0, 1, … in order
                        let vals: Vec<&str> = out.split(' ').collect();
                        let want: Vec<String> = (0..vals.len().saturating_sub(1)).map(|i| i.to_string()).collect();
                        if vals[0] != want.len().to_string() || vals[1..].iter().zip(&want).any(|(a, b)| a != b) {
                            ctx.fail("terminal-decode", &format!("terminals() decodes to `{out}`"));
                        }
                        out
                    }
                    ["consts"] => {
                        let consts: fn(&$mref) -> Vec<$func> = $consts;
                        let fs = consts(&self.mref);
                        let out: Vec<String> = fs.iter().map(|f| f.with_manager_shared(|m, e| term_value(m, e))).collect();
                        out.join(" ")
                    }
                    ["bigcount", n] => match num(n) {
                        Some(n) if 1 <= n && n <= 18 => {
                            let big: Option<fn(u32, &mut Ctx) -> String> = $big;
                            match big {
                                Some(f) => f(n, ctx),
                                None => return "bad-op".into(),
                            }
                        }
                        _ => return "bad-op".into(),
                    },
                    _ => return "bad-op".into(),
                };
                self.audit(ctx);
                out
            }
        }
    };
}

/// `⋁_{i<n} x_i ∧ x_{n+i}` under the order `x_0 … x_{2n-1}`; compares `node_count()` with an
/// independent walk; returns the count
macro_rules! big_fn {
    ($name:ident, $func:ty, $new:expr) => {
        fn $name(n: u32, ctx: &mut Ctx) -> usize {
            let mref = $new;
            mref.with_manager_exclusive(|m| {
                m.add_vars(2 * n);
            });
            let vars: Vec<$func> = mref.with_manager_shared(|m| (0..2 * n).map(|v| <$func>::var(m, v).unwrap()).collect());
            let mut acc = vars[0].and(&vars[n as usize]).unwrap();
            for i in 1..n as usize {
                let t = vars[i].and(&vars[n as usize + i]).unwrap();
                acc = acc.or(&t).unwrap();
            }
            drop(vars);
            let cnt = acc.node_count();
            let walk = acc.with_manager_shared(|m, e| {
                let mut seen = HashSet::new();
                walk_count(m, e, &mut seen);
                seen.len()
            });
            if cnt != walk {
                ctx.fail("node-count", &format!("node_count() = {cnt} but an independent walk finds {walk} nodes (n = {n})"));
            }
            let (inner, sum) = mref.with_manager_shared(|m| {
                m.gc();
                (m.num_inner_nodes(), m.levels().map(|l| l.len()).sum::<usize>())
            });
            if inner != sum || inner + (walk - inner.min(walk)) != walk {
                ctx.fail("num-inner-nodes", &format!("after gc: num_inner_nodes() = {inner}, level tables hold {sum}, the function has {walk} nodes incl. terminals"));
            }
            ctx.add("bigcount.nodes", cnt as u64);
            cnt
        }
    };
}

big_fn!(big_bdd, oxidd::bdd::BDDFunction, oxidd::bdd::new_manager(1 << 20, 1 << 16, 1));
big_fn!(big_bcdd, oxidd::bcdd::BCDDFunction, oxidd::bcdd::new_manager(1 << 20, 1 << 16, 1));
big_fn!(big_tdd, oxidd::tdd::TDDFunction, oxidd::tdd::new_manager(1 << 20, 1 << 16, 1));

kind_scenario!(
    ScBdd,
    oxidd::bdd::BDDManagerRef,
    oxidd::bdd::BDDFunction,
    new = || oxidd::bdd::new_manager(1 << 16, 1 << 10, 1),
    var = Some(|r, v| r.with_manager_shared(|m| oxidd::bdd::BDDFunction::var(m, v).unwrap())),
    consts = |r| r.with_manager_shared(|m| vec![oxidd::bdd::BDDFunction::f(m), oxidd::bdd::BDDFunction::t(m)]),
    taut = None,
    big = Some(|n, ctx| format!("count {}", big_bdd(n, ctx)))
);
kind_scenario!(
    ScBcdd,
    oxidd::bcdd::BCDDManagerRef,
    oxidd::bcdd::BCDDFunction,
    new = || oxidd::bcdd::new_manager(1 << 16, 1 << 10, 1),
    var = Some(|r, v| r.with_manager_shared(|m| oxidd::bcdd::BCDDFunction::var(m, v).unwrap())),
    consts = |r| r.with_manager_shared(|m| vec![oxidd::bcdd::BCDDFunction::f(m), oxidd::bcdd::BCDDFunction::t(m)]),
    taut = None,
    big = Some(|n, ctx| format!("count {}", big_bcdd(n, ctx)))
);
kind_scenario!(
    ScZbdd,
    oxidd::zbdd::ZBDDManagerRef,
    oxidd::zbdd::ZBDDFunction,
    new = || oxidd::zbdd::new_manager(1 << 16, 1 << 10, 1),
    var = None,
    consts = |r| r.with_manager_shared(|m| vec![oxidd::zbdd::ZBDDFunction::f(m)]),
    taut = Some(|r| r.with_manager_shared(|m| oxidd::zbdd::ZBDDFunction::t(m)).node_count()),
    big = None
);
kind_scenario!(
    ScTdd,
    oxidd::tdd::TDDManagerRef,
    oxidd::tdd::TDDFunction,
    new = || oxidd::tdd::new_manager(1 << 16, 1 << 10, 1),
    var = Some(|r, v| r.with_manager_shared(|m| oxidd::tdd::TDDFunction::var(m, v).unwrap())),
    consts = |r| r.with_manager_shared(|m| vec![oxidd::tdd::TDDFunction::f(m), oxidd::tdd::TDDFunction::u(m), oxidd::tdd::TDDFunction::t(m)]),
    taut = None,
    big = Some(|n, ctx| {
        // three-valued diagrams of this function grow like 3^n: keep them below a million nodes
        if n > 12 {
            return "bad-op".into();
        }
        big_tdd(n, ctx);
        "ok".into()
    })
);

struct Sc {
    cur: Option<Box<dyn KindSc>>,
}

impl Scenario for Sc {
    fn reset(&mut self) {
        self.cur = None;
    }
    fn step(&mut self, line: &str, ctx: &mut Ctx) -> String {
        let w = words(line);
        if let ["kind", k] = w[..] {
            if self.cur.is_some() {
                return "bad-op".into();
            }
            let sc: Box<dyn KindSc> = match k {
                "bdd" => Box::new(ScBdd::new()),
                "bcdd" => Box::new(ScBcdd::new()),
                "zbdd" => Box::new(ScZbdd::new()),
                "tdd" => Box::new(ScTdd::new()),
                _ => return "bad-op".into(),
            };
            self.cur = Some(sc);
            ctx.count(&format!("kind.{k}"));
            return "ok".into();
        }
        match &mut self.cur {
            Some(sc) => sc.step_kind(&w, ctx),
            None => "bad-op".into(),
        }
    }
}

// ------------------------------------------------------------------------------------ generator

const POOL: [&str; 10] = ["a", "b", "c", "d", "e", "x0", "x1", "y_2", "long_name_3", "q"];

fn gen_batch(rng: &mut Rng, fresh: &mut u32, max: u64) -> Vec<String> {
    let k = rng.below(max + 1);
    (0..k)
        .map(|_| match rng.below(10) {
            0..=1 => String::new(),
            2..=4 => rng.pick(&POOL).to_string(),
            _ => {
                *fresh += 1;
                format!("n{}", *fresh)
            }
        })
        .collect()
}

/// The generator keeps an exact copy of the name bookkeeping (the reference semantics) so that
/// every index it emits is in range.
struct G<'a> {
    rng: &'a mut Rng,
    names: RefNames,
    handles: Vec<bool>,
    fresh: u32,
    zbdd: bool,
}

impl G<'_> {
    fn n(&self) -> u32 {
        self.names.0.len() as u32
    }
    fn batch(&mut self, max: u64) -> Vec<String> {
        gen_batch(self.rng, &mut self.fresh, max)
    }
    fn perm(&mut self, k: u32) -> Vec<u32> {
        let mut p: Vec<u32> = (0..self.n()).collect();
        self.rng.shuffle(&mut p);
        p.truncate(k as usize);
        p
    }
    fn observe(&mut self, w: &mut dyn Write) {
        match self.rng.below(8) {
            0 => writeln!(w, "maps").unwrap(),
            1 => writeln!(w, "names").unwrap(),
            2 => writeln!(w, "counters").unwrap(),
            3 => {
                let n = self.n() as u64;
                let len = self.rng.range(0, n + 2);
                let pat: String = (0..len).map(|_| if self.rng.chance(1, 2) { 'f' } else { 'b' }).collect();
                if pat.is_empty() { writeln!(w, "iter f").unwrap() } else { writeln!(w, "iter {pat}").unwrap() }
            }
            4 => writeln!(w, "nodes").unwrap(),
            5 => {
                if self.zbdd {
                    writeln!(w, "taut").unwrap()
                } else {
                    writeln!(w, "terms").unwrap()
                }
            }
            6 => {
                let name = if self.rng.chance(1, 2) && self.n() > 0 {
                    let v = self.rng.below(self.n() as u64) as usize;
                    self.names.0[v].clone()
                } else {
                    self.rng.pick(&POOL).to_string()
                };
                writeln!(w, "lookup {}", enc(&name)).unwrap()
            }
            _ => writeln!(w, "consts").unwrap(),
        }
    }
    fn op(&mut self, w: &mut dyn Write) {
        let r = self.rng.below(100);
        match r {
            0..=9 => {
                let k = if self.rng.chance(1, 4) { 0 } else { self.rng.range(1, 4) };
                writeln!(w, "addvars {k}").unwrap();
                let _ = self.names.add(&vec![String::new(); k as usize]);
            }
            10..=24 => {
                let b = if self.rng.chance(1, 6) { Vec::new() } else { self.batch(4) };
                writeln!(w, "addnamed {}", enc_batch(&b)).unwrap();
                let _ = self.names.add(&b);
            }
            25..=36 => {
                let b = if self.rng.chance(1, 5) { Vec::new() } else { self.batch(4) };
                writeln!(w, "frommap {}", enc_batch(&b)).unwrap();
                // the map itself stops at its first duplicate
                let mut tmp = RefNames::default();
                let _ = tmp.add(&b);
                let _ = self.names.add(&tmp.0);
            }
            37..=46 if self.n() > 0 => {
                let v = self.rng.below(self.n() as u64) as u32;
                let name = match self.rng.below(4) {
                    0 => String::new(),
                    1 => self.names.0[self.rng.below(self.n() as u64) as usize].clone(),
                    2 => self.rng.pick(&POOL).to_string(),
                    _ => {
                        self.fresh += 1;
                        format!("r{}", self.fresh)
                    }
                };
                writeln!(w, "setname {v} {}", enc(&name)).unwrap();
                let _ = self.names.set(v, &name);
            }
            47..=64 if self.n() > 1 => {
                let k = if self.rng.chance(2, 3) { self.n() } else { self.rng.range(0, self.n() as u64) as u32 };
                let p = self.perm(k);
                if p.is_empty() {
                    writeln!(w, "order").unwrap();
                } else {
                    writeln!(w, "order {}", join(p, " ")).unwrap();
                }
            }
            65..=69 => writeln!(w, "gc").unwrap(),
            70..=79 if !self.zbdd && self.n() > 0 => {
                let v = self.rng.below(self.n() as u64);
                writeln!(w, "mkvar {v}").unwrap();
                self.handles.push(true);
            }
            80..=85 if self.handles.iter().any(|&h| h) => {
                let live: Vec<usize> = (0..self.handles.len()).filter(|&i| self.handles[i]).collect();
                let i = *self.rng.pick(&live);
                writeln!(w, "drop {i}").unwrap();
                self.handles[i] = false;
            }
            86..=90 if self.n() > 0 => {
                let l = self.rng.below(self.n() as u64);
                writeln!(w, "levelgc {l}").unwrap();
            }
            _ => self.observe(w),
        }
    }
}

fn generate(cfg: &GenCfg, rng: &mut Rng, w: &mut dyn Write) {
    let scale = cfg.scale.max(1);
    let cases = if cfg.thorough { 400 * scale } else { 60 * scale };
    let kinds = ["bdd", "bcdd", "zbdd", "tdd"];
    // fixed cases: the seeded defects' triggers, on every kind
    for (i, kind) in kinds.iter().enumerate() {
        writeln!(w, "case fixed {kind} {i}").unwrap();
        writeln!(w, "kind {kind}").unwrap();
        for l in [
            "terms", "consts", "counters", "iter fb", "frommap a|-|b", "maps", "names", "iter bbbb", "iter fbfb",
            "addnamed a|c", "addnamed .", "frommap .", "addvars 0", "names",
            "addvars 2", "addnamed c|d", "maps", "order 4 2 0 1 3 5 6", "maps", "counters", "order 1 0", "maps",
            "order 4 2 0 1 3 6 5", "order 0 1 2 3 4 5 6", "counters", "iter bfbfbfbfb", "addvars 3", "maps", "order 9 8 7", "maps", "iter bbbbbbbbbbb",
            "gc", "counters", "nodes", "levelgc 0", "nodes", "setname 1 zz", "setname 2 a", "setname 0 -", "names", "lookup a", "lookup zz",
        ] {
            writeln!(w, "{l}").unwrap();
        }
        if *kind == "zbdd" {
            writeln!(w, "taut").unwrap();
        } else {
            for l in ["mkvar 0", "mkvar 3", "mkvar 3", "nodes", "drop 1", "nodes", "drop 2", "nodes", "levelgc 0", "levelgc 3", "nodes", "order 3 0", "nodes", "gc", "nodes", "counters"] {
                writeln!(w, "{l}").unwrap();
            }
        }
    }
    // node sets over several pages
    let bigs: &[u32] = if cfg.thorough { &[3, 15, 16, 17] } else { &[2, 15, 16] };
    let bigs_tdd: &[u32] = if cfg.thorough { &[3, 10, 11, 12] } else { &[2, 10, 11] };
    for kind in ["bdd", "bcdd", "tdd"] {
        for &n in if kind == "tdd" { bigs_tdd } else { bigs } {
            writeln!(w, "case big {kind} {n}").unwrap();
            writeln!(w, "kind {kind}").unwrap();
            writeln!(w, "bigcount {n}").unwrap();
        }
    }
    for c in 0..cases {
        let kind = kinds[(c % 4) as usize];
        writeln!(w, "case rnd {kind} {c}").unwrap();
        writeln!(w, "kind {kind}").unwrap();
        let mut g = G { rng, names: RefNames::default(), handles: Vec::new(), fresh: 0, zbdd: kind == "zbdd" };
        let len = g.rng.range(5, if cfg.thorough { 60 } else { 40 });
        for _ in 0..len {
            g.op(w);
            if g.rng.chance(1, 3) {
                g.observe(w);
            }
        }
        writeln!(w, "maps").unwrap();
        writeln!(w, "names").unwrap();
        writeln!(w, "counters").unwrap();
        writeln!(w, "nodes").unwrap();
        if kind == "zbdd" {
            writeln!(w, "taut").unwrap();
        }
    }
}

fn make(_f: &BTreeMap<String, String>) -> Box<dyn Scenario> {
    Box::new(Sc { cur: None })
}

fn main() {
    harness_main(generate, make)
}
