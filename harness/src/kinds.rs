//! The three Boolean kinds (BDD, BCDD, ZBDD) for the `bf` scenario.

use std::collections::{HashMap, HashSet};

use oxidd::bcdd::BCDDFunction;
use oxidd::bdd::BDDFunction;
use oxidd::util::AllocResult;
use oxidd::zbdd::ZBDDFunction;
use oxidd::{
    BooleanFunction, BooleanFunctionQuant, BooleanOperator, BooleanVecSet, Edge, Function,
    FunctionSubst, HasLevel, InnerNode, Manager, ManagerRef, Node, Subst,
};
use oxidd_core::function::EdgeOfFunc;
use oxidd_core::{Countable, LevelView};
use oxidd_rules_bdd::complement_edge::EdgeTag;
use oxidd_rules_bdd::simple::BDDTerminal;
use oxidd_rules_zbdd::ZBDDTerminal;

use crate::Ctx;
use crate::bf::{AuditInfo, BIN_OPS, Bf, Kind, TT, bin_sem};

type Mgr<'id, F> = <F as Function>::Manager<'id>;

// ------------------------------------------------------------------------------------------------
// generic structural audit (C03) through the public API

/// `rule(manager, node, level)` checks the kind's reduction rule and edge-tag discipline
fn audit_generic<M: Manager>(m: &M, tree: impl Fn(&M::Edge) -> String, rule: impl Fn(&M, &M::InnerNode) -> Result<(), String>) -> Result<AuditInfo, String>
where
    M::InnerNode: HasLevel,
{
    let n = m.num_levels();
    if m.num_vars() != n {
        return Err(format!("num_vars {} != num_levels {}", m.num_vars(), n));
    }
    for l in 0..n {
        let v = m.level_to_var(l);
        if v >= n || m.var_to_level(v) != l {
            return Err(format!("var_to_level(level_to_var({l})) != {l}"));
        }
    }
    for v in 0..n {
        if m.level_to_var(m.var_to_level(v)) != v {
            return Err(format!("level_to_var(var_to_level({v})) != {v}"));
        }
    }
    let mut inner = 0usize;
    let mut nodes = Vec::new();
    let mut seen_levels = 0;
    for view in m.levels() {
        let l = view.level_no();
        seen_levels += 1;
        let mut dups: HashSet<Vec<(usize, usize)>> = HashSet::new();
        if view.len() != view.iter().count() {
            return Err(format!("level {l}: len() = {} but the iterator yields {} nodes", view.len(), view.iter().count()));
        }
        for e in view.iter() {
            inner += 1;
            let node = match m.get_node(e) {
                Node::Inner(n) => n,
                Node::Terminal(_) => return Err(format!("level {l} lists a terminal")),
            };
            if !node.check_level(|x| x == l) {
                return Err(format!("level {l} lists a node that reports level {}", node.level()));
            }
            let mut key = Vec::new();
            for c in node.children() {
                match m.get_node(&c) {
                    Node::Inner(cn) => {
                        if cn.level() <= l {
                            return Err(format!("node {} at level {l} has a child at level {}", tree(e), cn.level()));
                        }
                    }
                    Node::Terminal(_) => {}
                }
                key.push((c.node_id(), tag_usize(&*c)));
            }
            if !dups.insert(key) {
                return Err(format!("level {l}: two nodes with identical children ({})", tree(e)));
            }
            rule(m, node)?;
            nodes.push((l, tree(e), node.ref_count()));
        }
    }
    if seen_levels != n {
        return Err(format!("levels() yields {seen_levels} levels, num_levels() = {n}"));
    }
    Ok(AuditInfo { inner, nodes })
}

fn tag_usize<E: Edge>(e: &E) -> usize {

    e.tag().as_usize()
}

// ------------------------------------------------------------------------------------------------
// reference construction of reduced diagrams from truth tables (independent of the library)

#[derive(Clone, Copy, PartialEq, Eq)]
pub enum RefKind {
    Bdd,
    Bcdd,
    Zbdd,
}

/// number of nodes (inner + reachable terminals) of the reduced diagram of `t` under `l2v`
pub fn ref_count(kind: RefKind, t: &TT, l2v: &[u32]) -> usize {
    // ids: 0 and 1 are terminals (BCDD: only 0)
    let mut table: HashMap<(u32, usize, bool, usize, bool), usize> = HashMap::new();
    let mut used_terms: HashSet<usize> = HashSet::new();
    fn go(kind: RefKind, t: &TT, l2v: &[u32], l: usize, fixed: usize, table: &mut HashMap<(u32, usize, bool, usize, bool), usize>, memo: &mut HashMap<(usize, usize), (usize, bool)>) -> (usize, bool) {
        // the sub-function is determined by (level, the fixed bits of the variables above)
        if l == l2v.len() {
            let v = t.get(fixed);
            return match kind {
                RefKind::Bdd | RefKind::Zbdd => (v as usize, false),
                RefKind::Bcdd => (0, !v),
            };
        }
        let mask: usize = l2v[..l].iter().map(|&v| 1usize << v).sum();
        if let Some(r) = memo.get(&(l, fixed & mask)) {
            return *r;
        }
        let v = l2v[l];
        let hi = go(kind, t, l2v, l + 1, fixed | (1 << v), table, memo);
        let lo = go(kind, t, l2v, l + 1, fixed & !(1 << v), table, memo);
        let next = table.len() + 2;
        let r = match kind {
            RefKind::Bdd => {
                if hi == lo {
                    hi
                } else {
                    (*table.entry((l as u32, hi.0, false, lo.0, false)).or_insert(next), false)
                }
            }
            RefKind::Zbdd => {
                if hi == (0, false) {
                    lo
                } else {
                    (*table.entry((l as u32, hi.0, false, lo.0, false)).or_insert(next), false)
                }
            }
            RefKind::Bcdd => {
                if hi == lo {
                    hi
                } else if hi.1 {
                    (*table.entry((l as u32, hi.0, false, lo.0, !lo.1)).or_insert(next), true)
                } else {
                    (*table.entry((l as u32, hi.0, false, lo.0, lo.1)).or_insert(next), false)
                }
            }
        };
        memo.insert((l, fixed & mask), r);
        r
    }
    let mut memo = HashMap::new();
    let root = go(kind, t, l2v, 0, 0, &mut table, &mut memo);
    // count reachable nodes
    let inv: HashMap<usize, (u32, usize, bool, usize, bool)> = table.iter().map(|(k, v)| (*v, *k)).collect();
    let mut seen = HashSet::new();
    let mut stack = vec![root.0];
    while let Some(id) = stack.pop() {
        if !seen.insert(id) {
            continue;
        }
        if let Some(k) = inv.get(&id) {
            stack.push(k.1);
            stack.push(k.3);
        } else {
            used_terms.insert(id);
        }
    }
    seen.len()
}

// ------------------------------------------------------------------------------------------------
// BDD

pub struct KBdd;

fn bdd_tree<'id>(m: &Mgr<'id, BDDFunction>, e: &EdgeOfFunc<'id, BDDFunction>) -> String {
    match m.get_node(e) {
        Node::Terminal(t) => (if *std::borrow::Borrow::<BDDTerminal>::borrow(&t) == BDDTerminal::True { "T" } else { "F" }).into(),
        Node::Inner(n) => {
            let v = m.level_to_var(n.level());
            format!("(v{} {} {})", v, bdd_tree(m, &n.child(0)), bdd_tree(m, &n.child(1)))
        }
    }
}

impl Kind for KBdd {
    type F = BDDFunction;
    const NAME: &'static str = "bdd";
    fn new_manager(nodes: usize, cache: usize, threads: u32) -> <Self::F as Function>::ManagerRef {
        oxidd::bdd::new_manager(nodes, cache, threads)
    }
    fn tree<'id>(m: &Mgr<'id, Self::F>, e: &EdgeOfFunc<'id, Self::F>) -> String {
        bdd_tree(m, e)
    }
    fn walk_eval<'id>(m: &Mgr<'id, Self::F>, e: &EdgeOfFunc<'id, Self::F>, a: usize) -> bool {
        match m.get_node(e) {
            Node::Terminal(t) => *std::borrow::Borrow::<BDDTerminal>::borrow(&t) == BDDTerminal::True,
            Node::Inner(n) => {
                let v = m.level_to_var(n.level());
                let c = if (a >> v) & 1 != 0 { n.child(0) } else { n.child(1) };
                Self::walk_eval(m, &c, a)
            }
        }
    }
    fn audit<'id>(m: &Mgr<'id, Self::F>) -> Result<AuditInfo, String> {
        audit_generic(m, |e| bdd_tree(m, e), |_m, node| {
            if node.child(0) == node.child(1) {
                return Err("BDD node with identical children (not reduced)".into());
            }
            Ok(())
        })
    }
    fn reorder(mref: &<Self::F as Function>::ManagerRef, order: &[u32], seq: bool) {
        mref.with_manager_exclusive(|m| if seq { oxidd_reorder::set_var_order_seq(m, order) } else { oxidd_reorder::set_var_order(m, order) })
    }
    fn set_split_depth(mref: &<Self::F as Function>::ManagerRef, depth: Option<u32>) {
        use oxidd::{HasWorkers, WorkerPool};
        mref.with_manager_shared(|m| m.workers().set_split_depth(depth));
    }
    fn extend_tt(t: &TT, n2: u32) -> TT {
        t.extend(n2)
    }
    fn ref_node_count(t: &TT, l2v: &[u32]) -> usize {
        ref_count(RefKind::Bdd, t, l2v)
    }
    fn ext(sc: &mut Bf<Self>, w: &[&str], ctx: &mut Ctx) -> Option<String> {
        quant_subst_ext(sc, w, ctx)
    }
}

// ------------------------------------------------------------------------------------------------
// BCDD

pub struct KBcdd;

fn bcdd_tree<'id>(m: &Mgr<'id, BCDDFunction>, e: &EdgeOfFunc<'id, BCDDFunction>) -> String {
    let neg = if e.tag() == EdgeTag::Complemented { "~" } else { "" };
    match m.get_node(e) {
        Node::Terminal(_) => format!("{neg}T"),
        Node::Inner(n) => {
            let v = m.level_to_var(n.level());
            format!("{neg}(v{} {} {})", v, bcdd_tree(m, &n.child(0)), bcdd_tree(m, &n.child(1)))
        }
    }
}

impl Kind for KBcdd {
    type F = BCDDFunction;
    const NAME: &'static str = "bcdd";
    fn new_manager(nodes: usize, cache: usize, threads: u32) -> <Self::F as Function>::ManagerRef {
        oxidd::bcdd::new_manager(nodes, cache, threads)
    }
    fn tree<'id>(m: &Mgr<'id, Self::F>, e: &EdgeOfFunc<'id, Self::F>) -> String {
        bcdd_tree(m, e)
    }
    fn walk_eval<'id>(m: &Mgr<'id, Self::F>, e: &EdgeOfFunc<'id, Self::F>, a: usize) -> bool {
        let neg = e.tag() == EdgeTag::Complemented;
        match m.get_node(e) {
            Node::Terminal(_) => !neg,
            Node::Inner(n) => {
                let v = m.level_to_var(n.level());
                let c = if (a >> v) & 1 != 0 { n.child(0) } else { n.child(1) };
                Self::walk_eval(m, &c, a) != neg
            }
        }
    }
    fn audit<'id>(m: &Mgr<'id, Self::F>) -> Result<AuditInfo, String> {
        audit_generic(m, |e| bcdd_tree(m, e), |_m, node| {
            let (t, e) = (node.child(0), node.child(1));
            if t == e {
                return Err("BCDD node with identical children (not reduced)".into());
            }
            if t.tag() != EdgeTag::None {
                return Err("BCDD node whose then-edge is complemented".into());
            }
            Ok(())
        })
    }
    fn reorder(mref: &<Self::F as Function>::ManagerRef, order: &[u32], seq: bool) {
        mref.with_manager_exclusive(|m| if seq { oxidd_reorder::set_var_order_seq(m, order) } else { oxidd_reorder::set_var_order(m, order) })
    }
    fn set_split_depth(mref: &<Self::F as Function>::ManagerRef, depth: Option<u32>) {
        use oxidd::{HasWorkers, WorkerPool};
        mref.with_manager_shared(|m| m.workers().set_split_depth(depth));
    }
    fn extend_tt(t: &TT, n2: u32) -> TT {
        t.extend(n2)
    }
    fn ref_node_count(t: &TT, l2v: &[u32]) -> usize {
        ref_count(RefKind::Bcdd, t, l2v)
    }
    fn ext(sc: &mut Bf<Self>, w: &[&str], ctx: &mut Ctx) -> Option<String> {
        quant_subst_ext(sc, w, ctx)
    }
}

// ------------------------------------------------------------------------------------------------
// quantification / apply-and-quantify / substitution (BDD and BCDD)

fn bool_op(op: &str) -> Option<BooleanOperator> {
    Some(match op {
        "and" => BooleanOperator::And,
        "or" => BooleanOperator::Or,
        "nand" => BooleanOperator::Nand,
        "nor" => BooleanOperator::Nor,
        "xor" => BooleanOperator::Xor,
        "equiv" => BooleanOperator::Equiv,
        "imp" => BooleanOperator::Imp,
        "imp_strict" => BooleanOperator::ImpStrict,
        _ => return None,
    })
}

/// iterated ∧ / ∨ / ⊕ of the two cofactors for each listed variable
pub fn quant_tt(q: &str, t: &TT, vars: &[u32]) -> TT {
    let mut r = t.clone();
    for &v in vars {
        let (a, b) = (r.cofactor(v, true), r.cofactor(v, false));
        r = match q {
            "forall" => a.map2(&b, |x, y| x && y),
            "exists" => a.map2(&b, |x, y| x || y),
            "unique" => a.map2(&b, |x, y| x ^ y),
            _ => unreachable!(),
        };
    }
    r
}

fn quant_subst_ext<K>(sc: &mut Bf<K>, w: &[&str], ctx: &mut Ctx) -> Option<String>
where
    K: Kind,
    K::F: BooleanFunctionQuant + FunctionSubst,
{
    let line = w.join(" ");
    match w[0] {
        "quant" => {
            // quant h forall|exists|unique f hvars
            let (f, t) = sc.get(w[3]).map(|(f, t)| (f.clone(), t.clone()))?;
            let (vs, tv) = sc.get(w[4]).map(|(f, t)| (f.clone(), t.clone()))?;
            let lits = tv.cube_literals()?;
            if lits.iter().any(|l| !l.1) {
                return None; // variable sets are positive cubes
            }
            let vars: Vec<u32> = lits.iter().map(|l| l.0).collect();
            let r = match w[2] {
                "forall" => f.forall(&vs),
                "exists" => f.exists(&vs),
                "unique" => f.unique(&vs),
                _ => return None,
            };
            let e = quant_tt(w[2], &t, &vars);
            Some(sc.put(w[1], r, Some(e), ctx, &line))
        }
        "applyq" => {
            // applyq h forall|exists|unique <op> f g hvars
            let op = bool_op(w[3])?;
            let (f, tf) = sc.get(w[4]).map(|(f, t)| (f.clone(), t.clone()))?;
            let (g, tg) = sc.get(w[5]).map(|(f, t)| (f.clone(), t.clone()))?;
            let (vs, tv) = sc.get(w[6]).map(|(f, t)| (f.clone(), t.clone()))?;
            let lits = tv.cube_literals()?;
            if lits.iter().any(|l| !l.1) {
                return None;
            }
            let vars: Vec<u32> = lits.iter().map(|l| l.0).collect();
            let r = match w[2] {
                "forall" => f.apply_forall(op, &g, &vs),
                "exists" => f.apply_exists(op, &g, &vs),
                "unique" => f.apply_unique(op, &g, &vs),
                _ => return None,
            };
            let inner = tf.map2(&tg, bin_sem(w[3])?);
            let e = quant_tt(w[2], &inner, &vars);
            Some(sc.put(w[1], r, Some(e), ctx, &line))
        }
        "mksubst" => {
            // mksubst <sid> v=h ...   creates a substitution object that can be reused
            let sid = w[1].to_string();
            let mut vars = Vec::new();
            let mut reps = Vec::new();
            let mut tts = Vec::new();
            for p in &w[2..] {
                let (v, h) = p.split_once('=')?;
                let (f, t) = sc.get(h)?;
                vars.push(v.parse::<u32>().ok()?);
                reps.push(f.clone());
                tts.push(t.clone());
            }
            let s: Subst<K::F> = Subst::new(vars.clone(), reps);
            sc.state.insert(format!("subst-{sid}"), Box::new((s, vars, tts)));
            Some("ok".into())
        }
        "subst" => {
            // subst h f <sid>
            let (f, t) = sc.get(w[2]).map(|(f, t)| (f.clone(), t.clone()))?;
            let key = format!("subst-{}", w[3]);
            let b = sc.state.remove(&key)?;
            let b: Box<(Subst<K::F>, Vec<u32>, Vec<TT>)> = b.downcast().ok()?;
            let r = f.substitute(&b.0);
            let n = sc.n;
            // simultaneous substitution: f evaluated at σ[v ↦ r_v(σ)]
            let (vars, tts) = (&b.1, &b.2);
            // replacement tables may predate add_vars: extend
            let tts: Vec<TT> = tts.iter().map(|x| if x.n < n { K::extend_tt(x, n) } else { x.clone() }).collect();
            let e = TT::from_fn(n, |a| {
                let mut a2 = a;
                for (i, &v) in vars.iter().enumerate() {
                    if tts[i].get(a) {
                        a2 |= 1 << v;
                    } else {
                        a2 &= !(1 << v);
                    }
                }
                t.get(a2)
            });
            let out = sc.put(w[1], r, Some(e), ctx, &line);
            sc.state.insert(key, b);
            Some(out)
        }
        "substids" => {
            // substids <threads> <iters> f v : <threads> threads create substitution objects at the
            // same time (spin barrier per iteration); identifiers must be pairwise distinct (they
            // are the apply-cache key of `substitute`), and two substitutions that received the
            // same identifier are applied to f one after the other to show the wrong result
            let threads: usize = w[1].parse().ok()?;
            let iters: usize = w[2].parse().ok()?;
            let (f, tf) = sc.get(w[3]).map(|(f, t)| (f.clone(), t.clone()))?;
            let v: u32 = w[4].parse().ok()?;
            // replacement of thread t: distinct functions from the handle table (sorted by name)
            let mut names: Vec<&String> = sc.h.keys().collect();
            names.sort();
            let reps: Vec<(K::F, TT)> = names.iter().take(threads.max(2)).map(|k| (sc.h[*k].clone(), sc.tt[*k].clone())).collect();
            if reps.len() < 2 {
                return None;
            }
            use oxidd_core::util::Substitution;
            use std::sync::atomic::{AtomicUsize, Ordering};
            let gate = AtomicUsize::new(0);
            let made: Vec<Vec<Subst<K::F>>> = std::thread::scope(|scope| {
                let hs: Vec<_> = (0..threads)
                    .map(|t| {
                        let rep = reps[t % reps.len()].0.clone();
                        let gate = &gate;
                        scope.spawn(move || {
                            let mut out = Vec::with_capacity(iters);
                            for i in 0..iters {
                                // spin barrier: all threads enter iteration i together
                                gate.fetch_add(1, Ordering::AcqRel);
                                while gate.load(Ordering::Acquire) < (i + 1) * threads {
                                    std::hint::spin_loop();
                                }
                                out.push(Subst::new(vec![v], vec![rep.clone()]));
                            }
                            out
                        })
                    })
                    .collect();
                hs.into_iter().map(|h| h.join().unwrap()).collect()
            });
            let mut seen: std::collections::HashMap<u32, (usize, usize)> = std::collections::HashMap::new();
            let mut dup: Option<((usize, usize), (usize, usize))> = None;
            let mut ndup = 0;
            for (t, ss) in made.iter().enumerate() {
                for (i, s_) in ss.iter().enumerate() {
                    if let Some(&prev) = seen.get(&(&*s_).id()) {
                        ndup += 1;
                        if dup.is_none() && reps[prev.0 % reps.len()].1 != reps[t % reps.len()].1 {
                            dup = Some((prev, (t, i)));
                        }
                    } else {
                        seen.insert((&*s_).id(), (t, i));
                    }
                }
            }
            ctx.add("substids_created", (threads * iters) as u64);
            if ndup > 0 {
                let mut msg = format!("{} of {} substitution objects created concurrently by {} threads received an identifier that another live substitution already has", ndup, threads * iters, threads);
                if let Some(((t1, i1), (t2, i2))) = dup {
                    let n = sc.n;
                    let expect = |rt: &TT| {
                        TT::from_fn(n, |a| {
                            let a2 = if rt.get(a) { a | (1 << v) } else { a & !(1 << v) };
                            tf.get(a2)
                        })
                    };
                    let r1 = f.substitute(&made[t1][i1]);
                    let r2 = f.substitute(&made[t2][i2]);
                    if let (Ok(r1), Ok(r2)) = (r1, r2) {
                        let (a1, a2) = (sc.actual_tt(&r1, ctx, "substitute"), sc.actual_tt(&r2, ctx, "substitute"));
                        let (e1, e2) = (expect(&reps[t1 % reps.len()].1), expect(&reps[t2 % reps.len()].1));
                        if a1 != e1 || a2 != e2 {
                            msg += &format!("; applying the two to {}: results {} and {}, expected {} and {}", tf.hex(), a1.hex(), a2.hex(), e1.hex(), e2.hex());
                        }
                    }
                }
                ctx.fail("substitution-id-not-unique", &msg);
            }
            Some("ok".into())
        }
        "dropsubst" => {
            sc.state.remove(&format!("subst-{}", w[1]))?;
            Some("ok".into())
        }
        "cofchk" => {
            // cofchk f: cofactors are the Shannon cofactors w.r.t. the top variable
            let (f, t) = sc.get(w[1]).map(|(f, t)| (f.clone(), t.clone()))?;
            match f.cofactors() {
                None => {
                    if !(t.is_false() || t.is_true()) {
                        ctx.fail("cofactors", "cofactors() is None for a non-constant function");
                    }
                    Some("none".into())
                }
                Some((ft, fe)) => {
                    let l2v = sc.l2v();
                    // top variable = first variable in the order the function depends on
                    let top = l2v.iter().copied().find(|&v| t.depends_on(v));
                    let (at, ae) = (sc.actual_tt(&ft, ctx, "cofactor_true"), sc.actual_tt(&fe, ctx, "cofactor_false"));
                    match top {
                        None => ctx.fail("cofactors", "cofactors() is Some for a constant function"),
                        Some(v) => {
                            if at != t.cofactor(v, true) || ae != t.cofactor(v, false) {
                                ctx.fail("cofactors", &format!("cofactors of {} w.r.t. top variable {} are {} / {}, expected {} / {}", t.hex(), v, at.hex(), ae.hex(), t.cofactor(v, true).hex(), t.cofactor(v, false).hex()));
                            }
                        }
                    }
                    Some(format!("{} {}", sc.tree_of(&ft), sc.tree_of(&fe)))
                }
            }
        }
        _ => None,
    }
}

// ------------------------------------------------------------------------------------------------
// ZBDD

pub struct KZbdd;

fn zbdd_tree<'id>(m: &Mgr<'id, ZBDDFunction>, e: &EdgeOfFunc<'id, ZBDDFunction>) -> String {
    match m.get_node(e) {
        Node::Terminal(t) => (if *std::borrow::Borrow::<ZBDDTerminal>::borrow(&t) == ZBDDTerminal::Base { "B" } else { "E" }).into(),
        Node::Inner(n) => {
            let v = m.level_to_var(n.level());
            format!("(v{} {} {})", v, zbdd_tree(m, &n.child(0)), zbdd_tree(m, &n.child(1)))
        }
    }
}

impl Kind for KZbdd {
    type F = ZBDDFunction;
    const NAME: &'static str = "zbdd";
    fn new_manager(nodes: usize, cache: usize, threads: u32) -> <Self::F as Function>::ManagerRef {
        oxidd::zbdd::new_manager(nodes, cache, threads)
    }
    fn tree<'id>(m: &Mgr<'id, Self::F>, e: &EdgeOfFunc<'id, Self::F>) -> String {
        zbdd_tree(m, e)
    }
    fn walk_eval<'id>(m: &Mgr<'id, Self::F>, e: &EdgeOfFunc<'id, Self::F>, a: usize) -> bool {
        // membership of the set {v | a_v} in the family: variables on skipped levels must be 0
        let n = m.num_levels();
        fn go<'id>(m: &Mgr<'id, ZBDDFunction>, e: &EdgeOfFunc<'id, ZBDDFunction>, a: usize, from: u32, n: u32) -> bool {
            let (node_level, node) = match m.get_node(e) {
                Node::Terminal(t) => (n, Err(*std::borrow::Borrow::<ZBDDTerminal>::borrow(&t) == ZBDDTerminal::Base)),
                Node::Inner(nd) => (nd.level(), Ok(nd)),
            };
            for l in from..node_level.min(n) {
                if (a >> m.level_to_var(l)) & 1 != 0 {
                    return false;
                }
            }
            match node {
                Err(base) => base,
                Ok(nd) => {
                    let v = m.level_to_var(node_level);
                    let c = if (a >> v) & 1 != 0 { nd.child(0) } else { nd.child(1) };
                    go(m, &c, a, node_level + 1, n)
                }
            }
        }
        go(m, e, a, 0, n)
    }
    fn audit<'id>(m: &Mgr<'id, Self::F>) -> Result<AuditInfo, String> {
        audit_generic(m, |e| zbdd_tree(m, e), |m, node| {
            let hi = node.child(0);
            if let Node::Terminal(t) = m.get_node(&hi) {
                if *std::borrow::Borrow::<ZBDDTerminal>::borrow(&t) == ZBDDTerminal::Empty {
                    return Err("ZBDD node whose hi edge is the empty set (not reduced)".into());
                }
            }
            Ok(())
        })
    }
    fn reorder(mref: &<Self::F as Function>::ManagerRef, order: &[u32], seq: bool) {
        mref.with_manager_exclusive(|m| if seq { oxidd_reorder::set_var_order_seq(m, order) } else { oxidd_reorder::set_var_order(m, order) })
    }
    fn set_split_depth(mref: &<Self::F as Function>::ManagerRef, depth: Option<u32>) {
        use oxidd::{HasWorkers, WorkerPool};
        mref.with_manager_shared(|m| m.workers().set_split_depth(depth));
    }
    fn extend_tt(t: &TT, n2: u32) -> TT {
        t.extend_zero(n2)
    }
    fn ref_node_count(t: &TT, l2v: &[u32]) -> usize {
        ref_count(RefKind::Zbdd, t, l2v)
    }
    fn internal_roots<'id>(m: &Mgr<'id, Self::F>) -> usize {
        m.num_levels() as usize
    }
    fn internal_root_trees<'id>(m: &Mgr<'id, Self::F>) -> Vec<String> {
        // the tautology chain: one stored reference per level (the chain node of that level)
        let n = m.num_levels();
        let l2v: Vec<u32> = (0..n).map(|l| m.level_to_var(l)).collect();
        let mut out = Vec::new();
        let mut cur = String::from("B");
        for l in (0..n as usize).rev() {
            cur = format!("(v{} {} {})", l2v[l], cur, cur);
            out.push(cur.clone());
        }
        out
    }
    fn ext(sc: &mut Bf<Self>, w: &[&str], ctx: &mut Ctx) -> Option<String> {
        let line = w.join(" ");
        let n = sc.n;
        match w[0] {
            "zconst" => {
                // zconst h empty|base
                let base = w[2] == "base";
                let r = sc.mref().with_manager_shared(|m| if base { ZBDDFunction::base(m) } else { ZBDDFunction::empty(m) });
                let e = TT::from_fn(n, |a| base && a == 0);
                Some(sc.put(w[1], Ok(r), Some(e), ctx, &line))
            }
            "singleton" => {
                let v: u32 = w[2].parse().ok()?;
                let r = sc.mref().with_manager_shared(|m| ZBDDFunction::singleton(m, v));
                let e = TT::from_fn(n, |a| a == 1 << v);
                Some(sc.put(w[1], r, Some(e), ctx, &line))
            }
            "subset0" | "subset1" | "change" => {
                let (f, t) = sc.get(w[2]).map(|(f, t)| (f.clone(), t.clone()))?;
                let v: u32 = w[3].parse().ok()?;
                let bit = 1usize << v;
                let (r, e) = match w[0] {
                    // {s ∈ F | v ∉ s}
                    "subset0" => (f.subset0(v), TT::from_fn(n, |a| a & bit == 0 && t.get(a))),
                    // {s \ {v} | s ∈ F, v ∈ s}
                    "subset1" => (f.subset1(v), TT::from_fn(n, |a| a & bit == 0 && t.get(a | bit))),
                    // {s Δ {v} | s ∈ F}
                    _ => (f.change(v), TT::from_fn(n, |a| t.get(a ^ bit))),
                };
                Some(sc.put(w[1], r, Some(e), ctx, &line))
            }
            "union" | "intsec" | "diff" => {
                let (f, tf) = sc.get(w[2]).map(|(f, t)| (f.clone(), t.clone()))?;
                let (g, tg) = sc.get(w[3]).map(|(f, t)| (f.clone(), t.clone()))?;
                let (r, e) = match w[0] {
                    "union" => (f.union(&g), tf.map2(&tg, |a, b| a || b)),
                    "intsec" => (f.intsec(&g), tf.map2(&tg, |a, b| a && b)),
                    _ => (f.diff(&g), tf.map2(&tg, |a, b| a && !b)),
                };
                Some(sc.put(w[1], r, Some(e), ctx, &line))
            }
            "cofchk" => {
                // reduced-domain reading: cofactors w.r.t. the top variable are subset1 / subset0
                let (f, t) = sc.get(w[1]).map(|(f, t)| (f.clone(), t.clone()))?;
                match f.cofactors() {
                    None => Some("none".into()),
                    Some((ft, fe)) => {
                        // top variable: level of the root node
                        let v = f.with_manager_shared(|m, e| match m.get_node(e) {
                            Node::Inner(nd) => m.level_to_var(nd.level()),
                            _ => unreachable!(),
                        });
                        let bit = 1usize << v;
                        let (at, ae) = (sc.actual_tt(&ft, ctx, "cofactor_true"), sc.actual_tt(&fe, ctx, "cofactor_false"));
                        let e1 = TT::from_fn(n, |a| a & bit == 0 && t.get(a | bit));
                        let e0 = TT::from_fn(n, |a| a & bit == 0 && t.get(a));
                        if at != e1 || ae != e0 {
                            ctx.fail("cofactors", &format!("ZBDD cofactors of {} w.r.t. variable {} are {} / {}, expected subset1 {} / subset0 {}", t.hex(), v, at.hex(), ae.hex(), e1.hex(), e0.hex()));
                        }
                        Some(format!("{} {}", sc.tree_of(&ft), sc.tree_of(&fe)))
                    }
                }
            }
            _ => None,
        }
    }
    fn restrict_expected(_f: &TT, _cube: &TT, plain: TT) -> TT {
        plain
    }
}

/// C14: the same lines on an uncapped reference manager (whose output is printed and compared
/// with the model) and on a manager with the capacity given in the `mgr` line (oracles only)
pub struct Capped<K: Kind> {
    reference: Bf<K>,
    capped: Bf<K>,
    cap: usize,
    threads: u32,
}

impl<K: Kind> crate::Scenario for Capped<K> {
    fn reset(&mut self) {
        self.reference.reset();
        self.capped.reset();
    }
    fn step(&mut self, line: &str, ctx: &mut Ctx) -> String {
        let w = crate::words(line);
        if w[0] == "mgr" {
            self.cap = w.iter().find_map(|x| x.strip_prefix("nodes=")).map(|x| x.parse().unwrap()).unwrap_or(65536);
            self.threads = w.iter().find_map(|x| x.strip_prefix("threads=")).map(|x| x.parse().unwrap()).unwrap_or(1);
            let ref_line: Vec<String> = w.iter().map(|x| if x.starts_with("nodes=") { "nodes=65536".to_string() } else { x.to_string() }).collect();
            let out = self.reference.step(&ref_line.join(" "), ctx);
            // variables are created in the capped manager too (no nodes needed)
            let _ = self.capped.step(line, ctx);
            return out;
        }
        if w[0] == "ballast" {
            // ballast <free> <seed> <lo> <hi>: fill the capped store with functions over the variables
            // lo..hi (never used by the scripts) until exactly <free> node slots are left, so that the
            // next operation's (<free>+1)-th allocation is the failing one. Nothing happens on the
            // reference manager.
            let free: usize = w[1].parse().unwrap();
            let mut rng = crate::Rng::new(w[2].parse().unwrap());
            let (lo, hi): (u32, u32) = (w[3].parse().unwrap(), w[4].parse().unwrap());
            let target = self.cap.saturating_sub(free);
            let mref = self.capped.mref().clone();
            let count = |m: &<K::F as oxidd::Function>::ManagerRef| m.with_manager_shared(|m| {
                m.gc();
                m.num_inner_nodes()
            });
            let mut pool: Vec<K::F> = Vec::new();
            mref.with_manager_shared(|m| {
                for v in lo..hi {
                    if let Ok(f) = K::F::var(m, v) {
                        pool.push(f);
                    }
                }
            });
            let mut cur = count(&mref);
            let mut tries = 0;
            while cur < target && tries < 600 && !pool.is_empty() {
                tries += 1;
                let a = rng.pick(&pool).clone();
                let b = rng.pick(&pool).clone();
                let r = match rng.below(4) {
                    0 => a.and(&b),
                    1 => a.xor(&b),
                    2 => a.or(&b),
                    _ => a.nand(&b),
                };
                let Ok(r) = r else { continue };
                if pool.contains(&r) {
                    continue;
                }
                pool.push(r);
                let c2 = count(&mref);
                if c2 > target {
                    pool.pop();
                    let _ = count(&mref);
                } else {
                    cur = c2;
                }
            }
            if cur == target {
                ctx.count("ballast_fill_exact");
            } else {
                ctx.count("ballast_fill_inexact");
            }
            self.capped.state.insert("ballast".into(), Box::new(pool));
            return "ok".into();
        }
        if w[0] == "rcchk" {
            // how many collections (explicit and by the gc thread) the capped manager has seen
            let k = self.capped.mref().with_manager_shared(|m| m.gc_count());
            let e = ctx.stats.entry("capped_gc_count_max".into()).or_insert(0);
            *e = (*e).max(k);
        }
        let out_ref = self.reference.step(line, ctx);
        let mut sub = Ctx { line_no: ctx.line_no, case: ctx.case.clone(), failures: Vec::new(), stats: std::collections::BTreeMap::new(), extra: ctx.extra.clone() };
        let out_cap = self.capped.step(line, &mut sub);
        for f in sub.failures.drain(..) {
            // failures of the capped run are reported under their own signature
            ctx.failures.push(f.replace("\"sig\":\"", "\"sig\":\"capped-"));
            ctx.count("oracle_failures");
        }
        if out_cap == "OOM" {
            ctx.count("oom_results");
            // the error is legitimate only if the store really is full (single-threaded managers
            // allocate deterministically; with worker threads per-thread chunks may be reserved)
            let (inner, _) = self.capped.mref().with_manager_shared(|m| (m.num_inner_nodes(), m.num_levels()));
            // (capacities >= 100 enable the background collector: an allocation can then fail while
            // the gc thread is still sweeping or has not handed its freed slots back yet, and the
            // count read afterwards is already smaller; the test is exact only without it)
            if self.threads == 1 && self.cap < 100 && inner < self.cap {
                ctx.fail("spurious-oom", &format!("`{}` reported out of memory although only {} of {} node slots are in use", line, inner, self.cap));
            }
            // the manager is intact: structure, reference counts, all existing handles
            let mut sub2 = Ctx { line_no: ctx.line_no, case: ctx.case.clone(), failures: Vec::new(), stats: std::collections::BTreeMap::new(), extra: ctx.extra.clone() };
            let _ = self.capped.step("rcchk", &mut sub2);
            let names: Vec<String> = self.capped.h.keys().cloned().collect();
            for k in names {
                let f = self.capped.h[&k].clone();
                let act = self.capped.actual_tt(&f, &mut sub2, "after OOM");
                if act != self.capped.tt[&k] {
                    sub2.fail("oom-corrupted-handle", &format!("handle {} changed by a failed operation", k));
                    break;
                }
            }
            for f in sub2.failures.drain(..) {
                ctx.failures.push(f.replace("\"sig\":\"", "\"sig\":\"after-oom-"));
                ctx.count("oracle_failures");
            }
        } else if out_cap != out_ref && out_cap != "bad-op" && !matches!(w[0], "gc" | "nodes" | "dump") {
            ctx.fail("capacity-dependent-result", &format!("`{}` gives {} under capacity {} but {} without limit", line, out_cap, self.cap, out_ref));
        } else if out_cap != "bad-op" {
            ctx.count("ok_under_capacity");
        }
        out_ref
    }
}

pub fn make(kind: &str, extra: &std::collections::BTreeMap<String, String>) -> Box<dyn crate::Scenario> {
    if extra.get("capped").is_some() {
        return match kind {
            "bdd" => Box::new(Capped { reference: Bf::<KBdd>::new(extra), capped: Bf::<KBdd>::new(extra), cap: 0, threads: 1 }),
            "bcdd" => Box::new(Capped { reference: Bf::<KBcdd>::new(extra), capped: Bf::<KBcdd>::new(extra), cap: 0, threads: 1 }),
            "zbdd" => Box::new(Capped { reference: Bf::<KZbdd>::new(extra), capped: Bf::<KZbdd>::new(extra), cap: 0, threads: 1 }),
            _ => panic!("unknown kind {kind}"),
        };
    }
    match kind {
        "bdd" => Box::new(Bf::<KBdd>::new(extra)),
        "bcdd" => Box::new(Bf::<KBcdd>::new(extra)),
        "zbdd" => Box::new(Bf::<KZbdd>::new(extra)),
        _ => panic!("unknown kind {kind}"),
    }
}

#[allow(unused)]
fn _unused(_: AllocResult<()>, _: [&str; 8]) {
    let _ = BIN_OPS;
}
