//! Common plumbing of the correspondence harness.
//!
//! Every scenario binary has two sub-commands:
//!
//! * `gen --tier quick|thorough --seed N [--scale K]` writes operation lines to stdout,
//! * `run [--oracle-out FILE] [--stats FILE]` reads operation lines from stdin, executes them on
//!   the real OxiDD code and prints exactly one canonical output line per input line.
//!
//! Lines starting with `#` and empty lines are echoed. A line starting with `case` is echoed and
//! resets the scenario state (every case is self-contained, which is what makes shrinking and
//! replaying trivial). Property-level oracles evaluated on the implementation report into the
//! oracle file (JSON lines); they never change the output stream, so the comparison with the
//! Lean model's stream and the oracle verdicts stay separate.

use std::collections::BTreeMap;
use std::io::{BufRead, BufWriter, Write};
use std::panic::{AssertUnwindSafe, catch_unwind};
use std::sync::Arc;
use std::sync::atomic::{AtomicU64, Ordering};

pub mod bf;
pub mod kinds;

/// splitmix64; every random choice of the harness derives from one state
#[derive(Clone)]
pub struct Rng(pub u64);

impl Rng {
    pub fn new(seed: u64) -> Self {
        Rng(seed.wrapping_mul(0x9E37_79B9_7F4A_7C15) ^ 0xD1B5_4A32_D192_ED03)
    }
    pub fn next(&mut self) -> u64 {
        self.0 = self.0.wrapping_add(0x9E37_79B9_7F4A_7C15);
        let mut z = self.0;
        z = (z ^ (z >> 30)).wrapping_mul(0xBF58_476D_1CE4_E5B9);
        z = (z ^ (z >> 27)).wrapping_mul(0x94D0_49BB_1331_11EB);
        z ^ (z >> 31)
    }
    /// uniform in `0..n` (n > 0)
    pub fn below(&mut self, n: u64) -> u64 {
        self.next() % n
    }
    pub fn range(&mut self, lo: u64, hi_incl: u64) -> u64 {
        lo + self.below(hi_incl - lo + 1)
    }
    pub fn chance(&mut self, num: u64, den: u64) -> bool {
        self.below(den) < num
    }
    pub fn pick<'a, T>(&mut self, xs: &'a [T]) -> &'a T {
        &xs[self.below(xs.len() as u64) as usize]
    }
    pub fn shuffle<T>(&mut self, xs: &mut [T]) {
        for i in (1..xs.len()).rev() {
            let j = self.below(i as u64 + 1) as usize;
            xs.swap(i, j);
        }
    }
}

#[derive(Clone, Debug)]
pub struct GenCfg {
    pub thorough: bool,
    pub seed: u64,
    /// optional multiplier for the amount of generated cases
    pub scale: u64,
    /// free-form extra arguments (`--key value`)
    pub extra: BTreeMap<String, String>,
}

/// Oracle verdicts and statistics collected while running on the implementation
pub struct Ctx {
    pub line_no: u64,
    pub case: String,
    pub failures: Vec<String>,
    pub stats: BTreeMap<String, u64>,
    pub extra: BTreeMap<String, String>,
}

fn json_str(s: &str) -> String {
    let mut o = String::from("\"");
    for c in s.chars() {
        match c {
            '"' => o.push_str("\\\""),
            '\\' => o.push_str("\\\\"),
            '\n' => o.push_str("\\n"),
            '\r' => o.push_str("\\r"),
            '\t' => o.push_str("\\t"),
            c if (c as u32) < 0x20 => o.push_str(&format!("\\u{:04x}", c as u32)),
            c => o.push(c),
        }
    }
    o.push('"');
    o
}

impl Ctx {
    /// Record an oracle failure: the property fails on the implementation at the current line.
    /// `sig` is a short stable signature of *what* fails (used to match known findings).
    pub fn fail(&mut self, sig: &str, msg: &str) {
        self.failures.push(format!(
            "{{\"line\":{},\"case\":{},\"sig\":{},\"msg\":{}}}",
            self.line_no,
            json_str(&self.case),
            json_str(sig),
            json_str(msg)
        ));
        *self.stats.entry("oracle_failures".into()).or_insert(0) += 1;
    }
    pub fn count(&mut self, key: &str) {
        *self.stats.entry(key.into()).or_insert(0) += 1;
    }
    pub fn add(&mut self, key: &str, n: u64) {
        *self.stats.entry(key.into()).or_insert(0) += n;
    }
}

pub trait Scenario {
    /// reset to the initial state (start of a `case`)
    fn reset(&mut self);
    /// execute one operation line on the real code, return the canonical output line
    fn step(&mut self, line: &str, ctx: &mut Ctx) -> String;
}

fn parse_flags(args: &[String]) -> BTreeMap<String, String> {
    let mut m = BTreeMap::new();
    let mut i = 0;
    while i < args.len() {
        if let Some(k) = args[i].strip_prefix("--") {
            if i + 1 < args.len() && !args[i + 1].starts_with("--") {
                m.insert(k.to_string(), args[i + 1].clone());
                i += 2;
            } else {
                m.insert(k.to_string(), "1".into());
                i += 1;
            }
        } else {
            i += 1;
        }
    }
    m
}

/// hang watchdog: if one step takes longer than `secs`, report and exit with status 3
fn start_watchdog(progress: Arc<AtomicU64>, secs: u64, oracle_out: Option<String>, cur_case: Arc<std::sync::Mutex<String>>) {
    std::thread::spawn(move || {
        let mut last = progress.load(Ordering::Relaxed);
        let mut stale = 0u64;
        loop {
            std::thread::sleep(std::time::Duration::from_millis(500));
            let now = progress.load(Ordering::Relaxed);
            if now == u64::MAX {
                return;
            }
            if now == last {
                stale += 1;
            } else {
                stale = 0;
                last = now;
            }
            if stale >= secs * 2 {
                // (not on stdout: the main thread holds its lock while it is stuck in the step, so a
                // `println!` here would block for ever and the watchdog would never exit)
                eprintln!("@HANG step {} did not finish within {} s", now, secs);
                if let Some(p) = &oracle_out {
                    if let Ok(mut f) = std::fs::OpenOptions::new().create(true).append(true).open(p) {
                        let _ = writeln!(
                            f,
                            "{{\"line\":{},\"case\":{:?},\"sig\":\"hang\",\"msg\":\"step did not finish within {} s\"}}",
                            now,
                            cur_case.lock().map(|c| c.clone()).unwrap_or_default(),
                            secs
                        );
                    }
                }
                std::process::exit(3);
            }
        }
    });
}

pub fn harness_main(
    generate: fn(&GenCfg, &mut Rng, &mut dyn Write),
    make: fn(&BTreeMap<String, String>) -> Box<dyn Scenario>,
) {
    let args: Vec<String> = std::env::args().collect();
    let flags = parse_flags(&args[1..]);
    match args.get(1).map(|s| s.as_str()) {
        Some("gen") => {
            let seed: u64 = flags.get("seed").and_then(|s| s.parse().ok()).unwrap_or(1);
            let cfg = GenCfg {
                thorough: flags.get("tier").map(|t| t == "thorough").unwrap_or(false),
                seed,
                scale: flags.get("scale").and_then(|s| s.parse().ok()).unwrap_or(1),
                extra: flags.clone(),
            };
            let mut rng = Rng::new(seed);
            let out = std::io::stdout();
            let mut w = BufWriter::with_capacity(1 << 16, out.lock());
            generate(&cfg, &mut rng, &mut w);
            w.flush().unwrap();
        }
        Some("run") => {
            // Panics are caught per line; keep the default hook quiet but keep the message.
            std::panic::set_hook(Box::new(|info| {
                eprintln!("@panic {}", info);
            }));
            let oracle_out = flags.get("oracle-out").cloned();
            if let Some(p) = &oracle_out {
                let _ = std::fs::write(p, "");
            }
            let progress = Arc::new(AtomicU64::new(0));
            let hang_secs: u64 = flags.get("hang-secs").and_then(|s| s.parse().ok()).unwrap_or(60);
            let cur_case = Arc::new(std::sync::Mutex::new(String::new()));
            start_watchdog(progress.clone(), hang_secs, oracle_out.clone(), cur_case.clone());
            let mut sc = make(&flags);
            let mut ctx = Ctx {
                line_no: 0,
                case: String::new(),
                failures: Vec::new(),
                stats: BTreeMap::new(),
                extra: flags.clone(),
            };
            let stdin = std::io::stdin();
            let out = std::io::stdout();
            let mut w = BufWriter::with_capacity(1 << 16, out.lock());
            let mut dead = false;
            for line in stdin.lock().lines() {
                let line = line.unwrap();
                ctx.line_no += 1;
                progress.store(ctx.line_no, Ordering::Relaxed);
                let l = line.trim();
                if l.is_empty() || l.starts_with('#') {
                    writeln!(w, "{}", l).unwrap();
                    continue;
                }
                if l.starts_with("case") {
                    ctx.case = l.to_string();
                    if let Ok(mut c) = cur_case.lock() {
                        *c = l.to_string();
                    }
                    eprintln!("@{}", l);
                    dead = false;
                    match catch_unwind(AssertUnwindSafe(|| sc.reset())) {
                        Ok(()) => {}
                        Err(_) => {
                            // state cannot be dropped cleanly: start from a fresh scenario
                            let old = std::mem::replace(&mut sc, make(&flags));
                            std::mem::forget(old);
                        }
                    }
                    ctx.count("cases");
                    writeln!(w, "{}", l).unwrap();
                    continue;
                }
                if dead {
                    writeln!(w, "DEAD").unwrap();
                    continue;
                }
                ctx.count("evaluations");
                let r = catch_unwind(AssertUnwindSafe(|| sc.step(l, &mut ctx)));
                match r {
                    Ok(o) => writeln!(w, "{}", o).unwrap(),
                    Err(e) => {
                        let msg = if let Some(s) = e.downcast_ref::<String>() {
                            s.clone()
                        } else if let Some(s) = e.downcast_ref::<&str>() {
                            s.to_string()
                        } else {
                            "?".into()
                        };
                        ctx.fail("panic", &format!("panic while executing `{}`: {}", l, msg));
                        writeln!(w, "PANIC").unwrap();
                        dead = true;
                        // The scenario state may be inconsistent; leak it rather than risk a
                        // double panic (abort) in a destructor.
                        let old = std::mem::replace(&mut sc, make(&flags));
                        std::mem::forget(old);
                    }
                }
                if let Some(p) = &oracle_out {
                    if !ctx.failures.is_empty() {
                        w.flush().unwrap();
                        let mut f = std::fs::OpenOptions::new().create(true).append(true).open(p).unwrap();
                        for x in ctx.failures.drain(..) {
                            writeln!(f, "{}", x).unwrap();
                        }
                    }
                } else {
                    ctx.failures.clear();
                }
            }
            w.flush().unwrap();
            progress.store(u64::MAX, Ordering::Relaxed);
            if let Some(p) = flags.get("stats") {
                let mut s = String::from("{");
                for (i, (k, v)) in ctx.stats.iter().enumerate() {
                    if i > 0 {
                        s.push(',');
                    }
                    s.push_str(&format!("{}:{}", json_str(k), v));
                }
                s.push('}');
                std::fs::write(p, s).unwrap();
            }
            // leak the scenario: destructors of managers with leaked edges may print/abort
            std::mem::forget(sc);
        }
        _ => {
            eprintln!("usage: {} gen --tier quick|thorough --seed N | run [--oracle-out F] [--stats F]", args[0]);
            std::process::exit(2);
        }
    }
}

/// helper: split a line into words
pub fn words(l: &str) -> Vec<&str> {
    l.split_ascii_whitespace().collect()
}

/// An ASCII DDDMP file with its nodes renumbered in the order of a depth-first post-order walk
/// from the roots (then-child first): two files that describe the same diagrams, header included,
/// have the same canonical bytes whatever numbering the writer chose inside a level. Anything
/// that does not parse is returned unchanged (and then compared byte by byte).
pub fn canon_dddmp_ascii(bytes: &[u8]) -> Vec<u8> {
    fn go(bytes: &[u8]) -> Option<Vec<u8>> {
        let text = std::str::from_utf8(bytes).ok()?;
        let lines: Vec<&str> = text.split('\n').collect();
        let ni = lines.iter().position(|l| l.trim_end() == ".nodes")?;
        let ei = lines.iter().position(|l| l.trim_end() == ".end")?;
        if ei < ni || lines[ei + 1..].iter().any(|l| !l.is_empty()) {
            return None;
        }
        let ri = lines[..ni].iter().position(|l| l.starts_with(".rootids"))?;
        let roots: Vec<i64> = lines[ri].split_whitespace().skip(1).map(|t| t.parse().ok()).collect::<Option<_>>()?;
        let mut nodes: std::collections::BTreeMap<i64, (Vec<&str>, i64, i64)> = std::collections::BTreeMap::new();
        for l in &lines[ni + 1..ei] {
            let t: Vec<&str> = l.split_whitespace().collect();
            if t.len() < 4 {
                return None;
            }
            let id: i64 = t[0].parse().ok()?;
            let (th, el): (i64, i64) = (t[t.len() - 2].parse().ok()?, t[t.len() - 1].parse().ok()?);
            if id <= 0 || nodes.insert(id, (t[1..t.len() - 2].to_vec(), th, el)).is_some() {
                return None;
            }
        }
        let mut new_id: std::collections::BTreeMap<i64, i64> = std::collections::BTreeMap::new();
        let mut order: Vec<i64> = Vec::new();
        for r in &roots {
            // (node, next child to look at)
            let mut stack: Vec<(i64, u8)> = vec![(r.abs(), 0)];
            while let Some((n, k)) = stack.pop() {
                if n == 0 || new_id.contains_key(&n) {
                    continue;
                }
                let (_, th, el) = nodes.get(&n)?;
                match k {
                    0 => {
                        stack.push((n, 1));
                        stack.push((th.abs(), 0));
                    }
                    1 => {
                        stack.push((n, 2));
                        stack.push((el.abs(), 0));
                    }
                    _ => {
                        order.push(n);
                        new_id.insert(n, order.len() as i64);
                    }
                }
            }
        }
        if order.len() != nodes.len() {
            return None; // nodes no root reaches: keep the bytes
        }
        let map = |i: i64| if i == 0 { 0 } else { i.signum() * new_id[&i.abs()] };
        let mut out = String::new();
        for (i, l) in lines[..ni].iter().enumerate() {
            if i == ri {
                out.push_str(".rootids");
                for r in &roots {
                    out.push_str(&format!(" {}", map(*r)));
                }
            } else {
                out.push_str(l);
            }
            out.push('\n');
        }
        out.push_str(".nodes\n");
        for n in &order {
            let (mid, th, el) = &nodes[n];
            out.push_str(&format!("{} {} {} {}\n", new_id[n], mid.join(" "), map(*th), map(*el)));
        }
        out.push_str(".end\n");
        Some(out.into_bytes())
    }
    go(bytes).unwrap_or_else(|| bytes.to_vec())
}

