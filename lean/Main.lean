import OxiddModel.Util.Proto
import OxiddModel.Bdd.Driver
import OxiddModel.Bcdd.Driver
import OxiddModel.Zbdd.Driver
import OxiddModel.HashTbl.Driver
import OxiddModel.Mtbdd.Driver
import OxiddModel.Tdd.Driver
import OxiddModel.Num.Driver
import OxiddModel.Dddmp.Driver
import OxiddModel.VarNames.Driver
import OxiddModel.Circuit.Driver
import OxiddModel.Ffi.Driver
import OxiddModel.Locks.Driver
import OxiddModel.Alloc.Driver
import OxiddModel.Reorder.DriverStore
import OxiddModel.Reorder.DriverStoreC
import OxiddModel.Bdd.DriverRc
import OxiddModel.Bdd.DriverUniform
import OxiddModel.Bdd.DriverCountS
import OxiddModel.Bdd.LevelTableDriver
import OxiddModel.Bdd.DriverThreshold
import OxiddModel.AigerParse.Driver
import OxiddModel.Cache.Driver
import OxiddModel.Mtbdd.DriverRc
import OxiddModel.Bcdd.DriverRc
import OxiddModel.Pointer.Driver
import OxiddModel.NnfParse.DriverRt
import OxiddModel.NnfParse.Driver
import OxiddModel.DimacsParse.Driver
import OxiddModel.Zbdd.DriverRc
import OxiddModel.Bcdd.DriverC04S
import OxiddModel.Reorder.DriverHashed
import OxiddModel.Tdd.DriverRc
import OxiddModel.Num.DriverF64Count
import OxiddModel.Num.DriverNaturalF64
import OxiddModel.Mtbdd.DriverTermText
import OxiddModel.Reorder.DriverStoreN
import OxiddModel.Mtbdd.DriverF64Exact
import OxiddModel.Bdd.DriverRcQ
import OxiddModel.Ffi.DriverMulti
import OxiddModel.Bcdd.DriverCountS
import OxiddModel.Zbdd.DriverCountS
import OxiddModel.Circuit.DriverFindCycle
import OxiddModel.Ffi.DriverAbi
import OxiddModel.Zbdd.DriverThreshold
import OxiddModel.Mtbdd.DriverThreshold
import OxiddModel.Tdd.DriverThreshold
import OxiddModel.Dddmp.DriverHeader
import OxiddModel.ArcSlab.Driver
import OxiddModel.Dddmp.DriverImportThreshold
import OxiddModel.Dddmp.DriverImportThresholdC
import OxiddModel.Zbdd.DriverThresholdV
import OxiddModel.Mtbdd.DriverThresholdV
import OxiddModel.Tdd.DriverThresholdV
import OxiddModel.Bcdd.DriverThresholdV
import OxiddModel.Reorder.DriverZbddSwap
import OxiddModel.Bcdd.DriverPickO

open OxiddModel

def echoProto : Proto := { σ := Unit, init := (), step := fun s l => (s, l) }

def protos : List (String × Proto) := [
  ("echo", echoProto),
  ("bdd", OxiddModel.Bdd.proto),
  ("bcdd", OxiddModel.Bcdd.proto),
  ("zbdd", OxiddModel.Zbdd.proto),
  ("tbl", OxiddModel.HashTbl.proto),
  ("mtbdd", OxiddModel.Mtbdd.proto),
  ("tdd", OxiddModel.Tdd.proto),
  ("nat", OxiddModel.Num.Driver.proto),
  ("dddmp", OxiddModel.Dddmp.proto),
  ("names", OxiddModel.VarNames.proto),
  ("circ", OxiddModel.Circuit.proto),
  ("capi", OxiddModel.Ffi.proto),
  ("locks", OxiddModel.Locks.proto),
  ("alloc", OxiddModel.Alloc.proto),
  ("capi-before-fix", OxiddModel.Ffi.protoBeforeFix),
  ("reorder-store", OxiddModel.Reorder.SwapStore.proto),
  ("reorder-store-bcdd", OxiddModel.Reorder.SwapStoreC.proto),
  ("bdd-rc", OxiddModel.Bdd.DriverRc.proto),
  ("uniformprob", OxiddModel.Bdd.DriverUniform.proto),
  ("countcache", OxiddModel.Bdd.CountS.Driver.proto),
  ("leveltbl", OxiddModel.Bdd.LevelTable.Driver.proto),
  ("c14t", OxiddModel.Bdd.ThresholdDriver.proto),
  ("aigparse", OxiddModel.AigerParse.proto),
  ("aigparse-noskip", OxiddModel.AigerParse.protoNoSkip),
  ("aigparse-before-fix", OxiddModel.AigerParse.protoBeforeFix),
  ("dmcache", OxiddModel.Cache.Driver.proto),
  ("mtbdd-rc", OxiddModel.Mtbdd.DriverRc.proto),
  ("bcdd-rc", OxiddModel.Bcdd.DriverRc.proto),
  ("ptrmgr", OxiddModel.Pointer.Driver.proto),
  ("nnfparse", OxiddModel.NnfParse.protoRtFixed),
  ("nnfparse-fixed-names", OxiddModel.NnfParse.protoRtFixedNames),
  ("nnfparse-noskip", OxiddModel.NnfParse.protoNoSkip),
  ("nnfparse-before-fix", OxiddModel.NnfParse.protoRt),
  ("dimacsparse", OxiddModel.DimacsParse.protoProposed),
  ("dimacsparse-before-fix", OxiddModel.DimacsParse.protoBeforeFix),
  ("dimacsparse-noskip", OxiddModel.DimacsParse.protoNoSkip),
  ("dimacsparse-before-cofix", OxiddModel.DimacsParse.proto),
  ("zbdd-rc", OxiddModel.Zbdd.DriverRc.proto),
  ("bcdd-c04s", OxiddModel.Bcdd.DriverC04S.proto),
  ("bcdd-c04s-1", OxiddModel.Bcdd.DriverC04S.proto1),
  ("bcdd-c04s-4", OxiddModel.Bcdd.DriverC04S.proto4),
  ("reorder-hashed", OxiddModel.Reorder.SwapHashed.Driver.proto),
  ("tdd-rc", OxiddModel.Tdd.DriverRc.proto),
  ("f64count", OxiddModel.Num.F64C.Driver.proto),
  ("natf64", OxiddModel.Num.NatF64.Driver.proto),
  ("termtext", OxiddModel.Mtbdd.TermText.Driver.proto),
  ("reorder-store-tdd", OxiddModel.Reorder.SwapStoreN.Driver.protoTdd),
  ("reorder-store-mtbdd", OxiddModel.Reorder.SwapStoreN.Driver.protoMtbdd),
  ("f64arith", OxiddModel.Mtbdd.F64Exact.Driver.proto),
  ("bdd-rcq", OxiddModel.Bdd.DriverRcQ.proto),
  ("capi-multi", OxiddModel.Ffi.Multi.proto),
  ("countcache-bcdd", OxiddModel.Bcdd.CountS.Driver.proto),
  ("countcache-zbdd", OxiddModel.Zbdd.CountS.Driver.proto),
  ("findcycle", OxiddModel.Circuit.FindCycleDriver.proto),
  ("capi-abi", OxiddModel.Ffi.protoAbi),
  ("c14tz", OxiddModel.Zbdd.ThresholdDriver.proto),
  ("c14tm", OxiddModel.Mtbdd.ThresholdDriver.proto),
  ("c14tt", OxiddModel.Tdd.ThresholdDriver.proto),
  ("dddmp-header", OxiddModel.Dddmp.Hdr.protoHeader),
  ("arcslab", OxiddModel.ArcSlab.proto),
  ("c14imp", OxiddModel.Dddmp.ImportThresholdDriver.proto),
  ("c14impc", OxiddModel.Dddmp.ImportThresholdDriverC.proto),
  ("c14tzv", OxiddModel.Zbdd.ThresholdDriverV.proto),
  ("c14tmv", OxiddModel.Mtbdd.ThresholdDriverV.proto),
  ("c14ttv", OxiddModel.Tdd.ThresholdDriverV.proto),
  ("c14tcv", OxiddModel.Bcdd.ThresholdDriverV.proto),
  ("zbdd-swap", OxiddModel.Reorder.DriverZbddSwap.proto),
  ("zbdd-swap-fixed", OxiddModel.Reorder.DriverZbddSwap.protoFixed),
  ("pickord-bcdd", OxiddModel.PickO.Driver.C.proto),
  ("pickord-zbdd", OxiddModel.PickO.Driver.Z.proto)
]

def main (args : List String) : IO UInt32 := do
  match args with
  | [name] =>
    match protos.lookup name with
    | some p =>
      let stdin ← IO.getStdin
      let stdout ← IO.getStdout
      p.loop stdin stdout p.init
      return 0
    | none => IO.eprintln s!"unknown protocol {name}"; return 2
  | _ => IO.eprintln "usage: oxdriver <protocol>"; return 2
