import OxiddModel.Util.Proto
