import OxiddModel.AigerParse.LemmasBinary

/-!
# `find_cycle` on a topologically ordered circuit reports no cycle
-/
namespace OxiddModel.AigerParse

open OxiddModel.Circuit OxiddModel.Aiger

/-- gate `j` is on the recursion stack: discovered, not finished -/
def Unfin (vis : Visited) (j : Nat) : Prop :=
  vis.discovered.getD j false = true ∧ vis.finished.getD j false = false

theorem getD_set_true (l : List Bool) (i j : Nat) :
    (l.set i true).getD j false = true ↔ (i = j ∧ i < l.length) ∨ l.getD j false = true := by
  rw [List.getD_eq_getElem?_getD, List.getD_eq_getElem?_getD, List.getElem?_set]
  by_cases hij : i = j
  · subst hij
    by_cases hl : i < l.length
    · simp [hl]
    · have : l[i]? = none := List.getElem?_eq_none (Nat.le_of_not_lt hl)
      simp [hl]
  · simp [hij]

theorem fcInner_topo {gates : List (Lit × Lit)} (ht : Topo gates) :
    ∀ (fuel : Nat) (vis : Visited) (idx : Nat),
    vis.discovered.length = gates.length → vis.finished.length = gates.length →
    undisc vis < fuel → idx < gates.length → (∀ j, Unfin vis j → idx < j) →
    ∃ v, fcInner gates fuel vis idx = .ok (false, v) ∧ v.discovered.length = gates.length ∧
      v.finished.length = gates.length ∧ undisc v ≤ undisc vis ∧ (∀ j, Unfin v j → Unfin vis j) := by
  intro fuel
  induction fuel with
  | zero => intro vis idx _ _ h _ _; omega
  | succ fuel ih =>
    intro vis idx hdl hfl hfuel hidx hstack
    -- one input literal that refers to earlier gates only
    have hlit : ∀ (v : Visited) (l : Lit), GateLt idx l → v.discovered.length = gates.length →
        v.finished.length = gates.length → undisc v < fuel → (∀ j, Unfin v j → idx ≤ j) →
        ∃ v', fcLit (fcInner gates fuel) v l = .ok (false, v') ∧
          v'.discovered.length = gates.length ∧ v'.finished.length = gates.length ∧
          undisc v' ≤ undisc v ∧ (∀ j, Unfin v' j → Unfin v j) := by
      intro v l hl hvd hvf hf hst
      cases l with
      | const b => exact ⟨v, rfl, hvd, hvf, Nat.le_refl _, fun _ h => h⟩
      | input n i => exact ⟨v, rfl, hvd, hvf, Nat.le_refl _, fun _ h => h⟩
      | gate n g =>
        have hg : g < idx := hl
        exact ih v g hvd hvf hf (by omega) (fun j hj => by have := hst j hj; omega)
    simp only [fcInner]
    by_cases hfin : vis.finished.getD idx false = true
    · rw [if_pos hfin]
      exact ⟨vis, rfl, hdl, hfl, Nat.le_refl _, fun _ h => h⟩
    · rw [if_neg hfin]
      have hfin' : vis.finished.getD idx false = false := by simpa using hfin
      by_cases hdisc : vis.discovered.getD idx false = true
      · have := hstack idx ⟨hdisc, hfin'⟩
        omega
      · rw [if_neg hdisc, if_neg (by omega)]
        have hd : vis.discovered.getD idx false = false := by simpa using hdisc
        rw [List.getElem?_eq_getElem hidx]
        have htopo := ht idx gates[idx] (List.getElem?_eq_getElem hidx)
        generalize gates[idx] = ab at htopo
        obtain ⟨a, b⟩ := ab
        dsimp only at htopo ⊢
        have hcount := count_false_set vis.discovered idx (by omega) hd
        have hu1 : undisc { vis with discovered := vis.discovered.set idx true } + 1 = undisc vis :=
          hcount
        have hst1 : ∀ j, Unfin { vis with discovered := vis.discovered.set idx true } j → idx ≤ j := by
          intro j hj
          rcases (getD_set_true vis.discovered idx j).mp hj.1 with h | h
          · omega
          · exact Nat.le_of_lt (hstack j ⟨h, hj.2⟩)
        obtain ⟨v2, e2, hd2, hf2, hu2, hs2⟩ :=
          hlit { vis with discovered := vis.discovered.set idx true } a htopo.1 (by simpa using hdl) hfl
            (by omega) hst1
        rw [e2]
        dsimp only
        obtain ⟨v3, e3, hd3, hf3, hu3, hs3⟩ := hlit v2 b htopo.2 hd2 hf2 (by omega)
          (fun j hj => hst1 j (hs2 j hj))
        rw [e3]
        dsimp only
        refine ⟨_, rfl, hd3, by simpa using hf3, ?_, ?_⟩
        · show undisc v3 ≤ undisc vis
          omega
        · intro j hj
          have hjd : v3.discovered.getD j false = true := hj.1
          have hjf : (v3.finished.set idx true).getD j false = false := hj.2
          have hne : ¬ ((idx = j ∧ idx < v3.finished.length) ∨ v3.finished.getD j false = true) := by
            intro h
            have := (getD_set_true v3.finished idx j).mpr h
            rw [this] at hjf
            cases hjf
          have hjne : idx ≠ j := fun h => hne (.inl ⟨h, by omega⟩)
          have hjf3 : v3.finished.getD j false = false := by
            cases hh : v3.finished.getD j false with
            | false => rfl
            | true => exact absurd (.inr hh) hne
          have h1 := hs2 j (hs3 j ⟨hjd, hjf3⟩)
          rcases (getD_set_true vis.discovered idx j).mp h1.1 with h | h
          · exact absurd h.1 hjne
          · exact ⟨h, h1.2⟩

theorem fcRoots_topo {gates : List (Lit × Lit)} (ht : Topo gates) :
    ∀ (n index : Nat) (vis : Visited), index + n = gates.length →
    vis.discovered.length = gates.length → vis.finished.length = gates.length →
    (∀ j, ¬ Unfin vis j) → fcRoots gates (gates.length + 1) n index vis = .ok none := by
  intro n
  induction n with
  | zero => intro index vis _ _ _ _; simp [fcRoots]
  | succ n ih =>
    intro index vis hi hdl hfl hno
    have hu : undisc vis < gates.length + 1 := by
      have : undisc vis ≤ vis.discovered.length := List.count_le_length
      omega
    obtain ⟨v, e, hd, hf, _, hs⟩ := fcInner_topo ht (gates.length + 1) vis index hdl hfl hu (by omega)
      (fun j hj => absurd hj (hno j))
    simp only [fcRoots, e, bind, Except.bind, Bool.false_eq_true, if_false]
    exact ih (index + 1) v (by omega) hd hf (fun j hj => hno j (hs j hj))

/-- **findCycle_topo**: no cycle is reported for a topologically ordered gate list -/
theorem findCycle_topo {gates : List (Lit × Lit)} (ht : Topo gates) : findCycle gates = .ok none := by
  unfold findCycle
  refine fcRoots_topo ht gates.length 0 _ (by omega) (by simp) (by simp) ?_
  intro j hj
  have h1 : (List.replicate gates.length false).getD j false = true := hj.1
  rw [List.getD_eq_getElem?_getD] at h1
  cases hh : (List.replicate gates.length false)[j]? with
  | none => rw [hh] at h1; cases h1
  | some x =>
    have := List.mem_of_getElem? hh
    simp at this
    rw [hh, this.2] at h1
    cases h1

end OxiddModel.AigerParse
