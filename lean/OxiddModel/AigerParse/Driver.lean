import OxiddModel.Util.Proto
import OxiddModel.AigerParse.Model

/-!
Line protocol `aigparse` (see `harness/src/bin/c18_aigparse.rs`):

`p <check_acyclic: 0|1> <input bytes as hex | ->` (`q …`: the same without the resource rule) ↦
`OK <canonical problem>` | `ERR <class>` | `PANIC <kind>` | `SKIP`.

`SKIP`: the input contains a decimal number in `10000 ..= usize::MAX/16`, i.e. a number the parser
may accept as a count and reserve memory for (known finding `KF-parser-alloc`); both sides decide
this by the same scan of the raw bytes and do not run the parser.
-/
namespace OxiddModel.AigerParse

open OxiddModel.Circuit OxiddModel.Aiger

def hexVal (c : Char) : Option Nat :=
  if '0' ≤ c ∧ c ≤ '9' then some (c.toNat - '0'.toNat)
  else if 'a' ≤ c ∧ c ≤ 'f' then some (c.toNat - 'a'.toNat + 10)
  else none

def unhex : List Char → Option Bytes
  | [] => some []
  | a :: b :: r =>
    match hexVal a, hexVal b, unhex r with
    | some x, some y, some bs => some ((16 * x + y) :: bs)
    | _, _, _ => none
  | _ => none

def hexDigit (n : Nat) : Char := if n < 10 then Char.ofNat (48 + n) else Char.ofNat (87 + n)

def hex (bs : Bytes) : String :=
  String.ofList (bs.flatMap fun b => [hexDigit (b / 16), hexDigit (b % 16)])

/-- value of the maximal digit run at the head (leading zeros are harmless) -/
def digitRun (acc : Nat) : Bytes → Nat × Bytes
  | [] => (acc, [])
  | b :: r => if isDigit b then digitRun (acc * 10 + (b - 48)) r else (acc, b :: r)

/-- the resource rule: some decimal number of the input lies in `10000 ..= maxCap` -/
def tooBig : (fuel : Nat) → Bytes → Bool
  | 0, _ => false
  | _ + 1, [] => false
  | fuel + 1, b :: r =>
    if isDigit b then
      let (v, r') := digitRun 0 (b :: r)
      if 10000 ≤ v ∧ v ≤ maxCap then true else tooBig fuel r'
    else tooBig fuel r

def showLit : Lit → String
  | .const false => "F"
  | .const true => "T"
  | .input neg i =>
    (if neg then "!" else "") ++ (if i = Lit.undefIdx then "U" else "i" ++ toString i)
  | .gate neg g => (if neg then "!" else "") ++ "g" ++ toString g

def showLits (ls : List Lit) : String := "[" ++ ",".intercalate (ls.map showLit) ++ "]"

def showNames (ns : List (Option Bytes)) : String :=
  "[" ++ ",".intercalate (ns.map fun
    | none => "~"
    | some b => "x" ++ hex b) ++ "]"

def showInit (t : TV) (n : Nat) : String :=
  String.ofList ((List.range n).map fun i =>
    match t.at i with
    | none => '!'
    | some none => '-'
    | some (some false) => '0'
    | some (some true) => '1')

def showProblem (p : Problem') : String :=
  let a := s!"OK c={p.ninputs} in={showNames p.inputNames} g=[" ++
    ";".intercalate (p.gates.map fun (a, b) => showLit a ++ "," ++ showLit b) ++
    s!"] i={p.aigInputs} l={showLits p.latches} init={showInit p.latchInit p.latches.length}" ++
    s!" o={showLits p.outputs} m={showLits p.map}"
  if p.latches.length > 16 then a ++ " B ?"
  else
    a ++ s!" B b={showLits p.bad} k={showLits p.invariants} j=[" ++
      ";".intercalate (p.justice.map showLits) ++
      s!"] f={showLits p.fairness} on={showNames p.outputNames} bn={showNames p.badNames}" ++
      s!" kn={showNames p.invariantNames} jn={showNames p.justiceNames}" ++
      s!" fn={showNames p.fairnessNames}"

def showCls : Cls → String
  | .numTooLarge => "num-too-large"
  | .headerVars => "header-vars"
  | .varTooLarge => "var-too-large"
  | .inputNegated => "input-negated"
  | .latchNegated => "latch-negated"
  | .gateNegated => "gate-negated"
  | .badInit => "bad-init"
  | .secondDef => "second-def"
  | .undefLit => "undef-lit"
  | .cycle => "cycle"
  | .andEof => "and-eof"
  | .andInvalid => "and-invalid"
  | .symUndefined => "sym-undefined"

def showPanic : PanicKind → String
  | .index => "index"
  | .unwrap => "unwrap"
  | .arith => "arith"
  | .debugAssert => "debug-assert"
  | .fuel => "fuel"

def showRes : Res Problem' → String
  | .ok p => showProblem p
  | .error .syntax => "ERR"
  | .error (.fail _) => "ERR"
  | .error (.panic k) => "PANIC " ++ showPanic k

def stepLine (cfg : Cfg) (skip : Bool) (line : String) : String :=
  match words line with
  | [op, acyc, h] =>
    if op ≠ "p" ∧ op ≠ "q" then "bad-op" else
    -- `q`: without the resource rule (regression lines)
    let skip := skip && op = "p"
    let bytes? := if h = "-" then some [] else unhex h.toList
    match bytes?, (if acyc = "0" then some false else if acyc = "1" then some true else none) with
    | some bytes, some a =>
      if skip && tooBig (bytes.length + 1) bytes then "SKIP" else showRes (parseCfg cfg a bytes)
    | _, _ => "bad-op"
  | _ => "bad-op"

def proto : Proto := { σ := Unit, init := (), step := fun s l => (s, stepLine Cfg.fixed true l) }

/-- the parser before commit a6ab3b1 of `/repo` (justice sum with overflow checks) -/
def protoBeforeFix : Proto :=
  { σ := Unit, init := (), step := fun s l => (s, stepLine Cfg.beforeFix true l) }

/-- without the resource rule (for `run --no-skip 1`, used to confirm findings by hand) -/
def protoNoSkip : Proto := { σ := Unit, init := (), step := fun s l => (s, stepLine Cfg.fixed false l) }

end OxiddModel.AigerParse
