import OxiddModel.AigerParse.Roundtrip
import OxiddModel.AigerParse.LemmasBinary
import OxiddModel.AigerParse.CycleTopo

/-!
# Whole files: printers for the combinational AIGER 1.0 subset and the round trip
`parse c (printAag P) = parse c (printAig P) = .ok (canon P)`

`P` ranges over structured problems with inputs, outputs and AND gates in canonical numbering
(inputs `1..ni`, AND gate `k` has variable `ni + 1 + k`, right-hand sides smaller than the left-hand
side) — the domain of the binary format without latches and without the AIGER 1.9 sections.
-/
namespace OxiddModel.AigerParse

open OxiddModel.Circuit OxiddModel.Aiger

/-- a combinational AIGER 1.0 problem in canonical numbering: gate `k` is
`2 (ni + 1 + k) = ands[k].1 ∧ ands[k].2` -/
structure Prob where
  ni : Nat
  outputs : List Nat
  ands : List (Nat × Nat)

/-- the first AND variable -/
def Prob.fa (P : Prob) : Nat := P.ni + 1
/-- the maximal variable index `M` -/
def Prob.vars (P : Prob) : Nat := P.ni + P.ands.length

/-- right-hand sides of gate `i, i+1, …`: `lhs = 2 i > rhs0 ≥ rhs1` -/
def AndsOK : Nat → List (Nat × Nat) → Prop
  | _, [] => True
  | i, (a, b) :: t => a < 2 * i ∧ b ≤ a ∧ AndsOK (i + 1) t

structure Prob.Admissible (P : Prob) : Prop where
  vars : P.vars ≤ maxCap
  outs : P.outputs.length ≤ maxCap
  outLits : ∀ o ∈ P.outputs, o / 2 ≤ P.vars
  ands : AndsOK P.fa P.ands

/-! ## printers (each takes the rest of the file) -/

def printHeader (tag : Bytes) (m i l o a : Nat) (rest : Bytes) : Bytes :=
  tag ++ 32 :: (printNat m ++ 32 :: (printNat i ++ 32 :: (printNat l ++ 32 :: (printNat o ++
    32 :: (printNat a ++ 10 :: rest)))))

def printLits : List Nat → Bytes → Bytes
  | [], rest => rest
  | x :: xs, rest => printNat x ++ 10 :: printLits xs rest

/-- `n` input lines `2 i`, `2 (i + 1)`, … -/
def printInputs : Nat → Nat → Bytes → Bytes
  | 0, _, rest => rest
  | n + 1, i, rest => printNat (2 * i) ++ 10 :: printInputs n (i + 1) rest

def printAndsAag : Nat → List (Nat × Nat) → Bytes → Bytes
  | _, [], rest => rest
  | i, (a, b) :: t, rest =>
    printNat (2 * i) ++ 32 :: (printNat a ++ 32 :: (printNat b ++ 10 :: printAndsAag (i + 1) t rest))

def printAndsAig : Nat → List (Nat × Nat) → Bytes → Bytes
  | _, [], rest => rest
  | i, (a, b) :: t, rest => encode7 (2 * i - a) ++ (encode7 (a - b) ++ printAndsAig (i + 1) t rest)

def printAag (P : Prob) : Bytes :=
  printHeader [97, 97, 103] P.vars P.ni 0 P.outputs.length P.ands.length
    (printInputs P.ni 1 (printLits P.outputs (printAndsAag P.fa P.ands [])))

def printAig (P : Prob) : Bytes :=
  printHeader [97, 105, 103] P.vars P.ni 0 P.outputs.length P.ands.length
    (printLits P.outputs (printAndsAig P.fa P.ands []))

/-- the problem both parsers return -/
def canon (P : Prob) : Problem' :=
  { ninputs := P.ni, inputNames := [],
    gates := P.ands.map (fun g => (makeLiteral P.fa g.1, makeLiteral P.fa g.2)),
    aigInputs := P.ni, latches := [], latchInit := ⟨[], 0⟩,
    outputs := P.outputs.map (makeLiteral P.fa), bad := [], invariants := [], justice := [],
    fairness := [], map := canonicalMap P.fa P.ands.length,
    outputNames := [], badNames := [], invariantNames := [], justiceNames := [],
    fairnessNames := [] }

/-! ## tokens -/

theorem space0_printNat (n : Nat) (r : Bytes) : space0 (printNat n ++ r) = printNat n ++ r := by
  have hd := printNat_digits n
  have hne := printNat_ne_nil n
  generalize printNat n = ds at hd hne
  cases ds with
  | nil => exact absurd rfl hne
  | cons d ds =>
    have hdd : isDigit d = true := hd d (List.mem_cons_self ..)
    have : isSpace d = false := by
      simp [isDigit] at hdd
      simp [isSpace]; omega
    simp [space0, this]

theorem noDigit10 (r : Bytes) : NoDigitHead (10 :: r) := by simp [NoDigitHead, isDigit]
theorem noDigit32 (r : Bytes) : NoDigitHead (32 :: r) := by simp [NoDigitHead, isDigit]

theorem maxCap_lt : maxCap < 2 ^ 64 := by decide

/-- `preceded(space1, usize)` on ` <n>` -/
theorem spaceUsize_print (n : Nat) (hn : n ≤ maxCap) (r : Bytes) (hr : NoDigitHead r) :
    spaceUsize (32 :: (printNat n ++ r)) = .ok (n, r) := by
  have h64 : n < 2 ^ 64 := Nat.lt_of_le_of_lt hn maxCap_lt
  have : ¬ n > maxCap := by omega
  simp [spaceUsize, space1, isSpace, space0_printNat, usize, u64_print n h64 r hr, this,
    bind, Except.bind, pure, Except.pure]

theorem eolOrEof_nl (r : Bytes) : eolOrEof (10 :: r) = .ok ((), r) := by
  simp [eolOrEof, space0, isSpace, lineEndingOrEof]

theorem uadd_eq {a b : Nat} (h : a + b < 2 ^ 64) : uadd a b = .ok (a + b) := by
  unfold uadd; rw [if_pos h]
theorem umul_eq {a b : Nat} (h : a * b < 2 ^ 64) : umul a b = .ok (a * b) := by
  unfold umul; rw [if_pos h]

/-! ## header -/

theorem headerNums_print (m i l o a : Nat) (hm : m ≤ maxCap) (hi : i ≤ maxCap) (hl : l ≤ maxCap)
    (ho : o ≤ maxCap) (ha : a ≤ maxCap) (rest : Bytes) :
    headerNums 9 0 (32 :: (printNat m ++ 32 :: (printNat i ++ 32 :: (printNat l ++ 32 :: (printNat o ++
      32 :: (printNat a ++ 10 :: rest)))))) = .ok ([m, i, l, o, a], 10 :: rest) := by
  have e6 : spaceUsize (10 :: rest) = .error .syntax := by
    simp [spaceUsize, space1, isSpace, bind, Except.bind]
  simp [headerNums, spaceUsize_print m hm _ (noDigit32 _), spaceUsize_print i hi _ (noDigit32 _),
    spaceUsize_print l hl _ (noDigit32 _), spaceUsize_print o ho _ (noDigit32 _),
    spaceUsize_print a ha _ (noDigit10 _), e6]

theorem format_aag (r : Bytes) : format (97 :: 97 :: 103 :: 32 :: r) = .ok (false, 32 :: r) := by
  simp [format, List.isPrefixOf, wordEnd, isAlnum, isDigit]

theorem format_aig (r : Bytes) : format (97 :: 105 :: 103 :: 32 :: r) = .ok (true, 32 :: r) := by
  simp [format, List.isPrefixOf, wordEnd, isAlnum, isDigit]

theorem header_print_aag (m i l o a : Nat) (hm : m ≤ maxCap) (hi : i ≤ maxCap) (hl : l ≤ maxCap)
    (ho : o ≤ maxCap) (ha : a ≤ maxCap) (hv : i + l + a ≤ m) (rest : Bytes) :
    header (printHeader [97, 97, 103] m i l o a rest) =
      .ok ({ binary := false, vars := m, inputs := i, latches := l, out := o, and_ := a, bad := 0,
             inv := 0, just := 0, fair := 0 }, rest) := by
  have b := maxCap_val
  have h1 : i + l < 2 ^ 64 := by omega
  have h2 : i + l + a < 2 ^ 64 := by omega
  have h3 : ¬ m < i + l + a := by omega
  simp [header, printHeader, format_aag, headerNums_print m i l o a hm hi hl ho ha rest, eolOrEof_nl,
    uadd_eq h1, uadd_eq h2, h3, bind, Except.bind, pure, Except.pure]

theorem header_print_aig (m i l o a : Nat) (hm : m ≤ maxCap) (hi : i ≤ maxCap) (hl : l ≤ maxCap)
    (ho : o ≤ maxCap) (ha : a ≤ maxCap) (hv : m = i + l + a) (rest : Bytes) :
    header (printHeader [97, 105, 103] m i l o a rest) =
      .ok ({ binary := true, vars := m, inputs := i, latches := l, out := o, and_ := a, bad := 0,
             inv := 0, just := 0, fair := 0 }, rest) := by
  have b := maxCap_val
  have h1 : i + l < 2 ^ 64 := by omega
  have h2 : i + l + a < 2 ^ 64 := by omega
  subst hv
  simp [header, printHeader, format_aig, headerNums_print (i + l + a) i l o a hm hi hl ho ha rest,
    eolOrEof_nl, uadd_eq h1, uadd_eq h2, bind, Except.bind, pure, Except.pure]

/-! ## literal lines, shared sections -/

theorem collect_literalLine_print (vars : Nat) : ∀ (ls : List Nat) (rest : Bytes),
    (∀ x ∈ ls, x / 2 ≤ vars) → vars ≤ maxCap →
    collect (literalLine vars) ls.length (printLits ls rest) = .ok (ls, rest) := by
  intro ls
  induction ls with
  | nil => intro rest _ _; simp [collect, printLits]
  | cons x xs ih =>
    intro rest hall hv
    have hx := hall x (List.mem_cons_self ..)
    have b := maxCap_val
    have hx64 : x < 2 ^ 64 := by omega
    simp [collect, printLits, literalLine_print vars x hx64 hx,
      ih rest (fun y hy => hall y (List.mem_cons_of_mem _ hy)) hv, bind, Except.bind, pure,
      Except.pure]

theorem makeLiteralChk_eq {vars fa na a : Nat} (hv : vars + 1 = fa + na) (hm : vars ≤ maxCap)
    (ha : a / 2 ≤ vars) : makeLiteralChk fa a = .ok (makeLiteral fa a) := by
  have b := maxCap_val
  unfold makeLiteralChk makeLiteral mkGate mkInputOrFalse
  split
  · rw [if_pos (by omega)]
  · rw [if_pos (by omega)]

theorem collect_binLiteralLine_print {vars fa na : Nat} (hv : vars + 1 = fa + na)
    (hm : vars ≤ maxCap) : ∀ (ls : List Nat) (rest : Bytes), (∀ x ∈ ls, x / 2 ≤ vars) →
    collect (binLiteralLine vars fa) ls.length (printLits ls rest) =
      .ok (ls.map (makeLiteral fa), rest) := by
  intro ls
  induction ls with
  | nil => intro rest _; simp [collect, printLits]
  | cons x xs ih =>
    intro rest hall
    have hx := hall x (List.mem_cons_self ..)
    have b := maxCap_val
    have hx64 : x < 2 ^ 64 := by omega
    simp [collect, printLits, binLiteralLine, literalLine_print vars x hx64 hx,
      makeLiteralChk_eq hv hm hx, ih rest (fun y hy => hall y (List.mem_cons_of_mem _ hy)), bind,
      Except.bind, pure, Except.pure]

/-- the shared sections of a file without AIGER 1.9 sections -/
theorem sections_print {α : Type} (lit : P α) (h : Header) (hb : h.bad = 0) (hi : h.inv = 0)
    (hj : h.just = 0) (hf : h.fair = 0) (inp rest : Bytes) (outs : List α)
    (hc : collect lit h.out inp = .ok (outs, rest)) :
    sections Cfg.fixed lit h inp =
      .ok ({ outputs := outs, bad := [], invariants := [], justice := [], fairness := [] }, rest) := by
  simp [sections, hc, hb, hi, hj, hf, collect, justiceHint, Cfg.fixed, justiceLits, bind, Except.bind,
    pure, Except.pure]

/-! ## the binary AND section -/

theorem binAnds_print {vars fa na : Nat} (hv : vars + 1 = fa + na) (hm : vars ≤ maxCap) :
    ∀ (ands : List (Nat × Nat)) (i : Nat) (gs : List (Lit × Lit)) (rest : Bytes),
    AndsOK i ands → i + ands.length ≤ vars + 1 →
    binAnds fa ands.length i gs (printAndsAig i ands rest) =
      .ok (gs ++ ands.map (fun g => (makeLiteral fa g.1, makeLiteral fa g.2)), rest) := by
  intro ands
  induction ands with
  | nil => intro i gs rest _ _; simp [binAnds, printAndsAig]
  | cons g t ih =>
    intro i gs rest hok hlen
    obtain ⟨a, b⟩ := g
    obtain ⟨ha, hb, ht⟩ := hok
    have bb := maxCap_val
    simp only [List.length_cons] at hlen
    have hi64 : i * 2 < 2 ^ 64 := by omega
    have hd1 : decode7 (encode7 (2 * i - a) ++ (encode7 (a - b) ++ printAndsAig (i + 1) t rest)) =
        some (2 * i - a, encode7 (a - b) ++ printAndsAig (i + 1) t rest) :=
      varint_roundtrip _ (by omega) _
    have hd2 : decode7 (encode7 (a - b) ++ printAndsAig (i + 1) t rest) =
        some (a - b, printAndsAig (i + 1) t rest) :=
      varint_roundtrip _ (by omega) _
    have hin1 : (i * 2 + 2 ^ 64 - (2 * i - a)) % 2 ^ 64 = a := by
      rw [wrapSub (by omega) hi64]; omega
    have hcond : ¬ (2 * i - a > i * 2 ∨ 2 * i - a = 0 ∨ a - b > a) := by omega
    have hl1 := makeLiteralChk_eq (a := a) hv hm (by omega)
    have hl2 := makeLiteralChk_eq (a := b) hv hm (by omega)
    have hsub : a - (a - b) = b := by omega
    have hrec := ih (i + 1) (gs ++ [(makeLiteral fa a, makeLiteral fa b)]) rest ht (by omega)
    simp only [List.length_cons, binAnds, printAndsAig, hd1, hd2, umul_eq hi64, bind, Except.bind,
      hin1, if_neg hcond, hl1, hl2, hsub, hrec]
    simp

/-! ## end of file -/

theorem finish_nil (h : Header) (hsum : h.inputs + h.latches < 2 ^ 64) (fa : Nat)
    (gates : List (Lit × Lit)) (latches : List Lit) (tv : TV) (o b i : List Lit)
    (j : List (List Lit)) (f map : List Lit) :
    finish h fa gates latches tv o b i j f map [] =
      .ok { ninputs := h.inputs + h.latches, inputNames := [], gates := gates,
            aigInputs := h.inputs, latches := latches, latchInit := tv, outputs := o, bad := b,
            invariants := i, justice := j, fairness := f,
            map := if h.binary then canonicalMap fa h.and_ else map,
            outputNames := [], badNames := [], invariantNames := [], justiceNames := [],
            fairnessNames := [] } := by
  simp [finish, symLoop, symKind, commentSection, uadd_eq hsum, bind, Except.bind, pure, Except.pure]

/-! ## (c), binary half: the binary file of `P` parses to `canon P` -/

theorem parse_printAig (c : Bool) (P : Prob) (hP : P.Admissible) :
    parse c (printAig P) = .ok (canon P) := by
  have bb := maxCap_val
  have hvars := hP.vars
  have hv : P.vars = P.ni + 0 + P.ands.length := by simp [Prob.vars]
  have hni : P.ni ≤ maxCap := by unfold Prob.vars at hvars; omega
  have hna : P.ands.length ≤ maxCap := by unfold Prob.vars at hvars; omega
  have hshape : P.vars + 1 = P.fa + P.ands.length := by simp [Prob.vars, Prob.fa]; omega
  have hfa : 1 + P.ni + 0 = P.fa := by simp [Prob.fa]; omega
  unfold parse parseCfg printAig
  rw [header_print_aig P.vars P.ni 0 P.outputs.length P.ands.length hvars hni (by omega) hP.outs hna
    hv]
  have e1 : uadd P.ni 0 = .ok (P.ni + 0) := uadd_eq (by omega)
  have e2 : umul P.ands.length 2 = .ok (P.ands.length * 2) := umul_eq (by omega)
  have e3 : uadd 1 P.ni = .ok (1 + P.ni) := uadd_eq (by omega)
  have e4 : uadd (1 + P.ni) 0 = .ok (1 + P.ni + 0) := uadd_eq (by omega)
  have e5 : uadd (1 + P.ni + 0) P.ands.length = .ok (1 + P.ni + 0 + P.ands.length) :=
    uadd_eq (by omega)
  simp only [bind, Except.bind, e1, e2, e3, e4, e5, if_true]
  rw [hfa]
  unfold parseBinary
  have hsec := sections_print (binLiteralLine P.vars P.fa)
    { binary := true, vars := P.vars, inputs := P.ni, latches := 0, out := P.outputs.length,
      and_ := P.ands.length, bad := 0, inv := 0, just := 0, fair := 0 } rfl rfl rfl rfl _ _ _
    (collect_binLiteralLine_print hshape hvars P.outputs (printAndsAig P.fa P.ands []) hP.outLits)
  have hands := binAnds_print hshape hvars P.ands P.fa [] [] hP.ands (by omega)
  simp only [binLatches, bind, Except.bind, hsec, hands, List.nil_append]
  rw [finish_nil _ (by simp; omega)]
  simp [canon]

/-! ## the ASCII definitions -/

theorem defineVar_at (pre tl : List Lit) (v : Lit) :
    defineVar (pre ++ Lit.undef :: tl) pre.length (.ok v) = .ok (pre ++ v :: tl) := by
  simp [defineVar, bind, Except.bind, pure, Except.pure]

theorem inputLine_print (vars i : Nat) (h64 : 2 * i < 2 ^ 64) (hv : i ≤ vars) (rest : Bytes) :
    inputLine vars (printNat (2 * i) ++ 10 :: rest) = .ok (2 * i, rest) := by
  have e1 : ¬ vars < i := by omega
  simp [inputLine, literal, u64_print (2 * i) h64 _ (noDigit10 rest), e1, eolOrEof_nl, bind,
    Except.bind, pure, Except.pure]

theorem asciiInputs_print (vars : Nat) (hm : vars ≤ maxCap) :
    ∀ (n i : Nat) (pre tail : List Lit) (rest : Bytes), pre.length = i → i + n ≤ vars + 1 →
    asciiInputs vars n i (pre ++ (List.replicate n Lit.undef ++ tail)) (printInputs n i rest) =
      .ok (pre ++ ((List.range' i n).map (fromInputOrFalse false) ++ tail), rest) := by
  have bb := maxCap_val
  intro n
  induction n with
  | zero => intro i pre tail rest _ _; simp [asciiInputs, printInputs]
  | succ n ih =>
    intro i pre tail rest hpre hlen
    have h64 : 2 * i < 2 ^ 64 := by omega
    have hdiv : 2 * i / 2 = i := by omega
    have hmk : mkInputOrFalse false i = .ok (fromInputOrFalse false i) := by
      unfold mkInputOrFalse; rw [if_pos (by omega)]
    have hdef := defineVar_at pre (List.replicate n Lit.undef ++ tail) (fromInputOrFalse false i)
    rw [hpre] at hdef
    have hrec := ih (i + 1) (pre ++ [fromInputOrFalse false i]) tail rest (by simp [hpre]) (by omega)
    simp only [List.append_assoc, List.singleton_append] at hrec
    simp only [asciiInputs, printInputs, inputLine_print vars i h64 (by omega), bind, Except.bind,
      hdiv, hmk, List.replicate_succ, List.cons_append, hdef, hrec]
    simp [List.range'_succ]

theorem asciiAnds_print (vars fa : Nat) (hm : vars ≤ maxCap) :
    ∀ (ands : List (Nat × Nat)) (i : Nat) (pre : List Lit) (gs : List (Nat × Nat)) (rest : Bytes),
    pre.length = fa + i → AndsOK (fa + i) ands → fa + i + ands.length ≤ vars + 1 →
    asciiAnds vars ands.length i (pre ++ List.replicate ands.length Lit.undef) gs
        (printAndsAag (fa + i) ands rest) =
      .ok ((pre ++ (List.range' i ands.length).map (Lit.gate false), gs ++ ands), rest) := by
  have bb := maxCap_val
  intro ands
  induction ands with
  | nil => intro i pre gs rest _ _ _; simp [asciiAnds, printAndsAag]
  | cons g t ih =>
    intro i pre gs rest hpre hok hlen
    obtain ⟨a, b⟩ := g
    obtain ⟨ha, hb, ht⟩ := hok
    simp only [List.length_cons] at hlen
    have hline := andLine_print vars (2 * (fa + i)) a b (by omega) (by omega) (by omega) (by omega)
      (by omega) (by omega) (printAndsAag (fa + i + 1) t rest)
    have hodd : ¬ (2 * (fa + i) % 2 = 1) := by omega
    have hdiv : 2 * (fa + i) / 2 = fa + i := by omega
    have hmk : mkGate false i = .ok (Lit.gate false i) := by
      unfold mkGate; rw [if_pos (by omega)]
    have hdef := defineVar_at pre (List.replicate t.length Lit.undef) (Lit.gate false i)
    rw [hpre] at hdef
    have hrec := ih (i + 1) (pre ++ [Lit.gate false i]) (gs ++ [(a, b)]) rest (by simp [hpre]; omega)
      ht (by omega)
    simp only [List.append_assoc, List.singleton_append] at hrec
    have hidx : fa + (i + 1) = fa + i + 1 := rfl
    rw [hidx] at hrec
    simp only [List.length_cons, asciiAnds, printAndsAag, hline, bind, Except.bind, if_neg hodd, hdiv,
      hmk, List.replicate_succ, hdef, hrec]
    simp [List.range'_succ]

/-! ## translation through the canonical map -/

theorem canonicalMap_getElem? (fa na k : Nat) (hk : k < fa + na) :
    (canonicalMap fa na)[k]? =
      some (if fa ≤ k then Lit.gate false (k - fa) else fromInputOrFalse false k) := by
  unfold canonicalMap
  by_cases h : fa ≤ k
  · rw [if_pos h, List.getElem?_append_right (by simpa using h)]
    simp only [List.length_map, List.length_range]
    rw [List.getElem?_map, List.getElem?_range (by omega)]
    rfl
  · rw [if_neg h, List.getElem?_append_left (by simpa using Nat.lt_of_not_le h)]
    rw [List.getElem?_map, List.getElem?_range (Nat.lt_of_not_le h)]
    rfl

theorem mapLit_canonical (fa na a : Nat) (ha : a / 2 < fa + na) (hfa : fa ≤ 2 ^ 61) :
    mapLit (canonicalMap fa na) a = .ok (makeLiteral fa a, false) := by
  unfold mapLit makeLiteral
  rw [canonicalMap_getElem? fa na (a / 2) ha]
  by_cases h : fa ≤ a / 2
  · simp [h, Lit.xorB, Lit.undef]
  · have hlt : a / 2 < fa := Nat.lt_of_not_le h
    simp only [h, if_false]
    unfold fromInputOrFalse
    by_cases h0 : a / 2 = 0
    · simp [h0, Lit.xorB, Lit.undef]
    · have hne : Lit.input false (a / 2 - 1) ≠ Lit.undef := by
        unfold Lit.undef Lit.undefIdx
        intro hh
        injection hh with _ h2
        omega
      simp [h0, Lit.xorB, hne]

theorem mapSlice_canonical (fa na : Nat) (hfa : fa ≤ 2 ^ 61) : ∀ (ls : List Nat),
    (∀ x ∈ ls, x / 2 < fa + na) →
    mapSlice (canonicalMap fa na) ls = .ok (ls.map (makeLiteral fa), false) := by
  intro ls
  induction ls with
  | nil => intro _; simp [mapSlice]
  | cons x xs ih =>
    intro hall
    simp [mapSlice, mapLit_canonical fa na x (hall x (List.mem_cons_self ..)) hfa,
      ih (fun y hy => hall y (List.mem_cons_of_mem _ hy)), bind, Except.bind, pure, Except.pure]

theorem mapGates_canonical (fa na : Nat) (hfa : fa ≤ 2 ^ 61) : ∀ (gs : List (Nat × Nat)),
    (∀ g ∈ gs, g.1 / 2 < fa + na ∧ g.2 / 2 < fa + na) →
    mapGates (canonicalMap fa na) gs =
      .ok (gs.map (fun g => (makeLiteral fa g.1, makeLiteral fa g.2)), false) := by
  intro gs
  induction gs with
  | nil => intro _; simp [mapGates]
  | cons g t ih =>
    intro hall
    obtain ⟨a, b⟩ := g
    have hab := hall (a, b) (List.mem_cons_self ..)
    simp [mapGates, mapLit_canonical fa na a hab.1 hfa, mapLit_canonical fa na b hab.2 hfa,
      ih (fun y hy => hall y (List.mem_cons_of_mem _ hy)), bind, Except.bind, pure, Except.pure]

/-- the right-hand sides of admissible gates are in range -/
theorem AndsOK.range : ∀ (ands : List (Nat × Nat)) (i : Nat), AndsOK i ands →
    ∀ g ∈ ands, g.1 / 2 < i + ands.length ∧ g.2 / 2 < i + ands.length := by
  intro ands
  induction ands with
  | nil => intro i _ g hg; simp at hg
  | cons x t ih =>
    intro i hok g hg
    obtain ⟨a, b⟩ := x
    obtain ⟨ha, hb, ht⟩ := hok
    simp only [List.length_cons]
    rcases List.mem_cons.mp hg with rfl | hg
    · dsimp only; omega
    · have := ih (i + 1) ht g hg
      omega

/-! ## (c), ASCII half: the canonical ASCII file of `P` parses to `canon P` -/

theorem canonicalMap_split (ni na : Nat) :
    canonicalMap (ni + 1) na =
      (Lit.const false :: (List.range' 1 ni).map (fromInputOrFalse false)) ++
        (List.range' 0 na).map (Lit.gate false) := by
  unfold canonicalMap
  rw [List.range_eq_range', List.range_eq_range', List.range'_succ]
  simp [fromInputOrFalse]

theorem cycleCheck_ok (c : Bool) (gates : List (Lit × Lit)) (n : Nat)
    (h : c = true → findCycle gates = .ok none) : cycleCheck c gates n = .ok () := by
  unfold cycleCheck
  cases c with
  | false => simp
  | true => simp [h rfl]

/-- the ASCII half, with the verdict of `find_cycle` as a hypothesis (discharged in
`parse_printAag`) -/
theorem parse_printAag_of_acyclic (c : Bool) (P : Prob) (hP : P.Admissible)
    (hcyc : c = true → findCycle (canon P).gates = .ok none) :
    parse c (printAag P) = .ok (canon P) := by
  have bb := maxCap_val
  have hvars := hP.vars
  have hni : P.ni ≤ maxCap := by unfold Prob.vars at hvars; omega
  have hna : P.ands.length ≤ maxCap := by unfold Prob.vars at hvars; omega
  have hfa : 1 + P.ni + 0 = P.fa := by simp [Prob.fa]; omega
  have hfa' : P.fa = P.ni + 1 := rfl
  have hvv : P.vars = P.ni + P.ands.length := rfl
  unfold parse parseCfg printAag
  rw [header_print_aag P.vars P.ni 0 P.outputs.length P.ands.length hvars hni (by omega) hP.outs hna
    (by unfold Prob.vars; omega)]
  have e1 : uadd P.ni 0 = .ok (P.ni + 0) := uadd_eq (by omega)
  have e2 : umul P.ands.length 2 = .ok (P.ands.length * 2) := umul_eq (by omega)
  have e3 : uadd 1 P.ni = .ok (1 + P.ni) := uadd_eq (by omega)
  have e4 : uadd (1 + P.ni) 0 = .ok (1 + P.ni + 0) := uadd_eq (by omega)
  have e5 : uadd (1 + P.ni + 0) P.ands.length = .ok (1 + P.ni + 0 + P.ands.length) :=
    uadd_eq (by omega)
  simp only [bind, Except.bind, e1, e2, e3, e4, e5, Bool.false_eq_true, if_false]
  rw [hfa]
  unfold parseAscii
  have e6 : uadd P.vars 1 = .ok (P.vars + 1) := uadd_eq (by omega)
  -- the input section
  have hI : asciiInputs P.vars P.ni 1 (Lit.const false :: List.replicate P.vars Lit.undef)
      (printInputs P.ni 1 (printLits P.outputs (printAndsAag P.fa P.ands []))) =
      .ok ((Lit.const false :: (List.range' 1 P.ni).map (fromInputOrFalse false)) ++
        List.replicate P.ands.length Lit.undef,
        printLits P.outputs (printAndsAag P.fa P.ands [])) := by
    have := asciiInputs_print P.vars hvars P.ni 1 [Lit.const false]
      (List.replicate P.ands.length Lit.undef)
      (printLits P.outputs (printAndsAag P.fa P.ands [])) rfl (by rw [hvv]; omega)
    have hrep : List.replicate P.vars Lit.undef =
        List.replicate P.ni Lit.undef ++ List.replicate P.ands.length Lit.undef := by
      rw [hvv, List.replicate_append_replicate]
    rw [hrep]
    simpa using this
  -- the output section
  have hsec := sections_print (literalLine P.vars)
    { binary := false, vars := P.vars, inputs := P.ni, latches := 0, out := P.outputs.length,
      and_ := P.ands.length, bad := 0, inv := 0, just := 0, fair := 0 } rfl rfl rfl rfl _ _ _
    (collect_literalLine_print P.vars P.outputs (printAndsAag P.fa P.ands []) hP.outLits hvars)
  -- the AND section
  have hA : asciiAnds P.vars P.ands.length 0
      ((Lit.const false :: (List.range' 1 P.ni).map (fromInputOrFalse false)) ++
        List.replicate P.ands.length Lit.undef) [] (printAndsAag P.fa P.ands []) =
      .ok ((canonicalMap P.fa P.ands.length, P.ands), []) := by
    have := asciiAnds_print P.vars P.fa hvars P.ands 0
      (Lit.const false :: (List.range' 1 P.ni).map (fromInputOrFalse false)) [] []
      (by simp [Prob.fa]) (by simpa using hP.ands) (by rw [hvv, hfa']; omega)
    have hs : canonicalMap P.fa P.ands.length = _ := canonicalMap_split P.ni P.ands.length
    rw [hs]
    simpa using this
  have hrange := AndsOK.range P.ands P.fa hP.ands
  have hfa61 : P.fa ≤ 2 ^ 61 := by rw [hfa']; omega
  have hO := mapSlice_canonical P.fa P.ands.length hfa61 P.outputs
    (fun x hx => by have := hP.outLits x hx; rw [hvv] at this; rw [hfa']; omega)
  have hG := mapGates_canonical P.fa P.ands.length hfa61 P.ands hrange
  have hN : mapSlice (canonicalMap P.fa P.ands.length) [] = .ok ([], false) := by simp [mapSlice]
  have hNN : mapSlices (canonicalMap P.fa P.ands.length) [] = .ok ([], false) := by simp [mapSlices]
  have hC := cycleCheck_ok c _ P.ands.length hcyc
  simp only [canon] at hC
  simp only [bind, Except.bind, pure, Except.pure, e6, List.replicate_succ, hI, asciiLatches, hsec, hA,
    hN, hO, hNN, hG, Bool.or_self, Bool.false_eq_true, if_false, hC]
  rw [finish_nil _ (by simp; omega)]
  simp [canon]

/-! ## the canonical gates are topologically ordered: `find_cycle` accepts them -/

theorem gateLt_makeLiteral (fa i a : Nat) (h : a < 2 * (fa + i)) : GateLt i (makeLiteral fa a) := by
  unfold makeLiteral
  split
  · show a / 2 - fa < i
    omega
  · unfold fromInputOrFalse
    split <;> trivial

theorem topo_of_andsOK (fa : Nat) : ∀ (ands : List (Nat × Nat)) (k0 : Nat), AndsOK (fa + k0) ands →
    ∀ k g, (ands.map (fun g => (makeLiteral fa g.1, makeLiteral fa g.2)))[k]? = some g →
      GateLt (k0 + k) g.1 ∧ GateLt (k0 + k) g.2 := by
  intro ands
  induction ands with
  | nil => intro k0 _ k g hg; simp at hg
  | cons x t ih =>
    intro k0 hok k g hg
    obtain ⟨a, b⟩ := x
    obtain ⟨ha, hb, ht⟩ := hok
    cases k with
    | zero =>
      simp at hg
      subst hg
      exact ⟨gateLt_makeLiteral fa k0 a ha, gateLt_makeLiteral fa k0 b (by omega)⟩
    | succ k =>
      simp only [List.map_cons, List.getElem?_cons_succ] at hg
      have := ih (k0 + 1) ht k g hg
      have e : k0 + 1 + k = k0 + (k + 1) := by omega
      rw [e] at this
      exact this

theorem canon_topo (P : Prob) (hP : P.Admissible) : Topo (canon P).gates := by
  intro k g hg
  have := topo_of_andsOK P.fa P.ands 0 (by simpa using hP.ands) k g hg
  simpa using this

/-- **parse_printAag** ((c)/(d) for the combinational AIGER 1.0 subset, ASCII half): the canonical
ASCII file of an admissible problem is accepted, with or without the acyclicity check, and parses to
`canon P` -/
theorem parse_printAag (c : Bool) (P : Prob) (hP : P.Admissible) :
    parse c (printAag P) = .ok (canon P) :=
  parse_printAag_of_acyclic c P hP (fun _ => findCycle_topo (canon_topo P hP))

/-- **aag_aig_equiv** ((c) for the combinational AIGER 1.0 subset): the ASCII and the binary file
of one admissible problem parse to the same problem, namely `canon P` -/
theorem aag_aig_equiv (c c' : Bool) (P : Prob) (hP : P.Admissible) :
    parse c (printAag P) = parse c' (printAig P) ∧ parse c' (printAig P) = .ok (canon P) :=
  ⟨(parse_printAag c P hP).trans (parse_printAig c' P hP).symm, parse_printAig c' P hP⟩

/-- the AIGER documentation's AND example `aag 3 2 0 1 1 / 2 / 4 / 6 / 6 4 2` -/
def exProb : Prob := { ni := 2, outputs := [6], ands := [(4, 2)] }

theorem exProb_admissible : exProb.Admissible :=
  ⟨by decide, by decide, by decide, by simp [AndsOK, exProb, Prob.fa]⟩

theorem printNat_small (n : Nat) (h : n < 10) : printNat n = [48 + n] := by
  rw [printNat, if_pos h]

/-- non-vacuity: the printers produce exactly the files of the documentation -/
example : printAag exProb =
    [97, 97, 103, 32, 51, 32, 50, 32, 48, 32, 49, 32, 49, 10, 50, 10, 52, 10, 54, 10, 54, 32, 52, 32,
      50, 10] := by
  simp [printAag, printHeader, printInputs, printLits, printAndsAag, exProb, Prob.vars, Prob.fa,
    printNat_small]
example : printAig exProb =
    [97, 105, 103, 32, 51, 32, 50, 32, 48, 32, 49, 32, 49, 10, 54, 10, 2, 2] := by
  simp [printAig, printHeader, printLits, printAndsAig, exProb, Prob.vars, Prob.fa, printNat_small,
    encode7]
example : (canon exProb).gates = [(.input false 1, .input false 0)] ∧
    (canon exProb).outputs = [.gate false 0] := by decide

end OxiddModel.AigerParse
