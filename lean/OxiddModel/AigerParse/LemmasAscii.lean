import OxiddModel.AigerParse.LemmasSections

/-!
# The ASCII branch: definitions into `aig.map`, the literal translation
-/
namespace OxiddModel.AigerParse

open OxiddModel.Circuit OxiddModel.Aiger

/-- the literal names a constant, an existing circuit input (input or latch) or an existing gate -/
def LitOK (nin ngates : Nat) : Lit → Prop
  | .const _ => True
  | .input _ i => i < nin
  | .gate _ g => g < ngates

/-- an entry of `aig.map`: `UNDEF`, `FALSE`, or a positive literal of the circuit -/
def MapEntry (nin ngates : Nat) (e : Lit) : Prop :=
  e = Lit.undef ∨ e = .const false ∨ (∃ i, i < nin ∧ e = .input false i) ∨
    (∃ g, g < ngates ∧ e = .gate false g)

theorem LitOK_xorB {nin ng : Nat} {l : Lit} (b : Bool) (h : LitOK nin ng l) :
    LitOK nin ng (l.xorB b) := by
  cases l <;> simp [Lit.xorB, LitOK] at h ⊢ <;> exact h

theorem MapEntry.litOK {nin ng : Nat} {e : Lit} (h : MapEntry nin ng e) (hne : e ≠ Lit.undef) :
    LitOK nin ng e := by
  rcases h with h | h | ⟨i, hi, h⟩ | ⟨g, hg, h⟩
  · exact absurd h hne
  · subst h; trivial
  · subst h; exact hi
  · subst h; exact hg

theorem fromInputOrFalse_entry {nin ng v : Nat} (hv : v ≤ nin) :
    MapEntry nin ng (fromInputOrFalse false v) := by
  unfold fromInputOrFalse
  split
  · exact .inr (.inl rfl)
  · exact .inr (.inr (.inl ⟨v - 1, by omega, rfl⟩))

theorem defineVar_sat {ar : Prop} {Good : Lit → Prop} {map : List Lit} {var : Nat} {val : Res Lit}
    (hlen : var < map.length) (hmap : ∀ e ∈ map, Good e) (hval : Sat ar val Good) :
    Sat ar (defineVar map var val) (fun m' => m'.length = map.length ∧ ∀ e ∈ m', Good e) := by
  unfold defineVar
  rw [List.getElem?_eq_getElem hlen]
  dsimp only
  split
  · exact Sat.fail
  · apply Sat.bind hval
    intro v hv
    apply Sat.pure
    refine ⟨by simp, ?_⟩
    intro e he
    rcases List.mem_or_eq_of_mem_set he with h | h
    · exact hmap e h
    · subst h; exact hv

theorem inputLine_sat {ar : Prop} (vars : Nat) (inp : Bytes) :
    Sat ar (inputLine vars inp) (fun p => p.1 / 2 ≤ vars) := by
  unfold inputLine
  apply Sat.bind (literal_sat vars inp)
  rintro ⟨l, r⟩ ⟨hl, _⟩
  dsimp only
  split
  · exact Sat.throwFail
  · apply Sat.bind (eolOrEof_sat r)
    rintro ⟨_, r'⟩ _
    exact Sat.pure hl

theorem asciiInputs_sat {ar : Prop} {vars nin ng : Nat} : ∀ (n i : Nat) (map : List Lit) (inp : Bytes),
    i + n ≤ nin + 1 → nin ≤ 2 ^ 61 → map.length = vars + 1 → (∀ e ∈ map, MapEntry nin ng e) →
    Sat ar (asciiInputs vars n i map inp)
      (fun p => p.1.length = vars + 1 ∧ ∀ e ∈ p.1, MapEntry nin ng e) := by
  intro n
  induction n with
  | zero => intro i map inp _ _ hl hm; simp only [asciiInputs]; exact Sat.ok ⟨hl, hm⟩
  | succ n ih =>
    intro i map inp hi hnin hl hm
    simp only [asciiInputs]
    apply Sat.bind (inputLine_sat vars inp)
    rintro ⟨lit, rest⟩ hlit
    apply Sat.bind (defineVar_sat (Good := MapEntry nin ng) (by dsimp only at hlit; omega) hm
      ((mkInputOrFalse_sat (by omega)).mono (fun l hl => by subst hl; exact fromInputOrFalse_entry (by omega))))
    rintro map' ⟨hl', hm'⟩
    exact ih (i + 1) map' rest (by omega) hnin (by omega) hm'

theorem optSpaceU64_len (inp : Bytes) : (optSpaceU64 inp).2.length ≤ inp.length := by
  unfold optSpaceU64
  have h1 := space1_sat (ar := False) inp
  split
  · rename_i r heq
    rw [heq] at h1
    have h2 := u64_sat (ar := False) r
    split
    · rename_i v r' heq2
      rw [heq2] at h2
      have h1' : r.length < inp.length := h1
      have h2' : r'.length < r.length := h2
      show r'.length ≤ inp.length
      omega
    · exact Nat.le_refl _
  · exact Nat.le_refl _

theorem latchInitExt_sat {ar : Prop} (latch : Nat) (inp : Bytes) :
    Sat ar (latchInitExt latch inp) (fun _ => True) := by
  unfold latchInitExt
  split
  · exact Sat.ok trivial
  · split
    · exact Sat.ok trivial
    · split
      · exact Sat.ok trivial
      · split
        · exact Sat.ok trivial
        · exact Sat.fail

theorem latchLine_sat {ar : Prop} (vars : Nat) (inp : Bytes) :
    Sat ar (latchLine vars inp) (fun p => p.1.1 / 2 ≤ vars ∧ p.1.2.1 / 2 ≤ vars) := by
  unfold latchLine
  apply Sat.bind (literal_sat vars inp)
  rintro ⟨lit, r0⟩ ⟨hl, _⟩
  apply Sat.bind (space1_sat r0)
  rintro ⟨_, r1⟩ _
  apply Sat.bind (literal_sat vars r1)
  rintro ⟨nxt, r2⟩ ⟨hn, _⟩
  dsimp only
  split
  · exact Sat.throwFail
  · apply Sat.bind (latchInitExt_sat lit r2)
    rintro ⟨init, r3⟩ _
    apply Sat.bind (eolOrEof_sat r3)
    rintro ⟨_, r4⟩ _
    exact Sat.pure ⟨hl, hn⟩

/-- invariant of the latch loop -/
structure LatchAccOK (vars nin ng k : Nat) (tvlen : Nat) (acc : LatchAcc) : Prop where
  len : acc.map.length = vars + 1
  map : ∀ e ∈ acc.map, MapEntry nin ng e
  next : ∀ x ∈ acc.next, x / 2 ≤ vars
  nextLen : acc.next.length = k
  tv : acc.tv.len = tvlen

theorem asciiLatches_sat {ar : Prop} {vars nin ng tvlen : Nat} :
    ∀ (n i k : Nat) (acc : LatchAcc) (inp : Bytes),
    i + n ≤ nin + 1 → nin ≤ 2 ^ 61 → LatchAccOK vars nin ng k tvlen acc →
    Sat ar (asciiLatches vars n i acc inp) (fun p => LatchAccOK vars nin ng (k + n) tvlen p.1) := by
  intro n
  induction n with
  | zero => intro i k acc inp _ _ h; simp only [asciiLatches]; exact Sat.ok h
  | succ n ih =>
    intro i k acc inp hi hnin hacc
    simp only [asciiLatches]
    apply Sat.bind (latchLine_sat vars inp)
    rintro ⟨⟨lit, nxt, init⟩, rest⟩ ⟨hlit, hnxt⟩
    dsimp only at hlit hnxt ⊢
    apply Sat.bind (defineVar_sat (Good := MapEntry nin ng) (by rw [hacc.len]; omega) hacc.map
      ((mkInputOrFalse_sat (by omega)).mono (fun l hl => by subst hl; exact fromInputOrFalse_entry (by omega))))
    rintro map' ⟨hl', hm'⟩
    apply Sat.bind (TV.push_sat acc.tv init)
    intro tv' htv
    have := ih (i + 1) (k + 1) { map := map', next := acc.next ++ [nxt], tv := tv' } rest (by omega) hnin
      ⟨by rw [hl', hacc.len], hm', by
        intro x hx
        rcases List.mem_append.mp hx with hx | hx
        · exact hacc.next x hx
        · simp at hx; subst hx; exact hnxt,
       by simp [hacc.nextLen], by rw [htv, hacc.tv]⟩
    have e : k + 1 + n = k + (n + 1) := by omega
    rw [e] at this
    exact this

theorem andLine_sat {ar : Prop} (vars : Nat) (inp : Bytes) :
    Sat ar (andLine vars inp)
      (fun p => p.1.1 / 2 ≤ vars ∧ p.1.2.1 / 2 ≤ vars ∧ p.1.2.2 / 2 ≤ vars) := by
  unfold andLine
  apply Sat.bind (literal_sat vars inp)
  rintro ⟨lit, r0⟩ ⟨hl, _⟩
  apply Sat.bind (space1_sat r0)
  rintro ⟨_, r1⟩ _
  apply Sat.bind (literal_sat vars r1)
  rintro ⟨in1, r2⟩ ⟨h1, _⟩
  apply Sat.bind (space1_sat r2)
  rintro ⟨_, r3⟩ _
  apply Sat.bind (literal_sat vars r3)
  rintro ⟨in2, r4⟩ ⟨h2, _⟩
  apply Sat.bind (eolOrEof_sat r4)
  rintro ⟨_, r5⟩ _
  exact Sat.pure ⟨hl, h1, h2⟩

theorem asciiAnds_sat {ar : Prop} {vars nin ng : Nat} :
    ∀ (n i : Nat) (map : List Lit) (gs : List (Nat × Nat)) (inp : Bytes),
    i + n ≤ ng → ng ≤ 2 ^ 61 → map.length = vars + 1 → (∀ e ∈ map, MapEntry nin ng e) →
    gs.length = i → (∀ g ∈ gs, g.1 / 2 ≤ vars ∧ g.2 / 2 ≤ vars) →
    Sat ar (asciiAnds vars n i map gs inp)
      (fun p => p.1.1.length = vars + 1 ∧ (∀ e ∈ p.1.1, MapEntry nin ng e) ∧
        p.1.2.length = i + n ∧ ∀ g ∈ p.1.2, g.1 / 2 ≤ vars ∧ g.2 / 2 ≤ vars) := by
  intro n
  induction n with
  | zero => intro i map gs inp _ _ hl hm hg hgs; simp only [asciiAnds]; exact Sat.ok ⟨hl, hm, hg, hgs⟩
  | succ n ih =>
    intro i map gs inp hi hng hl hm hg hgs
    simp only [asciiAnds]
    apply Sat.bind (andLine_sat vars inp)
    rintro ⟨⟨lit, in1, in2⟩, rest⟩ ⟨hlit, h1, h2⟩
    dsimp only at hlit h1 h2 ⊢
    split
    · exact Sat.throwFail
    · apply Sat.bind (defineVar_sat (Good := MapEntry nin ng) (by omega) hm
        ((mkGate_sat (by omega)).mono (fun l hl => by
          subst hl; exact .inr (.inr (.inr ⟨i, by omega, rfl⟩)))))
      rintro map' ⟨hl', hm'⟩
      have := ih (i + 1) map' (gs ++ [(in1, in2)]) rest (by omega) hng (by omega) hm' (by simp [hg])
        (by
          intro g hgm
          rcases List.mem_append.mp hgm with hgm | hgm
          · exact hgs g hgm
          · simp at hgm; subst hgm; exact ⟨h1, h2⟩)
      have e : i + 1 + n = i + (n + 1) := by omega
      rw [e] at this
      exact this

/-! ## translation through the map -/

theorem mapLit_sat {ar : Prop} {nin ng : Nat} {map : List Lit} {a : Nat} (ha : a / 2 < map.length)
    (hm : ∀ e ∈ map, MapEntry nin ng e) :
    Sat ar (mapLit map a) (fun p => p.2 = false → LitOK nin ng p.1) := by
  unfold mapLit
  rw [List.getElem?_eq_getElem ha]
  apply Sat.ok
  intro hu
  have hne : map[a / 2] ≠ Lit.undef := by
    intro h; rw [h] at hu; simp at hu
  exact LitOK_xorB _ ((hm _ (List.getElem_mem ha)).litOK hne)

theorem mapSlice_sat {ar : Prop} {nin ng vars : Nat} {map : List Lit} (hl : map.length = vars + 1)
    (hm : ∀ e ∈ map, MapEntry nin ng e) : ∀ (as : List Nat), (∀ a ∈ as, a / 2 ≤ vars) →
    Sat ar (mapSlice map as)
      (fun p => p.1.length = as.length ∧ (p.2 = false → ∀ l ∈ p.1, LitOK nin ng l)) := by
  intro as
  induction as with
  | nil => intro _; simp only [mapSlice]; exact Sat.ok ⟨rfl, by simp⟩
  | cons a as ih =>
    intro hall
    simp only [mapSlice]
    apply Sat.bind (mapLit_sat (by have := hall a (List.mem_cons_self ..); omega) hm)
    rintro ⟨l, u⟩ hlu
    apply Sat.bind (ih (fun x hx => hall x (List.mem_cons_of_mem _ hx)))
    rintro ⟨ls, us⟩ ⟨hlen, hls⟩
    apply Sat.pure
    refine ⟨by simp [hlen], ?_⟩
    intro hf x hx
    simp only [Bool.or_eq_false_iff] at hf
    rcases List.mem_cons.mp hx with rfl | hx
    · exact hlu hf.1
    · exact hls hf.2 x hx

theorem mapSlices_sat {ar : Prop} {nin ng vars : Nat} {map : List Lit} (hl : map.length = vars + 1)
    (hm : ∀ e ∈ map, MapEntry nin ng e) : ∀ (as : List (List Nat)),
    (∀ l ∈ as, ∀ a ∈ l, a / 2 ≤ vars) →
    Sat ar (mapSlices map as)
      (fun p => p.1.length = as.length ∧ (p.2 = false → ∀ l ∈ p.1, ∀ x ∈ l, LitOK nin ng x)) := by
  intro as
  induction as with
  | nil => intro _; simp only [mapSlices]; exact Sat.ok ⟨rfl, by simp⟩
  | cons a as ih =>
    intro hall
    simp only [mapSlices]
    apply Sat.bind (mapSlice_sat hl hm a (hall a (List.mem_cons_self ..)))
    rintro ⟨l, u⟩ ⟨_, hlu⟩
    apply Sat.bind (ih (fun x hx => hall x (List.mem_cons_of_mem _ hx)))
    rintro ⟨ls, us⟩ ⟨hlen, hls⟩
    apply Sat.pure
    refine ⟨by simp [hlen], ?_⟩
    intro hf x hx
    simp only [Bool.or_eq_false_iff] at hf
    rcases List.mem_cons.mp hx with rfl | hx
    · exact hlu hf.1
    · exact hls hf.2 x hx

theorem mapGates_sat {ar : Prop} {nin ng vars : Nat} {map : List Lit} (hl : map.length = vars + 1)
    (hm : ∀ e ∈ map, MapEntry nin ng e) : ∀ (gs : List (Nat × Nat)),
    (∀ g ∈ gs, g.1 / 2 ≤ vars ∧ g.2 / 2 ≤ vars) →
    Sat ar (mapGates map gs)
      (fun p => p.1.length = gs.length ∧
        (p.2 = false → ∀ g ∈ p.1, LitOK nin ng g.1 ∧ LitOK nin ng g.2)) := by
  intro gs
  induction gs with
  | nil => intro _; simp only [mapGates]; exact Sat.ok ⟨rfl, by simp⟩
  | cons g gs ih =>
    intro hall
    obtain ⟨a, b⟩ := g
    simp only [mapGates]
    have hab := hall (a, b) (List.mem_cons_self ..)
    apply Sat.bind (mapLit_sat (by have := hab.1; dsimp only at this; omega) hm)
    rintro ⟨la, ua⟩ hla
    apply Sat.bind (mapLit_sat (by have := hab.2; dsimp only at this; omega) hm)
    rintro ⟨lb, ub⟩ hlb
    apply Sat.bind (ih (fun x hx => hall x (List.mem_cons_of_mem _ hx)))
    rintro ⟨ls, us⟩ ⟨hlen, hls⟩
    apply Sat.pure
    refine ⟨by simp [hlen], ?_⟩
    intro hf x hx
    simp only [Bool.or_eq_false_iff] at hf
    rcases List.mem_cons.mp hx with rfl | hx
    · exact ⟨hla hf.1.1, hlb hf.1.2⟩
    · exact hls hf.2 x hx

end OxiddModel.AigerParse
