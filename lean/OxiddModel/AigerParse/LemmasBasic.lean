import OxiddModel.AigerParse.Model

/-!
# A small program logic for the parser model, and the specifications of the primitives

`Sat ar r Q`: if `r` is a value it satisfies `Q`; if `r` is a model panic, it is an arithmetic
overflow and `ar` holds (`ar = False`: no panic at all).
-/
namespace OxiddModel.AigerParse

open OxiddModel.Circuit OxiddModel.Aiger

def Sat {α : Type} (ar : Prop) (r : Res α) (Q : α → Prop) : Prop :=
  match r with
  | .ok a => Q a
  | .error d => ∀ k, d = .panic k → k = .arith ∧ ar

theorem Sat.ok {α : Type} {ar : Prop} {Q : α → Prop} {a : α} (h : Q a) : Sat ar (.ok a) Q := h

theorem Sat.pure {α : Type} {ar : Prop} {Q : α → Prop} {a : α} (h : Q a) :
    Sat ar (pure a : Res α) Q := h

theorem Sat.syntax {α : Type} {ar : Prop} {Q : α → Prop} : Sat ar (.error .syntax : Res α) Q := by
  intro k hk; cases hk

theorem Sat.fail {α : Type} {ar : Prop} {Q : α → Prop} {c : Cls} :
    Sat ar (.error (.fail c) : Res α) Q := by
  intro k hk; cases hk

theorem Sat.throwFail {α : Type} {ar : Prop} {Q : α → Prop} {c : Cls} :
    Sat ar (throw (.fail c) : Res α) Q := by
  intro k hk; cases hk

theorem Sat.bind {α β : Type} {ar : Prop} {x : Res α} {f : α → Res β} {Q : α → Prop}
    {R : β → Prop} (hx : Sat ar x Q) (hf : ∀ a, Q a → Sat ar (f a) R) : Sat ar (x >>= f) R := by
  cases x with
  | ok a => exact hf a hx
  | error d => exact hx

theorem Sat.mono {α : Type} {ar : Prop} {r : Res α} {Q Q' : α → Prop} (h : Sat ar r Q)
    (hq : ∀ a, Q a → Q' a) : Sat ar r Q' := by
  cases r with
  | ok a => exact hq a h
  | error d => exact h

theorem Sat.weaken {α : Type} {ar ar' : Prop} {r : Res α} {Q : α → Prop} (h : Sat ar r Q)
    (har : ar → ar') : Sat ar' r Q := by
  cases r with
  | ok a => exact h
  | error d => intro k hk; exact ⟨(h k hk).1, har (h k hk).2⟩

theorem Sat.of_ok {α : Type} {ar : Prop} {r : Res α} {Q : α → Prop} {a : α} (h : Sat ar r Q)
    (hr : r = .ok a) : Q a := by
  subst hr; exact h

theorem Sat.no_panic {α : Type} {r : Res α} {Q : α → Prop} (h : Sat False r Q) (k : PanicKind) :
    r ≠ .error (.panic k) := by
  intro hr; subst hr; exact (h k rfl).2

/-! ## arithmetic -/

theorem uadd_sat {ar : Prop} {a b : Nat} (h : a + b < 2 ^ 64) :
    Sat ar (uadd a b) (fun s => s = a + b) := by
  unfold uadd; rw [if_pos h]; exact rfl

theorem umul_sat {ar : Prop} {a b : Nat} (h : a * b < 2 ^ 64) :
    Sat ar (umul a b) (fun s => s = a * b) := by
  unfold umul; rw [if_pos h]; exact rfl

theorem mkInputOrFalse_sat {ar : Prop} {neg : Bool} {v : Nat} (h : v ≤ 2 ^ 62 - 2) :
    Sat ar (mkInputOrFalse neg v) (fun l => l = fromInputOrFalse neg v) := by
  unfold mkInputOrFalse; rw [if_pos h]; exact rfl

theorem mkGate_sat {ar : Prop} {neg : Bool} {g : Nat} (h : g ≤ 2 ^ 62 - 1) :
    Sat ar (mkGate neg g) (fun l => l = .gate neg g) := by
  unfold mkGate; rw [if_pos h]; exact rfl

/-! ## primitives: no panic, the rest of the input is not longer -/

theorem u64Loop_len : ∀ (inp : Bytes) (v : Nat) (r : Nat × Bytes),
    u64Loop v inp = some r → r.2.length ≤ inp.length := by
  intro inp
  induction inp with
  | nil => intro v r h; simp [u64Loop] at h; subst h; simp
  | cons b rest ih =>
    intro v r h
    simp only [u64Loop] at h
    split at h
    · split at h
      · have := ih _ _ h; simp; omega
      · cases h
    · cases h; simp

theorem u64_sat {ar : Prop} (inp : Bytes) :
    Sat ar (u64 inp) (fun p => p.2.length < inp.length) := by
  cases inp with
  | nil => exact Sat.syntax
  | cons b rest =>
    simp only [u64]
    split
    · split
      · rename_i r hr
        have := u64Loop_len _ _ _ hr
        show r.2.length < (b :: rest).length
        simp; omega
      · exact Sat.syntax
    · exact Sat.syntax

theorem usize_sat {ar : Prop} (inp : Bytes) :
    Sat ar (usize inp) (fun p => p.1 ≤ maxCap ∧ p.2.length < inp.length) := by
  unfold usize
  apply Sat.bind (u64_sat inp)
  rintro ⟨v, rest⟩ h
  dsimp only
  split
  · exact Sat.throwFail
  · exact Sat.pure ⟨by omega, h⟩

theorem space0_len (inp : Bytes) : (space0 inp).length ≤ inp.length := by
  induction inp with
  | nil => simp [space0]
  | cons b rest ih => simp only [space0]; split <;> simp <;> omega

theorem space1_sat {ar : Prop} (inp : Bytes) :
    Sat ar (space1 inp) (fun p => p.2.length < inp.length) := by
  cases inp with
  | nil => exact Sat.syntax
  | cons b rest =>
    simp only [space1]
    split
    · have := space0_len rest
      show (space0 rest).length < (b :: rest).length
      simp; omega
    · exact Sat.syntax

theorem lineEndingOrEof_sat {ar : Prop} (inp : Bytes) :
    Sat ar (lineEndingOrEof inp) (fun p => p.2.length ≤ inp.length) := by
  unfold lineEndingOrEof
  split
  · exact Sat.ok (Nat.le_refl _)
  · show _ ≤ _; simp
  · show _ ≤ _; simp; omega
  · exact Sat.syntax

theorem eolOrEof_sat {ar : Prop} (inp : Bytes) :
    Sat ar (eolOrEof inp) (fun p => p.2.length ≤ inp.length) := by
  unfold eolOrEof
  exact (lineEndingOrEof_sat (space0 inp)).mono (fun p hp => Nat.le_trans hp (space0_len inp))

theorem spaceUsize_sat {ar : Prop} (inp : Bytes) :
    Sat ar (spaceUsize inp) (fun p => p.1 ≤ maxCap ∧ p.2.length < inp.length) := by
  unfold spaceUsize
  apply Sat.bind (space1_sat inp)
  rintro ⟨_, r⟩ h
  exact (usize_sat r).mono (fun p hp => ⟨hp.1, Nat.lt_trans hp.2 h⟩)

theorem literal_sat {ar : Prop} (vars : Nat) (inp : Bytes) :
    Sat ar (literal vars inp) (fun p => p.1 / 2 ≤ vars ∧ p.2.length < inp.length) := by
  unfold literal
  apply Sat.bind (u64_sat inp)
  rintro ⟨v, rest⟩ h
  dsimp only
  split
  · exact Sat.throwFail
  · exact Sat.pure ⟨by omega, h⟩

theorem literalLine_sat {ar : Prop} (vars : Nat) (inp : Bytes) :
    Sat ar (literalLine vars inp) (fun p => p.1 / 2 ≤ vars ∧ p.2.length < inp.length) := by
  unfold literalLine
  apply Sat.bind (literal_sat vars inp)
  rintro ⟨l, r⟩ ⟨hl, hr⟩
  apply Sat.bind (eolOrEof_sat r)
  rintro ⟨_, r'⟩ hr'
  exact Sat.pure ⟨hl, Nat.lt_of_le_of_lt hr' hr⟩

theorem usizeLine_sat {ar : Prop} (inp : Bytes) :
    Sat ar (usizeLine inp) (fun p => p.1 ≤ maxCap ∧ p.2.length < inp.length) := by
  unfold usizeLine
  apply Sat.bind (usize_sat inp)
  rintro ⟨l, r⟩ ⟨hl, hr⟩
  apply Sat.bind (eolOrEof_sat r)
  rintro ⟨_, r'⟩ hr'
  exact Sat.pure ⟨hl, Nat.lt_of_le_of_lt hr' hr⟩

end OxiddModel.AigerParse
