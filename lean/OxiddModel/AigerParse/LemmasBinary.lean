import OxiddModel.AigerParse.LemmasSym

/-!
# The binary branch: `make_literal`, latches, the delta-coded AND gates (topological order)
-/
namespace OxiddModel.AigerParse

open OxiddModel.Circuit OxiddModel.Aiger

/-- a gate literal names a gate before gate `k` -/
def GateLt (k : Nat) : Lit → Prop
  | .gate _ g => g < k
  | _ => True

/-- every gate refers to earlier gates only -/
def Topo (gs : List (Lit × Lit)) : Prop :=
  ∀ k g, gs[k]? = some g → GateLt k g.1 ∧ GateLt k g.2

theorem Topo.append {gs : List (Lit × Lit)} {x : Lit × Lit} (h : Topo gs)
    (hx : GateLt gs.length x.1 ∧ GateLt gs.length x.2) : Topo (gs ++ [x]) := by
  intro k g hg
  by_cases hk : k < gs.length
  · rw [List.getElem?_append_left hk] at hg
    exact h k g hg
  · have hk' : gs.length ≤ k := Nat.le_of_not_lt hk
    rw [List.getElem?_append_right hk'] at hg
    have : k - gs.length = 0 := by
      cases hkk : k - gs.length with
      | zero => rfl
      | succ m => rw [hkk] at hg; simp at hg
    rw [this] at hg
    simp at hg
    subst hg
    have : k = gs.length := by omega
    subst this
    exact hx

/-- the shape of the variable numbering in the binary format -/
structure BinShape (vars firstAnd nin ng : Nat) : Prop where
  hfa : firstAnd = nin + 1
  hvars : vars + 1 = firstAnd + ng
  hsmall : vars ≤ 2 ^ 62 - 2

theorem makeLiteralChk_sat {ar : Prop} {vars firstAnd nin ng a : Nat}
    (hs : BinShape vars firstAnd nin ng) (ha : a / 2 ≤ vars) :
    Sat ar (makeLiteralChk firstAnd a)
      (fun l => l = makeLiteral firstAnd a ∧ LitOK nin ng l ∧ GateLt (a / 2 - firstAnd + 1) l) := by
  have h1 := hs.hfa; have h2 := hs.hvars; have h3 := hs.hsmall
  unfold makeLiteralChk makeLiteral
  split
  · rename_i hge
    refine (mkGate_sat (by omega)).mono ?_
    intro l hl
    subst hl
    exact ⟨rfl, by show a / 2 - firstAnd < ng; omega, by show a / 2 - firstAnd < _; omega⟩
  · rename_i hlt
    refine (mkInputOrFalse_sat (by omega)).mono ?_
    intro l hl
    subst hl
    refine ⟨rfl, ?_, ?_⟩
    · unfold fromInputOrFalse
      split
      · trivial
      · show a / 2 - 1 < nin; omega
    · unfold fromInputOrFalse
      split <;> trivial

theorem binLiteralLine_sat {ar : Prop} {vars firstAnd nin ng : Nat}
    (hs : BinShape vars firstAnd nin ng) (inp : Bytes) :
    Sat ar (binLiteralLine vars firstAnd inp) (fun q => LitOK nin ng q.1) := by
  unfold binLiteralLine
  apply Sat.bind (literalLine_sat vars inp)
  rintro ⟨l, r⟩ ⟨hl, _⟩
  apply Sat.bind (makeLiteralChk_sat hs hl)
  intro l' hl'
  exact Sat.pure hl'.2.1

theorem binLatches_sat {ar : Prop} {vars firstAnd nin ng tvlen : Nat}
    (hs : BinShape vars firstAnd nin ng) : ∀ (n i k : Nat) (ls : List Lit) (tv : TV) (inp : Bytes),
    i + n ≤ 2 ^ 62 → (∀ l ∈ ls, LitOK nin ng l) → ls.length = k → tv.len = tvlen →
    Sat ar (binLatches vars firstAnd n i ls tv inp)
      (fun p => (∀ l ∈ p.1.1, LitOK nin ng l) ∧ p.1.1.length = k + n ∧ p.1.2.len = tvlen) := by
  intro n
  induction n with
  | zero => intro i k ls tv inp _ h1 h2 h3; simp only [binLatches]; exact Sat.ok ⟨h1, h2, h3⟩
  | succ n ih =>
    intro i k ls tv inp hi hls hk htv
    simp only [binLatches]
    apply Sat.bind (literal_sat vars inp)
    rintro ⟨lit, r0⟩ ⟨hlit, _⟩
    apply Sat.bind (umul_sat (by omega))
    intro latch _
    apply Sat.bind (latchInitExt_sat latch r0)
    rintro ⟨init, r1⟩ _
    apply Sat.bind (eolOrEof_sat r1)
    rintro ⟨_, r2⟩ _
    apply Sat.bind (makeLiteralChk_sat hs hlit)
    intro l hl
    apply Sat.bind (TV.push_sat tv init)
    intro tv' htv'
    have := ih (i + 1) (k + 1) (ls ++ [l]) tv' r2 (by omega)
      (by
        intro x hx
        rcases List.mem_append.mp hx with hx | hx
        · exact hls x hx
        · simp at hx; subst hx; exact hl.2.1)
      (by simp [hk]) (by rw [htv', htv])
    have e : k + 1 + n = k + (n + 1) := by omega
    rw [e] at this
    exact this

theorem wrapSub {lhs d1 : Nat} (h : d1 ≤ lhs) (hl : lhs < 2 ^ 64) :
    (lhs + 2 ^ 64 - d1) % 2 ^ 64 = lhs - d1 := by
  have : lhs + 2 ^ 64 - d1 = (lhs - d1) + 2 ^ 64 := by omega
  rw [this, Nat.add_mod_right, Nat.mod_eq_of_lt (by omega)]

theorem binAnds_sat {ar : Prop} {vars firstAnd nin ng : Nat}
    (hs : BinShape vars firstAnd nin ng) : ∀ (n i : Nat) (gs : List (Lit × Lit)) (inp : Bytes),
    i + n = firstAnd + ng → gs.length + firstAnd = i →
    (∀ g ∈ gs, LitOK nin ng g.1 ∧ LitOK nin ng g.2) → Topo gs →
    Sat ar (binAnds firstAnd n i gs inp)
      (fun p => (∀ g ∈ p.1, LitOK nin ng g.1 ∧ LitOK nin ng g.2) ∧ Topo p.1 ∧
        p.1.length + firstAnd = i + n) := by
  have h1 := hs.hfa; have h2 := hs.hvars; have h3 := hs.hsmall
  intro n
  induction n with
  | zero =>
    intro i gs inp _ hl hg ht
    simp only [binAnds]
    exact Sat.ok ⟨hg, ht, by omega⟩
  | succ n ih =>
    intro i gs inp hi hl hg ht
    simp only [binAnds]
    split
    · exact Sat.fail
    · rename_i d1 r1 _
      split
      · exact Sat.fail
      · rename_i d2 r2 _
        apply Sat.bind (umul_sat (by omega))
        intro lhs hlhs
        subst hlhs
        split
        · exact Sat.throwFail
        · rename_i hchk
          have hd1 : d1 ≤ i * 2 := by omega
          have hw := wrapSub hd1 (by omega)
          rw [hw] at hchk ⊢
          have hd1' : 1 ≤ d1 := by omega
          have hd2 : d2 ≤ i * 2 - d1 := by omega
          apply Sat.bind (makeLiteralChk_sat hs (a := i * 2 - d1) (by omega))
          intro l1 hl1
          apply Sat.bind (makeLiteralChk_sat hs (a := i * 2 - d1 - d2) (by omega))
          intro l2 hl2
          have hlt1 : GateLt gs.length l1 := by
            have := hl1.2.2
            cases l1 with
            | gate nn g => have hg' : g < (i * 2 - d1) / 2 - firstAnd + 1 := this
                           show g < gs.length
                           have hok : g < ng := hl1.2.1
                           -- the gate number is `in1 / 2 - firstAnd`, and `in1 < 2 i`
                           have heq := hl1.1
                           unfold makeLiteral at heq
                           split at heq
                           · injection heq with _ hgeq
                             omega
                           · unfold fromInputOrFalse at heq; split at heq <;> cases heq
            | const b => trivial
            | input nn ii => trivial
          have hlt2 : GateLt gs.length l2 := by
            cases l2 with
            | gate nn g => show g < gs.length
                           have heq := hl2.1
                           unfold makeLiteral at heq
                           split at heq
                           · injection heq with _ hgeq
                             omega
                           · unfold fromInputOrFalse at heq; split at heq <;> cases heq
            | const b => trivial
            | input nn ii => trivial
          have := ih (i + 1) (gs ++ [(l1, l2)]) r2 (by omega) (by simp; omega)
            (by
              intro g hgm
              rcases List.mem_append.mp hgm with hgm | hgm
              · exact hg g hgm
              · simp at hgm; subst hgm; exact ⟨hl1.2.1, hl2.2.1⟩)
            (ht.append ⟨hlt1, hlt2⟩)
          have e : i + 1 + n = i + (n + 1) := by omega
          rw [e] at this
          exact this

end OxiddModel.AigerParse
