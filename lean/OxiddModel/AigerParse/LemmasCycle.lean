import OxiddModel.AigerParse.LemmasAscii

/-!
# `Circuit::find_cycle`: the recursion depth never exceeds the number of gates, no index leaves
the tables
-/
namespace OxiddModel.AigerParse

open OxiddModel.Circuit OxiddModel.Aiger

/-- number of gates not yet discovered -/
def undisc (vis : Visited) : Nat := vis.discovered.count false

theorem count_false_set : ∀ (l : List Bool) (i : Nat), i < l.length → l.getD i false = false →
    (l.set i true).count false + 1 = l.count false := by
  intro l
  induction l with
  | nil => intro i hi; simp at hi
  | cons b l ih =>
    intro i hi hg
    cases i with
    | zero =>
      simp at hg; subst hg; simp
    | succ i =>
      simp only [List.set_cons_succ, List.count_cons]
      have := ih i (by simpa using hi) (by simpa using hg)
      omega

/-- the gate literals among the inputs of the gates name existing gates -/
def GateRef (n : Nat) : Lit → Prop
  | .gate _ g => g < n
  | _ => True

theorem LitOK.gateRef {nin ng : Nat} {l : Lit} (h : LitOK nin ng l) : GateRef ng l := by
  cases l <;> first | trivial | exact h

theorem fcInner_sat {gates : List (Lit × Lit)}
    (hg : ∀ g ∈ gates, GateRef gates.length g.1 ∧ GateRef gates.length g.2) :
    ∀ (fuel : Nat) (vis : Visited) (index : Nat),
    vis.discovered.length = gates.length → undisc vis < fuel → index < gates.length →
    Sat False (fcInner gates fuel vis index)
      (fun p => p.2.discovered.length = gates.length ∧ undisc p.2 ≤ undisc vis) := by
  intro fuel
  induction fuel with
  | zero => intro vis index _ h _; omega
  | succ fuel ih =>
    intro vis index hlen hfuel hidx
    -- the call on one input literal
    have hlit : ∀ (v : Visited) (l : Lit), GateRef gates.length l →
        v.discovered.length = gates.length → undisc v < fuel →
        Sat False (fcLit (fcInner gates fuel) v l)
          (fun p => p.2.discovered.length = gates.length ∧ undisc p.2 ≤ undisc v) := by
      intro v l hl hv hf
      cases l with
      | const b => exact Sat.ok ⟨hv, Nat.le_refl _⟩
      | input n i => exact Sat.ok ⟨hv, Nat.le_refl _⟩
      | gate n g => exact ih v g hv hf hl
    simp only [fcInner]
    split
    · exact Sat.ok ⟨hlen, Nat.le_refl _⟩
    · split
      · exact Sat.ok ⟨hlen, Nat.le_refl _⟩
      · rename_i hfin hdisc
        split
        · omega
        · rw [List.getElem?_eq_getElem hidx]
          have hmem := hg _ (List.getElem_mem hidx)
          generalize gates[index] = ab at hmem
          obtain ⟨a, b⟩ := ab
          dsimp only at hmem ⊢
          have hd : vis.discovered.getD index false = false := by
            simpa using hdisc
          have hcount := count_false_set vis.discovered index (by omega) hd
          have hlen1 : (vis.discovered.set index true).length = gates.length := by simpa using hlen
          have hu1 : undisc { vis with discovered := vis.discovered.set index true } + 1 = undisc vis :=
            hcount
          have h1 := hlit { vis with discovered := vis.discovered.set index true } a hmem.1 hlen1
            (by omega)
          generalize hr1 : fcLit (fcInner gates fuel)
            { vis with discovered := vis.discovered.set index true } a = r1 at h1
          match r1, h1 with
          | .error e, h1 => exact h1
          | .ok (true, v), h1 => exact Sat.ok ⟨h1.1, by have := h1.2; dsimp only at this ⊢; omega⟩
          | .ok (false, v2), h1 =>
            dsimp only
            have h1a : v2.discovered.length = gates.length := h1.1
            have h1b : undisc v2 ≤ undisc { vis with discovered := vis.discovered.set index true } :=
              h1.2
            have h2 := hlit v2 b hmem.2 h1a (by omega)
            generalize hr2 : fcLit (fcInner gates fuel) v2 b = r2 at h2
            match r2, h2 with
            | .error e, h2 => exact h2
            | .ok (true, v), h2 => exact Sat.ok ⟨h2.1, by have := h2.2; dsimp only at this ⊢; omega⟩
            | .ok (false, v3), h2 =>
              dsimp only
              have h2a : v3.discovered.length = gates.length := h2.1
              have h2b : undisc v3 ≤ undisc v2 := h2.2
              exact Sat.ok ⟨h2a, by
                show undisc { v3 with finished := v3.finished.set index true } ≤ undisc vis
                have : undisc { v3 with finished := v3.finished.set index true } = undisc v3 := rfl
                omega⟩

theorem fcRoots_sat {gates : List (Lit × Lit)}
    (hg : ∀ g ∈ gates, GateRef gates.length g.1 ∧ GateRef gates.length g.2) :
    ∀ (n index : Nat) (vis : Visited), index + n = gates.length →
    vis.discovered.length = gates.length →
    Sat False (fcRoots gates (gates.length + 1) n index vis)
      (fun o => ∀ g, o = some g → g < gates.length) := by
  intro n
  induction n with
  | zero => intro index vis _ _; simp only [fcRoots]; exact Sat.ok (by simp)
  | succ n ih =>
    intro index vis hi hlen
    simp only [fcRoots]
    have hu : undisc vis < gates.length + 1 := by
      have : undisc vis ≤ vis.discovered.length := List.count_le_length
      omega
    apply Sat.bind (fcInner_sat hg (gates.length + 1) vis index hlen hu (by omega))
    rintro ⟨c, vis'⟩ ⟨hl', _⟩
    dsimp only
    split
    · apply Sat.pure; intro g hg'; cases hg'; omega
    · exact ih (index + 1) vis' (by omega) hl'

theorem findCycle_sat {gates : List (Lit × Lit)}
    (hg : ∀ g ∈ gates, GateRef gates.length g.1 ∧ GateRef gates.length g.2) :
    Sat False (findCycle gates) (fun o => ∀ g, o = some g → g < gates.length) := by
  unfold findCycle
  exact fcRoots_sat hg gates.length 0 _ (by omega) (by simp)

end OxiddModel.AigerParse
