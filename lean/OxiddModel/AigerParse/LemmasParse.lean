import OxiddModel.AigerParse.LemmasBinary

/-!
# Assembly: `finish`, the two branches, `parse`
-/
namespace OxiddModel.AigerParse

open OxiddModel.Circuit OxiddModel.Aiger

/-- internal consistency of a parsed problem -/
structure Problem'.WF (p : Problem') : Prop where
  ninputs : p.ninputs = p.aigInputs + p.latches.length
  gates : ∀ g ∈ p.gates, LitOK p.ninputs p.gates.length g.1 ∧ LitOK p.ninputs p.gates.length g.2
  latches : ∀ l ∈ p.latches, LitOK p.ninputs p.gates.length l
  outputs : ∀ l ∈ p.outputs, LitOK p.ninputs p.gates.length l
  bad : ∀ l ∈ p.bad, LitOK p.ninputs p.gates.length l
  invariants : ∀ l ∈ p.invariants, LitOK p.ninputs p.gates.length l
  justice : ∀ j ∈ p.justice, ∀ l ∈ j, LitOK p.ninputs p.gates.length l
  fairness : ∀ l ∈ p.fairness, LitOK p.ninputs p.gates.length l
  map : ∀ e ∈ p.map, MapEntry p.ninputs p.gates.length e
  init : p.latchInit.len = p.latches.length
  inputNames : p.inputNames = [] ∨ p.inputNames.length = p.ninputs
  outputNames : p.outputNames = [] ∨ p.outputNames.length = p.outputs.length
  badNames : p.badNames = [] ∨ p.badNames.length = p.bad.length
  invariantNames : p.invariantNames = [] ∨ p.invariantNames.length = p.invariants.length
  justiceNames : p.justiceNames = [] ∨ p.justiceNames.length = p.justice.length
  fairnessNames : p.fairnessNames = [] ∨ p.fairnessNames.length = p.fairness.length

theorem canonicalMap_entry {nin ng : Nat} : ∀ e ∈ canonicalMap (nin + 1) ng, MapEntry nin ng e := by
  intro e he
  unfold canonicalMap at he
  rcases List.mem_append.mp he with he | he
  · obtain ⟨v, hv, rfl⟩ := List.mem_map.mp he
    have : v < nin + 1 := List.mem_range.mp hv
    exact fromInputOrFalse_entry (by omega)
  · obtain ⟨g, hg, rfl⟩ := List.mem_map.mp he
    exact .inr (.inr (.inr ⟨g, List.mem_range.mp hg, rfl⟩))

theorem finish_sat {ar : Prop} {h : Header} (hh : HeaderOK h) {firstAnd : Nat}
    {gates : List (Lit × Lit)} {latches : List Lit} {tv : TV}
    {outputs bad invariants : List Lit} {justice : List (List Lit)} {fairness map : List Lit}
    (hfa : firstAnd = h.inputs + h.latches + 1)
    (hgl : gates.length = h.and_)
    (hg : ∀ g ∈ gates, LitOK (h.inputs + h.latches) h.and_ g.1 ∧ LitOK (h.inputs + h.latches) h.and_ g.2)
    (hll : latches.length = h.latches)
    (hl : ∀ l ∈ latches, LitOK (h.inputs + h.latches) h.and_ l)
    (htv : tv.len = h.latches)
    (hol : outputs.length = h.out) (ho : ∀ l ∈ outputs, LitOK (h.inputs + h.latches) h.and_ l)
    (hbl : bad.length = h.bad) (hb : ∀ l ∈ bad, LitOK (h.inputs + h.latches) h.and_ l)
    (hil : invariants.length = h.inv)
    (hi : ∀ l ∈ invariants, LitOK (h.inputs + h.latches) h.and_ l)
    (hjl : justice.length = h.just)
    (hj : ∀ j ∈ justice, ∀ l ∈ j, LitOK (h.inputs + h.latches) h.and_ l)
    (hfl : fairness.length = h.fair) (hf : ∀ l ∈ fairness, LitOK (h.inputs + h.latches) h.and_ l)
    (hm : ∀ e ∈ map, MapEntry (h.inputs + h.latches) h.and_ e) (inp : Bytes) :
    Sat ar (finish h firstAnd gates latches tv outputs bad invariants justice fairness map inp)
      (fun p => p.WF ∧ p.gates = gates) := by
  unfold finish
  apply Sat.bind (symLoop_sat hh (inp.length + 1) _ inp (SymInv.init h) (Nat.lt_succ_self _))
  rintro ⟨symbols, r0⟩ hs
  apply Sat.bind (commentSection_sat r0)
  rintro ⟨_, _⟩ _
  have h1 := hh.inputs; have h2 := hh.latches
  rw [maxCap_val] at h1 h2
  apply Sat.bind (uadd_sat (by omega))
  intro nin hnin
  subst hnin
  apply Sat.pure
  have hs : SymInv h symbols := hs
  have s0 := hs.getD 0; have s1 := hs.getD 1; have s2 := hs.getD 2
  have s3 := hs.getD 3; have s4 := hs.getD 4; have s5 := hs.getD 5
  simp only [symCnt] at s0 s1 s2 s3 s4 s5
  refine ⟨⟨?_, ?_, ?_, ?_, ?_, ?_, ?_, ?_, ?_, ?_, ?_, ?_, ?_, ?_, ?_, ?_⟩, rfl⟩
  · show h.inputs + h.latches = h.inputs + latches.length; rw [hll]
  · show ∀ g ∈ gates, _; rw [hgl]; exact hg
  · show ∀ l ∈ latches, _; rw [hgl]; exact hl
  · show ∀ l ∈ outputs, _; rw [hgl]; exact ho
  · show ∀ l ∈ bad, _; rw [hgl]; exact hb
  · show ∀ l ∈ invariants, _; rw [hgl]; exact hi
  · show ∀ j ∈ justice, _; rw [hgl]; exact hj
  · show ∀ l ∈ fairness, _; rw [hgl]; exact hf
  · show ∀ e ∈ (if h.binary = true then canonicalMap firstAnd h.and_ else map), _
    rw [hgl]
    split
    · rw [hfa]; exact canonicalMap_entry
    · exact hm
  · show tv.len = latches.length; rw [htv, hll]
  · exact s0
  · show _ ∨ _ = outputs.length; rw [hol]; exact s1
  · show _ ∨ _ = bad.length; rw [hbl]; exact s2
  · show _ ∨ _ = invariants.length; rw [hil]; exact s3
  · show _ ∨ _ = justice.length; rw [hjl]; exact s4
  · show _ ∨ _ = fairness.length; rw [hfl]; exact s5

theorem cycleCheck_sat {ar : Prop} {nin : Nat} {gates : List (Lit × Lit)} (c : Bool)
    (hg : ∀ g ∈ gates, LitOK nin gates.length g.1 ∧ LitOK nin gates.length g.2) :
    Sat ar (cycleCheck c gates gates.length) (fun _ => True) := by
  unfold cycleCheck
  split
  · have := findCycle_sat (gates := gates) (fun g hgm => ⟨(hg g hgm).1.gateRef, (hg g hgm).2.gateRef⟩)
    generalize findCycle gates = r at this ⊢
    match r, this with
    | .error e, h => exact h.weaken False.elim
    | .ok none, _ => exact Sat.ok trivial
    | .ok (some g), h =>
      have : g < gates.length := h g rfl
      dsimp only
      rw [if_pos this]
      exact Sat.fail
  · exact Sat.ok trivial

theorem parseBinary_sat (cfg : Cfg) {h : Header} (hh : HeaderOK h) (hb : h.binary = true)
    {firstLatch firstAnd : Nat}
    (hfl : firstLatch = 1 + h.inputs) (hfa : firstAnd = firstLatch + h.latches) (inp : Bytes) :
    Sat (cfg.justiceSum = false ∧ 17 ≤ h.just) (parseBinary cfg h firstLatch firstAnd inp)
      (fun p => p.WF ∧ Topo p.gates) := by
  have h0 := hh.vars; have h1 := hh.inputs; have h2 := hh.latches; have h4 := hh.and_
  have hv := hh.binVars hb
  rw [maxCap_val] at h0 h1 h2 h4
  have hs : BinShape h.vars firstAnd (h.inputs + h.latches) h.and_ :=
    ⟨by omega, by omega, by omega⟩
  unfold parseBinary
  apply Sat.bind (binLatches_sat (tvlen := h.latches) hs h.latches firstLatch 0 [] ⟨[], h.latches⟩ inp
    (by omega) (by simp) rfl rfl)
  rintro ⟨⟨latches, tv⟩, r0⟩ ⟨hl, hll, htv⟩
  apply Sat.bind (sections_sat cfg (fun i => binLiteralLine_sat hs i) h r0)
  rintro ⟨sec, r1⟩ hsec
  have hsec : SecOK (LitOK (h.inputs + h.latches) h.and_) h sec := hsec
  apply Sat.bind (binAnds_sat hs h.and_ firstAnd [] r1 rfl (by simp) (by simp)
    (by intro k g hg; simp at hg))
  rintro ⟨gates, r2⟩ ⟨hg, ht, hgl⟩
  have hgl' : gates.length + firstAnd = firstAnd + h.and_ := hgl
  refine (finish_sat hh (by omega) (by omega) hg (by simpa using hll) hl htv
    hsec.outLen hsec.outputs hsec.badLen hsec.bad hsec.invLen hsec.invariants hsec.justLen
    hsec.justice hsec.fairLen hsec.fairness (by simp) r2).mono ?_
  rintro p ⟨hp, hpg⟩
  exact ⟨hp, by rw [hpg]; exact ht⟩

theorem parseAscii_sat (cfg : Cfg) {h : Header} (hh : HeaderOK h) (c : Bool)
    {firstLatch firstAnd : Nat}
    (hfl : firstLatch = 1 + h.inputs) (hfa : firstAnd = firstLatch + h.latches) (inp : Bytes) :
    Sat (cfg.justiceSum = false ∧ 17 ≤ h.just) (parseAscii cfg c h firstLatch firstAnd inp)
      (fun p => p.WF) := by
  have h0 := hh.vars; have h1 := hh.inputs; have h2 := hh.latches; have h4 := hh.and_
  have hmv := hh.minVars
  rw [maxCap_val] at h0 h1 h2 h4
  unfold parseAscii
  apply Sat.bind (uadd_sat (by omega))
  intro n hn
  subst hn
  rw [List.replicate_succ]
  apply Sat.bind (Sat.pure (Q := fun m => m = Lit.const false :: List.replicate h.vars Lit.undef) rfl)
  intro map0 hmap0
  subst hmap0
  have hm0 : ∀ e ∈ Lit.const false :: List.replicate h.vars Lit.undef,
      MapEntry (h.inputs + h.latches) h.and_ e := by
    intro e he
    rcases List.mem_cons.mp he with rfl | he
    · exact .inr (.inl rfl)
    · exact .inl (List.eq_of_mem_replicate he)
  apply Sat.bind (asciiInputs_sat (nin := h.inputs + h.latches) (ng := h.and_) h.inputs 1 _ inp
    (by omega) (by omega) (by simp) hm0)
  rintro ⟨map1, r0⟩ ⟨hl1, hm1⟩
  apply Sat.bind (asciiLatches_sat (nin := h.inputs + h.latches) (ng := h.and_) (tvlen := h.latches)
    h.latches firstLatch 0 ⟨map1, [], ⟨[], h.latches⟩⟩ r0 (by omega) (by omega)
    ⟨hl1, hm1, by simp, rfl, rfl⟩)
  rintro ⟨lacc, r1⟩ hlacc
  have hlacc : LatchAccOK h.vars (h.inputs + h.latches) h.and_ (0 + h.latches) h.latches lacc := hlacc
  apply Sat.bind (sections_sat cfg (Qe := fun x => x / 2 ≤ h.vars)
    (fun i => (literalLine_sat h.vars i).mono (fun q hq => hq.1)) h r1)
  rintro ⟨raw, r2⟩ hraw
  have hraw : SecOK (fun x => x / 2 ≤ h.vars) h raw := hraw
  apply Sat.bind (asciiAnds_sat (nin := h.inputs + h.latches) (ng := h.and_) h.and_ 0 lacc.map [] r2
    (by omega) (by omega) hlacc.len hlacc.map rfl (by simp))
  rintro ⟨⟨map2, rawGates⟩, r3⟩ ⟨hl2, hm2, hrgl, hrg⟩
  dsimp only at hl2 hm2 hrgl hrg ⊢
  apply Sat.bind (mapSlice_sat hl2 hm2 lacc.next hlacc.next)
  rintro ⟨latches, u0⟩ ⟨hlen0, hok0⟩
  apply Sat.bind (mapSlice_sat hl2 hm2 raw.outputs hraw.outputs)
  rintro ⟨outputs, u1⟩ ⟨hlen1, hok1⟩
  apply Sat.bind (mapSlice_sat hl2 hm2 raw.bad hraw.bad)
  rintro ⟨bad, u2⟩ ⟨hlen2, hok2⟩
  apply Sat.bind (mapSlice_sat hl2 hm2 raw.invariants hraw.invariants)
  rintro ⟨invariants, u3⟩ ⟨hlen3, hok3⟩
  apply Sat.bind (mapSlices_sat hl2 hm2 raw.justice hraw.justice)
  rintro ⟨justice, u4⟩ ⟨hlen4, hok4⟩
  apply Sat.bind (mapSlice_sat hl2 hm2 raw.fairness hraw.fairness)
  rintro ⟨fairness, u5⟩ ⟨hlen5, hok5⟩
  apply Sat.bind (mapGates_sat hl2 hm2 rawGates hrg)
  rintro ⟨gates, u6⟩ ⟨hlen6, hok6⟩
  dsimp only at hlen0 hok0 hlen1 hok1 hlen2 hok2 hlen3 hok3 hlen4 hok4 hlen5 hok5 hlen6 hok6 ⊢
  split
  · exact Sat.throwFail
  · rename_i hu
    simp only [Bool.or_eq_true, not_or, Bool.not_eq_true] at hu
    obtain ⟨⟨⟨⟨⟨⟨e0, e1⟩, e2⟩, e3⟩, e4⟩, e5⟩, e6⟩ := hu
    have hgl : gates.length = h.and_ := by omega
    have hgok := hok6 e6
    have hcc := cycleCheck_sat (ar := cfg.justiceSum = false ∧ 17 ≤ h.just) (nin := h.inputs + h.latches) c
      (gates := gates) (by rw [hgl]; exact hgok)
    rw [← hlen6]
    apply Sat.bind hcc
    intro _ _
    exact (finish_sat hh (by omega) hgl hgok (by rw [hlen0, hlacc.nextLen]; omega) (hok0 e0) hlacc.tv
      (by rw [hlen1, hraw.outLen]) (hok1 e1) (by rw [hlen2, hraw.badLen]) (hok2 e2)
      (by rw [hlen3, hraw.invLen]) (hok3 e3) (by rw [hlen4, hraw.justLen]) (hok4 e4)
      (by rw [hlen5, hraw.fairLen]) (hok5 e5) hm2 r3).mono (fun p hp => hp.1)

/-- the specification of the parser model: an accepted problem is well-formed (and topologically
ordered in the binary format); the only model panic is the overflow of the justice sum of the code
before commit a6ab3b1, which needs a header with at least 17 justice properties -/
theorem parseCfg_sat (cfg : Cfg) (c : Bool) (inp : Bytes) :
    Sat (cfg.justiceSum = false ∧ ∃ h r, header inp = .ok (h, r) ∧ 17 ≤ h.just) (parseCfg cfg c inp)
      (fun p => p.WF ∧ ((∃ h r, header inp = .ok (h, r) ∧ h.binary = true) → Topo p.gates)) := by
  have hhead := header_sat (ar := False) inp
  unfold parseCfg
  cases hh : header inp with
  | error d =>
    rw [hh] at hhead
    exact hhead.weaken False.elim
  | ok q =>
    obtain ⟨h, r0⟩ := q
    rw [hh] at hhead
    have hok : HeaderOK h := hhead
    refine Sat.weaken (ar := cfg.justiceSum = false ∧ 17 ≤ h.just) ?_
      (fun hj => ⟨hj.1, h, r0, rfl, hj.2⟩)
    have h1 := hok.inputs; have h2 := hok.latches; have h4 := hok.and_
    rw [maxCap_val] at h1 h2 h4
    apply Sat.bind (Sat.ok (Q := fun q => q = (h, r0)) rfl)
    rintro ⟨h', r'⟩ heq
    cases heq
    apply Sat.bind (uadd_sat (by omega))
    intro _ _
    apply Sat.bind (umul_sat (by omega))
    intro _ _
    apply Sat.bind (uadd_sat (by omega))
    intro firstLatch hfl
    apply Sat.bind (uadd_sat (by omega))
    intro firstAnd hfa
    apply Sat.bind (uadd_sat (by omega))
    intro _ _
    split
    · rename_i hb
      refine (parseBinary_sat cfg hok hb hfl hfa r0).mono ?_
      rintro p ⟨hp, ht⟩
      exact ⟨hp, fun _ => ht⟩
    · rename_i hb
      refine (parseAscii_sat cfg hok c hfl hfa r0).mono ?_
      intro p hp
      refine ⟨hp, ?_⟩
      rintro ⟨h', r', he, hb'⟩
      cases he
      exact absurd hb' hb

/-- the specification of `parse` (the code as it is): no panic, accepted problems are well-formed -/
theorem parse_sat (c : Bool) (inp : Bytes) :
    Sat False (parse c inp)
      (fun p => p.WF ∧ ((∃ h r, header inp = .ok (h, r) ∧ h.binary = true) → Topo p.gates)) :=
  (parseCfg_sat Cfg.fixed c inp).weaken (fun h => by cases h.1)

end OxiddModel.AigerParse
