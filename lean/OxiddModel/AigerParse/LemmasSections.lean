import OxiddModel.AigerParse.LemmasBasic

/-!
# Header, `collect`, the justice sum, the shared sections, `TVBitVec::push`
-/
namespace OxiddModel.AigerParse

open OxiddModel.Circuit OxiddModel.Aiger

/-- what an accepted header guarantees -/
structure HeaderOK (h : Header) : Prop where
  vars : h.vars ≤ maxCap
  inputs : h.inputs ≤ maxCap
  latches : h.latches ≤ maxCap
  out : h.out ≤ maxCap
  and_ : h.and_ ≤ maxCap
  bad : h.bad ≤ maxCap
  inv : h.inv ≤ maxCap
  just : h.just ≤ maxCap
  fair : h.fair ≤ maxCap
  minVars : h.inputs + h.latches + h.and_ ≤ h.vars
  binVars : h.binary = true → h.vars = h.inputs + h.latches + h.and_

theorem uadd_any {a b : Nat} : Sat True (uadd a b) (fun s => s = a + b) := by
  unfold uadd; split
  · exact rfl
  · intro k hk; cases hk; exact ⟨rfl, trivial⟩

theorem headerNums_sat {ar : Prop} : ∀ (k parsed : Nat) (inp : Bytes),
    Sat ar (headerNums k parsed inp) (fun p => ∀ x ∈ p.1, x ≤ maxCap) := by
  intro k
  induction k with
  | zero => intro parsed inp; simp only [headerNums]; exact Sat.ok (by simp)
  | succ k ih =>
    intro parsed inp
    simp only [headerNums]
    have h1 := spaceUsize_sat (ar := ar) inp
    split
    · rename_i n rest heq
      rw [heq] at h1
      have h2 := ih (parsed + 1) rest
      split
      · rename_i ns rest' heq2
        rw [heq2] at h2
        apply Sat.ok
        intro x hx
        rcases List.mem_cons.mp hx with rfl | hx
        · exact h1.1
        · exact h2 x hx
      · rename_i e heq2
        rw [heq2] at h2; exact h2
    · rename_i p heq
      rw [heq] at h1; exact h1
    · split
      · rename_i e heq hne
        rw [heq] at h1; exact h1
      · exact Sat.ok (by simp)

theorem getD_le_of_all {l : List Nat} {m : Nat} (h : ∀ x ∈ l, x ≤ m) (i : Nat) : l.getD i 0 ≤ m := by
  rw [List.getD_eq_getElem?_getD]
  cases hi : l[i]? with
  | none => simp
  | some x => simp; exact h x (List.mem_of_getElem? hi)

theorem maxCap_val : maxCap = 1152921504606846975 := rfl

theorem wordEnd_sat {ar : Prop} (b : Bool) (rest : Bytes) :
    Sat ar (wordEnd b rest) (fun _ => True) := by
  unfold wordEnd
  split
  · exact Sat.ok trivial
  · split
    · exact Sat.syntax
    · exact Sat.ok trivial

theorem format_sat {ar : Prop} (inp : Bytes) : Sat ar (format inp) (fun _ => True) := by
  unfold format
  split
  · exact wordEnd_sat _ _
  · split
    · exact wordEnd_sat _ _
    · exact Sat.syntax

theorem header_sat {ar : Prop} (inp : Bytes) : Sat ar (header inp) (fun p => HeaderOK p.1) := by
  unfold header
  apply Sat.bind (format_sat inp)
  rintro ⟨binary, r0⟩ _
  apply Sat.bind (headerNums_sat 9 0 r0)
  rintro ⟨nums, r1⟩ hn
  apply Sat.bind (eolOrEof_sat r1)
  rintro ⟨_, r2⟩ _
  have g := fun i => getD_le_of_all hn i
  have g1 := g 1; have g2 := g 2; have g4 := g 4; have g0 := g 0
  rw [maxCap_val] at g1 g2 g4 g0
  dsimp only at g1 g2 g4 g0 ⊢
  apply Sat.bind (uadd_sat (by omega))
  intro s hs
  apply Sat.bind (uadd_sat (by omega))
  intro mv hmv
  subst hs; subst hmv
  split
  · rename_i hbin
    split
    · exact Sat.throwFail
    · rename_i hne
      have : nums.getD 0 0 = nums.getD 1 0 + nums.getD 2 0 + nums.getD 4 0 := by
        simpa using hne
      exact Sat.pure ⟨g 0, g 1, g 2, g 3, g 4, g 5, g 6, g 7, g 8, by dsimp only; omega,
        fun _ => this⟩
  · rename_i hbin
    split
    · exact Sat.throwFail
    · rename_i hlt
      exact Sat.pure ⟨g 0, g 1, g 2, g 3, g 4, g 5, g 6, g 7, g 8, by dsimp only; omega,
        fun hb => absurd hb hbin⟩

/-! ## `collect` -/

theorem collect_sat {α : Type} {ar : Prop} {p : P α} {Qe : α → Prop}
    (hp : ∀ inp, Sat ar (p inp) (fun q => Qe q.1)) : ∀ (n : Nat) (inp : Bytes),
    Sat ar (collect p n inp) (fun q => q.1.length = n ∧ ∀ x ∈ q.1, Qe x) := by
  intro n
  induction n with
  | zero => intro inp; simp only [collect]; exact Sat.ok ⟨rfl, by simp⟩
  | succ n ih =>
    intro inp
    simp only [collect]
    apply Sat.bind (hp inp)
    rintro ⟨a, rest⟩ ha
    apply Sat.bind (ih rest)
    rintro ⟨as, rest'⟩ ⟨hl, hall⟩
    apply Sat.pure
    refine ⟨by simp [hl], ?_⟩
    intro x hx
    rcases List.mem_cons.mp hx with rfl | hx
    · exact ha
    · exact hall x hx

theorem justiceLits_sat {α : Type} {ar : Prop} {p : P α} {Qe : α → Prop}
    (hp : ∀ inp, Sat ar (p inp) (fun q => Qe q.1)) : ∀ (ns : List Nat) (inp : Bytes),
    Sat ar (justiceLits p ns inp) (fun q => q.1.length = ns.length ∧ ∀ l ∈ q.1, ∀ x ∈ l, Qe x) := by
  intro ns
  induction ns with
  | nil => intro inp; simp only [justiceLits]; exact Sat.ok ⟨rfl, by simp⟩
  | cons n ns ih =>
    intro inp
    simp only [justiceLits]
    apply Sat.bind (collect_sat hp n inp)
    rintro ⟨ls, rest⟩ ⟨_, hls⟩
    apply Sat.bind (ih rest)
    rintro ⟨lss, rest'⟩ ⟨hl, hall⟩
    apply Sat.pure
    refine ⟨by simp [hl], ?_⟩
    intro l hl
    rcases List.mem_cons.mp hl with rfl | hl
    · exact hls
    · exact hall l hl

/-! ## the justice sum: the one reachable panic -/

theorem sumLeft_small : ∀ (ls : List Nat) (acc : Nat), (∀ x ∈ ls, x ≤ maxCap) →
    acc + ls.length * maxCap < 2 ^ 64 → Sat False (sumLeft acc ls) (fun _ => True) := by
  intro ls
  induction ls with
  | nil => intro acc _ _; simp only [sumLeft]; exact Sat.ok trivial
  | cons x xs ih =>
    intro acc hall hb
    simp only [sumLeft]
    have hx : x ≤ maxCap := hall x (List.mem_cons_self ..)
    have hlen : (x :: xs).length * maxCap = xs.length * maxCap + maxCap := by
      simp [Nat.succ_mul]
    rw [hlen] at hb
    apply Sat.bind (uadd_sat (by omega))
    intro s hs
    subst hs
    exact ih (acc + x) (fun y hy => hall y (List.mem_cons_of_mem _ hy)) (by omega)

theorem sumLeft_any : ∀ (ls : List Nat) (acc : Nat), Sat True (sumLeft acc ls) (fun _ => True) := by
  intro ls
  induction ls with
  | nil => intro acc; simp only [sumLeft]; exact Sat.ok trivial
  | cons x xs ih =>
    intro acc
    simp only [sumLeft]
    apply Sat.bind uadd_any
    intro s _
    exact ih s

/-- an overflow of the sum needs at least 17 justice properties -/
theorem sumLeft_sat (ls : List Nat) (hall : ∀ x ∈ ls, x ≤ maxCap) :
    Sat (17 ≤ ls.length) (sumLeft 0 ls) (fun _ => True) := by
  by_cases h : ls.length ≤ 16
  · refine (sumLeft_small ls 0 hall ?_).weaken False.elim
    have : ls.length * maxCap ≤ 16 * maxCap := Nat.mul_le_mul_right _ h
    rw [maxCap_val] at this ⊢
    omega
  · exact (sumLeft_any ls 0).weaken (fun _ => by omega)

/-! ## the sections -/

structure SecOK {α : Type} (Qe : α → Prop) (h : Header) (s : Sections α) : Prop where
  outputs : ∀ x ∈ s.outputs, Qe x
  bad : ∀ x ∈ s.bad, Qe x
  invariants : ∀ x ∈ s.invariants, Qe x
  justice : ∀ l ∈ s.justice, ∀ x ∈ l, Qe x
  fairness : ∀ x ∈ s.fairness, Qe x
  outLen : s.outputs.length = h.out
  badLen : s.bad.length = h.bad
  invLen : s.invariants.length = h.inv
  justLen : s.justice.length = h.just
  fairLen : s.fairness.length = h.fair

/-- the fixed hint cannot panic; the old sum only for at least 17 counts -/
theorem justiceHint_sat (cfg : Cfg) (ls : List Nat) (hall : ∀ x ∈ ls, x ≤ maxCap) (input : Bytes) :
    Sat (cfg.justiceSum = false ∧ 17 ≤ ls.length) (justiceHint cfg ls input) (fun _ => True) := by
  unfold justiceHint
  split
  · exact Sat.ok trivial
  · rename_i hc
    exact (sumLeft_sat ls hall).weaken (fun h17 => ⟨by simpa using hc, h17⟩)

theorem sections_sat {α : Type} {p : P α} {Qe : α → Prop} (cfg : Cfg)
    (hp : ∀ inp, Sat False (p inp) (fun q => Qe q.1)) (h : Header) (inp : Bytes) :
    Sat (cfg.justiceSum = false ∧ 17 ≤ h.just) (sections cfg p h inp) (fun q => SecOK Qe h q.1) := by
  have hp' : ∀ inp, Sat (cfg.justiceSum = false ∧ 17 ≤ h.just) (p inp) (fun q => Qe q.1) :=
    fun inp => (hp inp).weaken False.elim
  unfold sections
  apply Sat.bind (collect_sat hp' h.out inp)
  rintro ⟨outputs, r0⟩ ⟨ho1, ho2⟩
  apply Sat.bind (collect_sat hp' h.bad r0)
  rintro ⟨bad, r1⟩ ⟨hb1, hb2⟩
  apply Sat.bind (collect_sat hp' h.inv r1)
  rintro ⟨invs, r2⟩ ⟨hi1, hi2⟩
  apply Sat.bind (collect_sat (Qe := fun x => x ≤ maxCap)
    (fun inp => (usizeLine_sat inp).mono (fun q hq => hq.1)) h.just r2)
  rintro ⟨justLen, r3⟩ ⟨hj1, hj2⟩
  dsimp only at hj1 hj2 ⊢
  apply Sat.bind ((justiceHint_sat cfg justLen hj2 r3).weaken (fun hh => ⟨hh.1, by omega⟩))
  intro _ _
  apply Sat.bind (justiceLits_sat hp' justLen r3)
  rintro ⟨justice, r4⟩ ⟨hjl, hjall⟩
  apply Sat.bind (collect_sat hp' h.fair r4)
  rintro ⟨fair, r5⟩ ⟨hf1, hf2⟩
  exact Sat.pure ⟨ho2, hb2, hi2, hjall, hf2, ho1, hb1, hi1, hjl.trans hj1, hf1⟩

/-! ## `TVBitVec::push` -/

theorem TV.push_sat {ar : Prop} (t : TV) (v : Option Bool) :
    Sat ar (t.push v) (fun t' => t'.len = t.len) := by
  unfold TV.push
  dsimp only
  split
  · exact Sat.ok rfl
  · rename_i hoff
    split
    · rename_i hl
      have : t.data = [] := by simpa using hl
      rw [this] at hoff; simp at hoff
    · exact Sat.ok rfl

end OxiddModel.AigerParse
