import OxiddModel.AigerParse.LemmasCycle

/-!
# The symbol table: indices stay inside the name tables, the loop consumes input
-/
namespace OxiddModel.AigerParse

open OxiddModel.Circuit OxiddModel.Aiger

/-- length of the name table `symbols[k]` once it is allocated -/
def symCnt (h : Header) : Nat → Nat
  | 0 => h.inputs + h.latches
  | 1 => h.out
  | 2 => h.bad
  | 3 => h.inv
  | 4 => h.just
  | 5 => h.fair
  | _ => 0

/-- six tables, each empty or complete -/
def SymInv (h : Header) (s : Symbols) : Prop :=
  s.length = 6 ∧ ∀ k l, s[k]? = some l → l = [] ∨ l.length = symCnt h k

theorem SymInv.getD {h : Header} {s : Symbols} (hs : SymInv h s) (k : Nat) :
    s.getD k [] = [] ∨ (s.getD k []).length = symCnt h k := by
  rw [List.getD_eq_getElem?_getD]
  cases hk : s[k]? with
  | none => left; rfl
  | some l => exact hs.2 k l hk

theorem SymInv.init (h : Header) : SymInv h (List.replicate 6 []) := by
  refine ⟨by simp, ?_⟩
  intro k l hl
  left
  have := List.mem_of_getElem? hl
  simp at this
  exact this

theorem symKind_spec {inp r : Bytes} {kind : Nat} (h : symKind inp = some (kind, r)) :
    kind ≤ 6 ∧ r.length < inp.length := by
  unfold symKind at h
  split at h
  all_goals first
    | (cases h; exact ⟨by omega, by simp⟩)
    | skip
  · split at h
    · split at h
      · cases h; exact ⟨by omega, by simp⟩
      · cases h
    · cases h
  · cases h

theorem notLineEnding_sat {ar : Prop} : ∀ (inp : Bytes),
    Sat ar (notLineEnding inp) (fun p => p.2.length ≤ inp.length) := by
  intro inp
  induction inp with
  | nil => simp only [notLineEnding]; exact Sat.ok (Nat.le_refl _)
  | cons b rest ih =>
    simp only [notLineEnding]
    split
    · exact Sat.ok (Nat.le_refl _)
    · split
      · split
        · split
          · exact Sat.ok (Nat.le_refl _)
          · exact Sat.syntax
        · exact Sat.syntax
      · have := ih
        generalize notLineEnding rest = r at this ⊢
        match r, this with
        | .error e, h => exact h
        | .ok (name, r'), h =>
          have h' : r'.length ≤ rest.length := h
          show r'.length ≤ (b :: rest).length
          simp; omega

theorem symTarget_sat {ar : Prop} {h : Header} (hh : HeaderOK h) {kind i count : Nat}
    (hc : symCount h kind = some count) (hi : i < count) :
    Sat ar (symTarget h kind i count)
      (fun p => p.1 < 6 ∧ p.2.1 < p.2.2 ∧ p.2.2 = symCnt h p.1) := by
  have h1 := hh.inputs; have h2 := hh.latches; have h3 := hh.out; have h4 := hh.bad
  have h5 := hh.inv; have h6 := hh.just; have h7 := hh.fair
  rw [maxCap_val] at h1 h2 h3 h4 h5 h6 h7
  unfold symTarget
  split
  · rename_i hk
    subst hk
    simp only [symCount, Option.some.injEq] at hc
    subst hc
    apply Sat.bind (uadd_sat (by omega))
    intro i' hi'
    apply Sat.bind (uadd_sat (by omega))
    intro c' hc'
    subst hi'; subst hc'
    exact Sat.pure ⟨by omega, by dsimp only; omega, by simp only [symCnt]; omega⟩
  · split
    · rename_i _ hk
      subst hk
      simp only [symCount, Option.some.injEq] at hc
      subst hc
      apply Sat.bind (uadd_sat (by omega))
      intro c' hc'
      subst hc'
      exact Sat.pure ⟨by omega, by dsimp only; omega, by simp only [symCnt]⟩
    · rename_i h6' h0'
      apply Sat.pure
      unfold symCount at hc
      split at hc
      · exact absurd rfl h0'
      all_goals first
        | (simp only [Option.some.injEq] at hc; subst hc; exact ⟨by omega, hi, rfl⟩)
        | (exact absurd rfl h6')
        | cases hc

theorem symStore_sat {ar : Prop} {h : Header} {symbols : Symbols} (hs : SymInv h symbols)
    {kind i count : Nat} (hk : kind < 6) (hi : i < count) (hc : count = symCnt h kind)
    (inp : Bytes) :
    Sat ar (symStore symbols kind i count inp)
      (fun p => SymInv h p.1 ∧ p.2.length ≤ inp.length) := by
  unfold symStore
  apply Sat.bind (space1_sat inp)
  rintro ⟨_, r1⟩ h1
  apply Sat.bind (notLineEnding_sat r1)
  rintro ⟨name, r2⟩ h2
  apply Sat.bind (lineEndingOrEof_sat r2)
  rintro ⟨_, r3⟩ h3
  have hklen : kind < symbols.length := by rw [hs.1]; exact hk
  rw [List.getElem?_eq_getElem hklen]
  dsimp only at h1 h2 h3 ⊢
  apply Sat.bind (Sat.pure (Q := fun x => x = symbols[kind]) rfl)
  intro list0 hlist0
  subst hlist0
  have hold := hs.2 kind symbols[kind] (List.getElem?_eq_getElem hklen)
  -- the table after `resize`
  have hlist : (if symbols[kind].isEmpty = true then List.replicate count none else symbols[kind]).length
      = count := by
    split
    · simp
    · rename_i hne
      rcases hold with h0 | h0
      · rw [h0] at hne; simp at hne
      · rw [h0, hc]
  generalize (if symbols[kind].isEmpty = true then List.replicate count none else symbols[kind]) = list
    at hlist ⊢
  rw [List.getElem?_eq_getElem (by omega)]
  apply Sat.bind (Sat.pure (Q := fun _ => True) trivial)
  intro old _
  apply Sat.pure
  refine ⟨⟨by simp [hs.1], ?_⟩, by dsimp only; omega⟩
  intro k l hl
  by_cases hkk : k = kind
  · subst hkk
    rw [List.getElem?_set_self hklen] at hl
    cases hl
    right
    simp [hlist, hc]
  · rw [List.getElem?_set_ne (Ne.symm hkk)] at hl
    exact hs.2 k l hl

theorem symEntry_sat {ar : Prop} {h : Header} (hh : HeaderOK h) {symbols : Symbols}
    (hs : SymInv h symbols) {kind : Nat} (hk : kind ≤ 6) (inp : Bytes) :
    Sat ar (symEntry h symbols kind inp) (fun p => SymInv h p.1 ∧ p.2.length ≤ inp.length) := by
  unfold symEntry
  apply Sat.bind (u64_sat inp)
  rintro ⟨i, r0⟩ h0
  have hsome : ∃ c, symCount h kind = some c := by
    have : kind = 0 ∨ kind = 1 ∨ kind = 2 ∨ kind = 3 ∨ kind = 4 ∨ kind = 5 ∨ kind = 6 := by omega
    rcases this with rfl | rfl | rfl | rfl | rfl | rfl | rfl <;> exact ⟨_, rfl⟩
  obtain ⟨c, hc⟩ := hsome
  rw [hc]
  show Sat ar ((pure c : Res Nat) >>= _) _
  apply Sat.bind (Sat.pure (Q := fun x => x = c) rfl)
  intro count hcount
  subst hcount
  dsimp only at h0 ⊢
  split
  · exact Sat.throwFail
  · rename_i hlt
    apply Sat.bind (symTarget_sat hh hc (by omega))
    rintro ⟨kind', i', count'⟩ ⟨hk', hi', hc'⟩
    exact (symStore_sat hs hk' hi' hc' r0).mono (fun p hp => ⟨hp.1, by
      have h1 : p.2.length ≤ r0.length := hp.2
      have h2 : r0.length < inp.length := h0
      omega⟩)

theorem symLoop_sat {ar : Prop} {h : Header} (hh : HeaderOK h) : ∀ (fuel : Nat) (symbols : Symbols)
    (inp : Bytes), SymInv h symbols → inp.length < fuel →
    Sat ar (symLoop h fuel symbols inp) (fun p => SymInv h p.1) := by
  intro fuel
  induction fuel with
  | zero => intro _ _ _ hf; omega
  | succ fuel ih =>
    intro symbols inp hs hf
    simp only [symLoop]
    split
    · exact Sat.ok hs
    · rename_i kind r hkind
      obtain ⟨hk, hr⟩ := symKind_spec hkind
      apply Sat.bind (symEntry_sat hh hs hk r)
      rintro ⟨symbols', rest⟩ ⟨hs', hrest⟩
      exact ih symbols' rest hs' (by have : rest.length ≤ r.length := hrest; omega)

theorem commentSection_sat {ar : Prop} (inp : Bytes) :
    Sat ar (commentSection inp) (fun _ => True) := by
  unfold commentSection
  split
  · exact Sat.ok trivial
  · exact Sat.ok trivial
  · exact Sat.syntax

end OxiddModel.AigerParse
