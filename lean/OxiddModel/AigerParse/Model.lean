import OxiddModel.Circuit.Aiger

/-!
# Byte-level model of the AIGER parser (`crates/oxidd-parser/src/aiger.rs`)

`parse checkAcyclic bytes` mirrors `oxidd_parser::aiger::parse(&options)(bytes)` on raw bytes
(`Bytes = List Nat`, every element `< 256`): the `nom` combinators of `util.rs` and
`nom::character::complete` it is built from (`u64`, `space0/1`, `line_ending`, `not_line_ending`,
`eof`, `tag`, `opt`, `alt`, `word`, `usize`, `eol_or_eof`, `collect`, `collect_pair`), the header
`aag|aig M I L O A [B [C [J [F]]]]`, the ASCII sections (inputs, latches with optional reset,
outputs, bad, constraints, justice, fairness, AND triples, the literal map with its
"second definition" / "undefined literal" checks, `Circuit::find_cycle`), the binary sections
(latches, outputs …, AND gates as two 7-bit deltas — `OxiddModel.Aiger.decode7`), the symbol
table (including `String::from_utf8_lossy`), the comment section, and `TVBitVec::push`.

What the model makes explicit (and `Properties.lean` proves unreachable or characterises):

* the model is parametric in a `Cfg` (one flag per repair of `/repo` the model follows; `Cfg.fixed` =
  the code as it is, which is what the driver runs; `Cfg.beforeFix` keeps the overflow of
  `justice_len.iter().sum()` that commit a6ab3b1 removed).
* every place where the Rust code can **panic** returns `Diag.panic k`: slice/`Vec` indexing
  (`aig.map[var]`, `symbol_list[i]`, `and_gate_spans[..]`; `PanicKind.index`), `unwrap`
  (`last_mut().unwrap()`, `gates.get(index).unwrap()`; `.unwrap`), `usize` arithmetic in builds with
  overflow checks (`.arith`), the `debug_assert!`s of the `Literal` constructors (`.debugAssert`);
  `.fuel` is the model's own artefact for the two loops that are not bounded by a header count (the
  symbol table and the recursion of `find_cycle`).
* `nom`'s `Err::Error` (recoverable: `Diag.syntax`) and `Err::Failure` (`Diag.fail cls`, one class per
  message of `fail`/`fail_with_contexts`) are kept apart because `opt`, `alt` and the header loop
  react to them differently; a model panic is never caught by these.

Out of scope (resource behaviour, see `known_findings.json`: `KF-parser-alloc`,
`KF-parser-deep-chain`): `Vec::with_capacity` / `reserve` / `vec![_; n]` / `resize` are modelled as
always succeeding (the real code aborts or panics with `capacity overflow` when a header count
is huge), and the recursion depth of `find_cycle` is unbounded in the model.
-/
namespace OxiddModel.AigerParse

open OxiddModel.Circuit OxiddModel.Aiger

abbrev Bytes := List Nat

/-- kinds of Rust panics made explicit in the model -/
inductive PanicKind where
  | index | unwrap | arith | debugAssert | fuel
  deriving DecidableEq, Repr, Inhabited

/-- message classes of `fail` / `fail_with_contexts` -/
inductive Cls where
  | numTooLarge      -- util::usize "number too large"
  | headerVars       -- "#vars must be equal to / at least …"
  | varTooLarge      -- ascii::literal "variable too large"
  | inputNegated | latchNegated | gateNegated
  | badInit          -- "initial value must be 0, 1, or the latch literal itself"
  | secondDef        -- "second variable definition"
  | undefLit         -- "undefined literal"
  | cycle            -- "and gate depends on itself"
  | andEof           -- "invalid binary: reached end of file while parsing an and gate"
  | andInvalid       -- "invalid binary: invalid and gate inputs"
  | symUndefined     -- "input/latch/… not defined"
  deriving DecidableEq, Repr, Inhabited

inductive Diag where
  /-- `nom::Err::Error`: a token did not match (recoverable for `opt` / `alt`) -/
  | syntax
  /-- `nom::Err::Failure` with a message of class `c` -/
  | fail (c : Cls)
  /-- the real code would panic here -/
  | panic (k : PanicKind)
  deriving DecidableEq, Repr, Inhabited

def Diag.isPanic : Diag → Bool
  | .panic _ => true
  | _ => false

abbrev Res (α : Type) := Except Diag α
abbrev P (α : Type) := Bytes → Res (α × Bytes)

/-! ## `usize` arithmetic with overflow checks, `Literal` constructors with their debug assertions -/

def uadd (a b : Nat) : Res Nat := if a + b < 2 ^ 64 then .ok (a + b) else .error (.panic .arith)
def umul (a b : Nat) : Res Nat := if a * b < 2 ^ 64 then .ok (a * b) else .error (.panic .arith)

/-- `Literal::from_input_or_false` (`debug_assert!(input <= MAX_INPUT + 1)`) -/
def mkInputOrFalse (neg : Bool) (v : Nat) : Res Lit :=
  if v ≤ 2 ^ 62 - 2 then .ok (fromInputOrFalse neg v) else .error (.panic .debugAssert)

/-- `Literal::from_gate` (`debug_assert!(gate <= MAX_GATE)`) -/
def mkGate (neg : Bool) (g : Nat) : Res Lit :=
  if g ≤ 2 ^ 62 - 1 then .ok (.gate neg g) else .error (.panic .debugAssert)

/-! ## character classes and the `nom` primitives -/

def isDigit (b : Nat) : Bool := 48 ≤ b && b ≤ 57
def isSpace (b : Nat) : Bool := b == 32 || b == 9
/-- `u8::is_ascii_alphanumeric` -/
def isAlnum (b : Nat) : Bool := isDigit b || (65 ≤ b && b ≤ 90) || (97 ≤ b && b ≤ 122)

/-- `nom::character::complete::u64` after the first digit: `checked_mul(10)`, `checked_add(d)` -/
def u64Loop (value : Nat) : Bytes → Option (Nat × Bytes)
  | [] => some (value, [])
  | b :: rest =>
    if isDigit b then
      let v := value * 10 + (b - 48)
      if v < 2 ^ 64 then u64Loop v rest else none
    else some (value, b :: rest)

/-- `nom::character::complete::u64`: at least one digit, `Err::Error` on overflow -/
def u64 : P Nat
  | [] => .error .syntax
  | b :: rest =>
    if isDigit b then
      match u64Loop (b - 48) rest with
      | some r => .ok r
      | none => .error .syntax
    else .error .syntax

/-- `MAX_CAPACITY = usize::MAX / 2 / size_of::<usize>()` -/
def maxCap : Nat := 1152921504606846975

/-- `util::usize` -/
def usize : P Nat := fun inp => do
  let (v, rest) ← u64 inp
  if v > maxCap then throw (.fail .numTooLarge) else pure (v, rest)

/-- `space0`: the input after leading blanks and tabs -/
def space0 : Bytes → Bytes
  | [] => []
  | b :: rest => if isSpace b then space0 rest else b :: rest

/-- `space1` -/
def space1 : P Unit
  | [] => .error .syntax
  | b :: rest => if isSpace b then .ok ((), space0 rest) else .error .syntax

/-- `alt((line_ending, eof))`: `\n`, `\r\n` or the end of the input -/
def lineEndingOrEof : P Unit
  | [] => .ok ((), [])
  | 10 :: rest => .ok ((), rest)
  | 13 :: 10 :: rest => .ok ((), rest)
  | _ => .error .syntax

/-- `util::eol_or_eof = preceded(space0, alt((line_ending, eof)))` -/
def eolOrEof : P Unit := fun inp => lineEndingOrEof (space0 inp)

/-- `tag(t)` -/
def tag (t : Bytes) : P Unit := fun inp =>
  if t.isPrefixOf inp then .ok ((), inp.drop t.length) else .error .syntax

/-! ## header -/

structure Header where
  binary : Bool
  vars : Nat
  inputs : Nat
  latches : Nat
  out : Nat
  and_ : Nat
  bad : Nat
  inv : Nat
  just : Nat
  fair : Nat
  deriving Repr, DecidableEq

/-- `format`: `word(alt((tag("aag"), tag("aig"))))`; the byte after the word must not be
alphanumeric -/
def wordEnd (b : Bool) (rest : Bytes) : Res (Bool × Bytes) :=
  match rest with
  | [] => .ok (b, [])
  | c :: _ => if isAlnum c then .error .syntax else .ok (b, rest)

def format : P Bool := fun inp =>
  if [97, 97, 103].isPrefixOf inp then wordEnd false (inp.drop 3)
  else if [97, 105, 103].isPrefixOf inp then wordEnd true (inp.drop 3)
  else .error .syntax

/-- `preceded(space1, consumed(usize))` -/
def spaceUsize : P Nat := fun inp => do
  let (_, r) ← space1 inp
  usize r

/-- the loop over the (at most nine) header numbers; the first five are mandatory, an error in an
optional one ends the loop with the input where it was -/
def headerNums : (k : Nat) → (parsed : Nat) → Bytes → Res (List Nat × Bytes)
  | 0, _, inp => .ok ([], inp)
  | k + 1, parsed, inp =>
    match spaceUsize inp with
    | .ok (n, rest) =>
      match headerNums k (parsed + 1) rest with
      | .ok (ns, rest') => .ok (n :: ns, rest')
      | .error e => .error e
    | .error (.panic p) => .error (.panic p)
    | .error e => if parsed < 5 then .error e else .ok ([], inp)

def header : P Header := fun inp => do
  let (binary, r0) ← format inp
  let (nums, r1) ← headerNums 9 0 r0
  let (_, r2) ← eolOrEof r1
  let h : Header :=
    { binary, vars := nums.getD 0 0, inputs := nums.getD 1 0, latches := nums.getD 2 0,
      out := nums.getD 3 0, and_ := nums.getD 4 0, bad := nums.getD 5 0, inv := nums.getD 6 0,
      just := nums.getD 7 0, fair := nums.getD 8 0 }
  let s ← uadd h.inputs h.latches
  let minVars ← uadd s h.and_
  if binary then
    if h.vars ≠ minVars then throw (.fail .headerVars) else pure (h, r2)
  else if h.vars < minVars then throw (.fail .headerVars)
  else pure (h, r2)

/-! ## `mod ascii` -/

/-- `ascii::literal(vars)`: a `u64` whose variable is at most `vars` -/
def literal (vars : Nat) : P Nat := fun inp => do
  let (lit, rest) ← u64 inp
  if lit / 2 > vars then throw (.fail .varTooLarge) else pure (lit, rest)

/-- `terminated(ascii::literal(vars), eol_or_eof)` -/
def literalLine (vars : Nat) : P Nat := fun inp => do
  let (l, r) ← literal vars inp
  let (_, r') ← eolOrEof r
  pure (l, r')

/-- `terminated(usize, eol_or_eof)` -/
def usizeLine : P Nat := fun inp => do
  let (l, r) ← usize inp
  let (_, r') ← eolOrEof r
  pure (l, r')

/-- `ascii::input_line` -/
def inputLine (vars : Nat) : P Nat := fun inp => do
  let (l, r) ← literal vars inp
  if l % 2 = 1 then throw (.fail .inputNegated)
  let (_, r') ← eolOrEof r
  pure (l, r')

/-- `opt(preceded(space1, consumed(u64)))` -/
def optSpaceU64 : Bytes → Option Nat × Bytes := fun inp =>
  match space1 inp with
  | .ok (_, r) =>
    match u64 r with
    | .ok (v, r') => (some v, r')
    | .error _ => (none, inp)
  | .error _ => (none, inp)

/-- `ascii::latch_init_ext(latch)`: absent or `0` ↦ `Some(false)`, `1` ↦ `Some(true)`, the latch
literal itself ↦ `None` (uninitialised) -/
def latchInitExt (latch : Nat) : P (Option Bool) := fun inp =>
  match optSpaceU64 inp with
  | (none, r) => .ok (some false, r)
  | (some v, r) =>
    if v = 0 then .ok (some false, r)
    else if v = 1 then .ok (some true, r)
    else if v = latch then .ok (none, r)
    else .error (.fail .badInit)

/-- `ascii::latch_line`: `lit space1 next [space1 init] eol` -/
def latchLine (vars : Nat) : P (Nat × Nat × Option Bool) := fun inp => do
  let (lit, r0) ← literal vars inp
  let (_, r1) ← space1 r0
  let (nxt, r2) ← literal vars r1
  if lit % 2 = 1 then throw (.fail .latchNegated)
  let (init, r3) ← latchInitExt lit r2
  let (_, r4) ← eolOrEof r3
  pure ((lit, nxt, init), r4)

/-- `util::collect(n, to, parser)` (also `collect_pair`, whose spans are not modelled) -/
def collect {α : Type} (p : P α) : Nat → P (List α)
  | 0, inp => .ok ([], inp)
  | n + 1, inp => do
    let (a, rest) ← p inp
    let (as, rest') ← collect p n rest
    pure (a :: as, rest')

/-! ## `TVBitVec` -/

/-- `TVBitVec { data: Vec<u32>, len }` -/
structure TV where
  data : List Nat
  len : Nat
  deriving Repr, DecidableEq

/-- `TVBitVec::push` as it is: the offset is taken from the number of *blocks*, so every value
after the first one is or-ed into element 1 of block 0 -/
def TV.push (t : TV) (v : Option Bool) : Res TV :=
  let bits := match v with
    | some b => 2 + b.toNat
    | none => 0
  let offset := t.data.length % 16
  if offset = 0 then .ok { t with data := t.data ++ [bits] }
  else
    match t.data.getLast? with
    | none => .error (.panic .unwrap)
    | some blk => .ok { t with data := t.data.dropLast ++ [(blk ||| (bits <<< (2 * offset))) % 2 ^ 32] }

def TV.pushAll (t : TV) : List (Option Bool) → Res TV
  | [] => .ok t
  | v :: vs => do
    let t' ← t.push v
    t'.pushAll vs

/-- `TVBitVec::at` as it is (used by `latch_init_value` and by `Debug`); `none` = panic -/
def TV.at (t : TV) (index : Nat) : Option (Option Bool) :=
  if index ≥ t.len then none
  else
    match t.data[index / 16]? with
    | none => none
    | some block =>
      let i := index % 16
      if block / 2 ^ (i + 1) % 2 = 1 then some (some (block / 2 ^ i % 2 = 1)) else some none

/-! ## the parsed problem -/

/-- canonical rendering of `Problem { circuit, details: AIGER(..) }` -/
structure Problem' where
  /-- `circuit.inputs.len` (`#inputs + #latches`) -/
  ninputs : Nat
  /-- `circuit.inputs.names` (UTF-8 bytes) -/
  inputNames : List (Option Bytes)
  /-- the AND gates -/
  gates : List (Lit × Lit)
  /-- `AIGERDetails::inputs` -/
  aigInputs : Nat
  latches : List Lit
  latchInit : TV
  outputs : List Lit
  bad : List Lit
  invariants : List Lit
  justice : List (List Lit)
  fairness : List Lit
  map : List Lit
  outputNames : List (Option Bytes)
  badNames : List (Option Bytes)
  invariantNames : List (Option Bytes)
  justiceNames : List (Option Bytes)
  fairnessNames : List (Option Bytes)
  deriving Repr, DecidableEq

/-! ## ASCII sections -/

/-- `if aig.map[var] != UNDEF { fail } ; aig.map[var] = val` (`val` is evaluated after the check) -/
def defineVar (map : List Lit) (var : Nat) (val : Res Lit) : Res (List Lit) :=
  match map[var]? with
  | none => .error (.panic .index)
  | some e =>
    if e ≠ Lit.undef then .error (.fail .secondDef)
    else do
      let v ← val
      pure (map.set var v)

/-- `for i in first_input..first_latch` (`i` counts up, `n` lines remain) -/
def asciiInputs (vars : Nat) : (n : Nat) → (i : Nat) → List Lit → P (List Lit)
  | 0, _, map, inp => .ok (map, inp)
  | n + 1, i, map, inp => do
    let (lit, rest) ← inputLine vars inp
    let map' ← defineVar map (lit / 2) (mkInputOrFalse false i)
    asciiInputs vars n (i + 1) map' rest

/-- what the latch loop accumulates: the map, the raw next-state literals, the reset values -/
structure LatchAcc where
  map : List Lit
  next : List Nat
  tv : TV

/-- `for i in first_latch..first_and_gate` -/
def asciiLatches (vars : Nat) : (n : Nat) → (i : Nat) → LatchAcc → P LatchAcc
  | 0, _, acc, inp => .ok (acc, inp)
  | n + 1, i, acc, inp => do
    let ((lit, nxt, init), rest) ← latchLine vars inp
    let map' ← defineVar acc.map (lit / 2) (mkInputOrFalse false i)
    let tv' ← acc.tv.push init
    asciiLatches vars n (i + 1) { map := map', next := acc.next ++ [nxt], tv := tv' } rest

/-- `justice_len.iter().sum()` with overflow checks (`Iterator::sum` folds from the left) -/
def sumLeft (acc : Nat) : List Nat → Res Nat
  | [] => .ok acc
  | x :: xs => do
    let s ← uadd acc x
    sumLeft s xs

/-- `for &n in &justice_len { push_vec(); for _ in 0..n { literal; eol_or_eof; push } }` -/
def justiceLits {α : Type} (lit : P α) : List Nat → P (List (List α))
  | [], inp => .ok ([], inp)
  | n :: ns, inp => do
    let (ls, rest) ← collect lit n inp
    let (lss, rest') ← justiceLits lit ns rest
    pure (ls :: lss, rest')

/-- one ASCII AND line `lhs space1 rhs0 space1 rhs1 eol` -/
def andLine (vars : Nat) : P (Nat × Nat × Nat) := fun inp => do
  let (lit, r0) ← literal vars inp
  let (_, r1) ← space1 r0
  let (in1, r2) ← literal vars r1
  let (_, r3) ← space1 r2
  let (in2, r4) ← literal vars r3
  let (_, r5) ← eolOrEof r4
  pure ((lit, in1, in2), r5)

/-- `for i in 0..h.and.1` of the ASCII branch: map and raw gate inputs -/
def asciiAnds (vars : Nat) : (n : Nat) → (i : Nat) → List Lit → List (Nat × Nat) →
    P (List Lit × List (Nat × Nat))
  | 0, _, map, gs, inp => .ok ((map, gs), inp)
  | n + 1, i, map, gs, inp => do
    let ((lit, in1, in2), rest) ← andLine vars inp
    if lit % 2 = 1 then throw (.fail .gateNegated)
    let map' ← defineVar map (lit / 2) (mkGate false i)
    asciiAnds vars n (i + 1) map' (gs ++ [(in1, in2)]) rest

/-- the closure `map` of the ASCII branch: `aig.map[l >> 1]` with the polarity of `l`; the flag
says whether the entry was `UNDEF` -/
def mapLit (map : List Lit) (a : Nat) : Res (Lit × Bool) :=
  match map[a / 2]? with
  | none => .error (.panic .index)
  | some m => .ok (m.xorB (a % 2 == 1), m == Lit.undef)

/-- `map_slice` -/
def mapSlice (map : List Lit) : List Nat → Res (List Lit × Bool)
  | [] => .ok ([], false)
  | a :: as => do
    let (l, u) ← mapLit map a
    let (ls, us) ← mapSlice map as
    pure (l :: ls, u || us)

def mapSlices (map : List Lit) : List (List Nat) → Res (List (List Lit) × Bool)
  | [] => .ok ([], false)
  | a :: as => do
    let (l, u) ← mapSlice map a
    let (ls, us) ← mapSlices map as
    pure (l :: ls, u || us)

def mapGates (map : List Lit) : List (Nat × Nat) → Res (List (Lit × Lit) × Bool)
  | [] => .ok ([], false)
  | (a, b) :: gs => do
    let (la, ua) ← mapLit map a
    let (lb, ub) ← mapLit map b
    let (ls, us) ← mapGates map gs
    pure ((la, lb) :: ls, ua || ub || us)

/-! ## `Circuit::find_cycle` -/

/-- the two marks per gate of the `FixedBitSet` `visited` -/
structure Visited where
  discovered : List Bool
  finished : List Bool

/-- `l.is_gate() && inner(gates, visited, l.0 >> VAR_LSB)` (`inner` passed as `rec`) -/
def fcLit (rec : Visited → Nat → Res (Bool × Visited)) (vis : Visited) : Lit → Res (Bool × Visited)
  | .gate _ g => rec vis g
  | _ => .ok (false, vis)

/-- `inner(gates, visited, index)`; `fuel` bounds the recursion depth -/
def fcInner (gates : List (Lit × Lit)) : (fuel : Nat) → Visited → Nat → Res (Bool × Visited)
  | 0, _, _ => .error (.panic .fuel)
  | fuel + 1, vis, index =>
    if vis.finished.getD index false then .ok (false, vis)
    else if vis.discovered.getD index false then .ok (true, vis)
    -- `visited.insert(index * 2)` panics when the bit is out of range
    else if gates.length ≤ index then .error (.panic .index)
    else
      match gates[index]? with
      | none => .error (.panic .unwrap)
      | some (a, b) =>
        let vis1 : Visited := { vis with discovered := vis.discovered.set index true }
        match fcLit (fcInner gates fuel) vis1 a with
        | .error e => .error e
        | .ok (true, v) => .ok (true, v)
        | .ok (false, v2) =>
          match fcLit (fcInner gates fuel) v2 b with
          | .error e => .error e
          | .ok (true, v) => .ok (true, v)
          | .ok (false, v3) => .ok (false, { v3 with finished := v3.finished.set index true })

/-- `for index in 0..self.gates.len()`; `some index` = `Some(Literal::from_gate(false, index))` -/
def fcRoots (gates : List (Lit × Lit)) (fuel : Nat) : (n : Nat) → (index : Nat) → Visited →
    Res (Option Nat)
  | 0, _, _ => .ok none
  | n + 1, index, vis =>
    do
    let (c, vis') ← fcInner gates fuel vis index
    if c then pure (some index) else fcRoots gates fuel n (index + 1) vis'

def findCycle (gates : List (Lit × Lit)) : Res (Option Nat) :=
  let n := gates.length
  fcRoots gates (n + 1) n 0 ⟨List.replicate n false, List.replicate n false⟩

/-! ## symbol table -/

/-- the six name tables `symbols[0..6]` (inputs+latches, outputs, bad, constraints, justice,
fairness) -/
abbrev Symbols := List (List (Option Bytes))

/-- `String::from_utf8_lossy` (`Utf8Chunks`): every maximal invalid prefix of a code point
becomes U+FFFD (`EF BF BD`) -/
def isCont (b : Nat) : Bool := 128 ≤ b && b ≤ 191

def utf8Lossy : Bytes → Bytes
  | [] => []
  | b :: rest =>
    let bad := [239, 191, 189]
    if b < 128 then b :: utf8Lossy rest
    else if 194 ≤ b && b ≤ 223 then
      match rest with
      | c :: r1 => if isCont c then b :: c :: utf8Lossy r1 else bad ++ utf8Lossy (c :: r1)
      | [] => bad
    else if 224 ≤ b && b ≤ 239 then
      match rest with
      | c :: r1 =>
        let ok2 :=
          (b == 224 && 160 ≤ c && c ≤ 191) || (225 ≤ b && b ≤ 236 && isCont c) ||
          (b == 237 && 128 ≤ c && c ≤ 159) || (238 ≤ b && b ≤ 239 && isCont c)
        if ok2 then
          match r1 with
          | d :: r2 => if isCont d then b :: c :: d :: utf8Lossy r2 else bad ++ utf8Lossy (d :: r2)
          | [] => bad
        else bad ++ utf8Lossy (c :: r1)
      | [] => bad
    else if 240 ≤ b && b ≤ 244 then
      match rest with
      | c :: r1 =>
        let ok2 :=
          (b == 240 && 144 ≤ c && c ≤ 191) || (241 ≤ b && b ≤ 243 && isCont c) ||
          (b == 244 && 128 ≤ c && c ≤ 143)
        if ok2 then
          match r1 with
          | d :: r2 =>
            if isCont d then
              match r2 with
              | e :: r3 =>
                if isCont e then b :: c :: d :: e :: utf8Lossy r3 else bad ++ utf8Lossy (e :: r3)
              | [] => bad
            else bad ++ utf8Lossy (d :: r2)
          | [] => bad
        else bad ++ utf8Lossy (c :: r1)
      | [] => bad
    else bad ++ utf8Lossy rest
termination_by l => l.length
decreasing_by all_goals (simp only [List.length_cons]; omega)

/-- `not_line_ending`: up to the first `\r` or `\n`; a `\r` that is not followed by `\n` is an
error -/
def notLineEnding : Bytes → Res (Bytes × Bytes)
  | [] => .ok ([], [])
  | b :: rest =>
    if b = 10 then .ok ([], b :: rest)
    else if b = 13 then
      match rest with
      | c :: _ => if c = 10 then .ok ([], b :: rest) else .error .syntax
      | [] => .error .syntax
    else
      match notLineEnding rest with
      | .error e => .error e
      | .ok (name, r) => .ok (b :: name, r)

/-- `util::trim_end` -/
def trimEnd (s : Bytes) : Bytes := (s.reverse.dropWhile isSpace).reverse

/-- the kind of a symbol line by its first byte (`i o b c j f l` ↦ 0 … 6); `c` only when a digit
follows -/
def symKind : Bytes → Option (Nat × Bytes)
  | 105 :: r => some (0, r)
  | 111 :: r => some (1, r)
  | 98 :: r => some (2, r)
  | 99 :: r =>
    match r with
    | d :: _ => if isDigit d then some (3, r) else none
    | [] => none
  | 106 :: r => some (4, r)
  | 102 :: r => some (5, r)
  | 108 :: r => some (6, r)
  | _ => none

/-- `counts[kind]` -/
def symCount (h : Header) : Nat → Option Nat
  | 0 => some h.inputs
  | 1 => some h.out
  | 2 => some h.bad
  | 3 => some h.inv
  | 4 => some h.just
  | 5 => some h.fair
  | 6 => some h.latches
  | _ => none

/-- `if kind == 6 { kind = 0; i += inputs; count += inputs } else if kind == 0 { count += latches }` -/
def symTarget (h : Header) (kind i count : Nat) : Res (Nat × Nat × Nat) :=
  if kind = 6 then do
    let i' ← uadd i h.inputs
    let c' ← uadd count h.inputs
    pure (0, i', c')
  else if kind = 0 then do
    let c' ← uadd count h.latches
    pure (0, i, c')
  else pure (kind, i, count)

/-- the rest of the line and the store into `symbols[kind][i]` (`1 + name.len()` of
`symbol.reserve` cannot overflow: a `String` has at most `isize::MAX` bytes) -/
def symStore (symbols : Symbols) (kind i count : Nat) (inp : Bytes) : Res (Symbols × Bytes) := do
  let (_, r1) ← space1 inp
  let (name, r2) ← notLineEnding r1
  let (_, r3) ← lineEndingOrEof r2
  let list ← match symbols[kind]? with
    | some l => pure l
    | none => throw (.panic .index)
  let list := if list.isEmpty then List.replicate count none else list
  let old ← match list[i]? with
    | some o => pure o
    | none => throw (.panic .index)
  let nm := utf8Lossy (trimEnd name)
  let new := match old with
    | some s => s ++ [32] ++ nm
    | none => nm
  pure (symbols.set kind (list.set i (some new)), r3)

/-- one iteration of the loop of `ascii::symbol_table` after the kind is known -/
def symEntry (h : Header) (symbols : Symbols) (kind : Nat) (inp : Bytes) : Res (Symbols × Bytes) := do
  let (i, r0) ← u64 inp
  let count ← match symCount h kind with
    | some c => pure c
    | none => throw (.panic .index)
  if i ≥ count then throw (.fail .symUndefined)
  let (kind', i', count') ← symTarget h kind i count
  symStore symbols kind' i' count' r0

/-- the loop of `ascii::symbol_table`; `fuel` bounds the number of lines -/
def symLoop (h : Header) : (fuel : Nat) → Symbols → Bytes → Res (Symbols × Bytes)
  | 0, _, _ => .error (.panic .fuel)
  | fuel + 1, symbols, inp =>
    match symKind inp with
    | none => .ok (symbols, inp)
    | some (kind, r) => do
      let (symbols', rest) ← symEntry h symbols kind r
      symLoop h fuel symbols' rest

/-- `alt((preceded(tag("c"), rest), eof))` -/
def commentSection : P Unit
  | [] => .ok ((), [])
  | 99 :: _ => .ok ((), [])
  | _ => .error .syntax

/-! ## binary sections -/

/-- `make_literal` with the debug assertions of the constructors -/
def makeLiteralChk (firstAnd : Nat) (a : Nat) : Res Lit :=
  if firstAnd ≤ a / 2 then mkGate (a % 2 == 1) (a / 2 - firstAnd)
  else mkInputOrFalse (a % 2 == 1) (a / 2)

/-- `for i in 0..h.latches.1` of the binary branch: `next [space1 init] eol` -/
def binLatches (vars firstAnd : Nat) : (n : Nat) → (i : Nat) → List Lit → TV → P (List Lit × TV)
  | 0, _, ls, tv, inp => .ok ((ls, tv), inp)
  | n + 1, i, ls, tv, inp => do
    let (lit, r0) ← literal vars inp
    let latch ← umul i 2
    let (init, r1) ← latchInitExt latch r0
    let (_, r2) ← eolOrEof r1
    let l ← makeLiteralChk firstAnd lit
    let tv' ← tv.push init
    binLatches vars firstAnd n (i + 1) (ls ++ [l]) tv' r2

/-- `map(terminated(ascii::literal(h.vars), eol_or_eof), make_literal)` -/
def binLiteralLine (vars firstAnd : Nat) : P Lit := fun inp => do
  let (l, r) ← literalLine vars inp
  let l' ← makeLiteralChk firstAnd l
  pure (l', r)

/-- `for i in first_and_gate..var_count`: two deltas per gate -/
def binAnds (firstAnd : Nat) : (n : Nat) → (i : Nat) → List (Lit × Lit) → P (List (Lit × Lit))
  | 0, _, gs, inp => .ok (gs, inp)
  | n + 1, i, gs, inp =>
    match decode7 inp with
    | none => .error (.fail .andEof)
    | some (d1, r1) =>
      match decode7 r1 with
      | none => .error (.fail .andEof)
      | some (d2, r2) =>
        do
        let lhs ← umul i 2
        -- `in1 = lhs.wrapping_sub(d1)`; `d1 > lhs || d1 == 0 || d2 > in1`
        let in1 := (lhs + 2 ^ 64 - d1) % 2 ^ 64
        if d1 > lhs ∨ d1 = 0 ∨ d2 > in1 then throw (.fail .andInvalid)
        let l1 ← makeLiteralChk firstAnd in1
        let l2 ← makeLiteralChk firstAnd (in1 - d2)
        binAnds firstAnd n (i + 1) (gs ++ [(l1, l2)]) r2

/-! ## `parse` -/

/-- the sections `outputs, bad, constraints, justice counts, justice, fairness`, shared by both
branches up to the parser `lit` of one literal line (raw AIGER literals in the ASCII branch,
translated by `make_literal` in the binary branch) -/
structure Sections (α : Type) where
  outputs : List α
  bad : List α
  invariants : List α
  justice : List (List α)
  fairness : List α

/-- which repairs of `/repo` the model follows (`Cfg.fixed`: all — the code as it is) -/
structure Cfg where
  /-- commit a6ab3b1: the reservation hint for the justice literals is
  `justice_len.iter().fold(0, saturating_add).min(input.len())` instead of
  `justice_len.iter().sum()` (which overflowed) -/
  justiceSum : Bool
  deriving DecidableEq, Repr

/-- the code as it is in `/repo` -/
def Cfg.fixed : Cfg := ⟨true⟩
/-- the code before commit a6ab3b1 -/
def Cfg.beforeFix : Cfg := ⟨false⟩

/-- `usize::saturating_add` folded over the justice counts -/
def satSum (ls : List Nat) : Nat := ls.foldl (fun s n => min (s + n) (2 ^ 64 - 1)) 0

/-- the number of justice literals to reserve memory for. Fixed code: saturating sum, bounded by
the length of the remaining input (cannot panic). Before the fix: `justice_len.iter().sum()` with
overflow checks. The value only sizes a reservation, which the model does not represent. -/
def justiceHint (cfg : Cfg) (justLen : List Nat) (input : Bytes) : Res Nat :=
  if cfg.justiceSum then .ok (min (satSum justLen) input.length) else sumLeft 0 justLen

def sections {α : Type} (cfg : Cfg) (lit : P α) (h : Header) : P (Sections α) := fun inp => do
  let (outputs, r0) ← collect lit h.out inp
  let (bad, r1) ← collect lit h.bad r0
  let (invariants, r2) ← collect lit h.inv r1
  let (justLen, r3) ← collect usizeLine h.just r2
  -- `aig.justice.reserve_elements(justice_elements)`
  let _ ← justiceHint cfg justLen r3
  let (justice, r4) ← justiceLits lit justLen r3
  let (fairness, r5) ← collect lit h.fair r4
  pure ({ outputs, bad, invariants, justice, fairness }, r5)

/-- symbol table, comment section, assembly of the `Problem` -/
def finish (h : Header) (firstAnd : Nat) (gates : List (Lit × Lit)) (latches : List Lit) (tv : TV)
    (outputs bad invariants : List Lit) (justice : List (List Lit)) (fairness : List Lit)
    (map : List Lit) (inp : Bytes) : Res Problem' := do
  let (symbols, r0) ← symLoop h (inp.length + 1) (List.replicate 6 []) inp
  let (_, _) ← commentSection r0
  let ninputs ← uadd h.inputs h.latches
  pure
    { ninputs, inputNames := symbols.getD 0 [], gates, aigInputs := h.inputs, latches,
      latchInit := tv, outputs, bad, invariants, justice, fairness,
      map := if h.binary then canonicalMap firstAnd h.and_ else map,
      outputNames := symbols.getD 1 [], badNames := symbols.getD 2 [],
      invariantNames := symbols.getD 3 [], justiceNames := symbols.getD 4 [],
      fairnessNames := symbols.getD 5 [] }

/-- the binary branch -/
def parseBinary (cfg : Cfg) (h : Header) (firstLatch firstAnd : Nat) (inp : Bytes) :
    Res Problem' := do
  let ((latches, tv), r0) ← binLatches h.vars firstAnd h.latches firstLatch [] ⟨[], h.latches⟩ inp
  let (sec, r1) ← sections cfg (binLiteralLine h.vars firstAnd) h r0
  let (gates, r2) ← binAnds firstAnd h.and_ firstAnd [] r1
  finish h firstAnd gates latches tv sec.outputs sec.bad sec.invariants sec.justice sec.fairness [] r2

/-- `if check_acyclic && let Some(l) = circuit.find_cycle() { fail(and_gate_spans[gate_no].0, …) }` -/
def cycleCheck (checkAcyclic : Bool) (gates : List (Lit × Lit)) (nspans : Nat) : Res Unit :=
  if checkAcyclic then
    match findCycle gates with
    | .error e => .error e
    | .ok none => .ok ()
    | .ok (some g) => if g < nspans then .error (.fail .cycle) else .error (.panic .index)
  else .ok ()

/-- the ASCII branch -/
def parseAscii (cfg : Cfg) (checkAcyclic : Bool) (h : Header) (firstLatch firstAnd : Nat)
    (inp : Bytes) :
    Res Problem' := do
  let n ← uadd h.vars 1
  -- `aig.map = vec![UNDEF; vars + 1]; aig.map[0] = Literal::FALSE`
  let map0 ← match List.replicate n Lit.undef with
    | [] => throw (.panic .index)
    | _ :: t => pure (Lit.const false :: t)
  let (map1, r0) ← asciiInputs h.vars h.inputs 1 map0 inp
  let (lacc, r1) ← asciiLatches h.vars h.latches firstLatch ⟨map1, [], ⟨[], h.latches⟩⟩ r0
  let (raw, r2) ← sections cfg (literalLine h.vars) h r1
  let ((map2, rawGates), r3) ← asciiAnds h.vars h.and_ 0 lacc.map [] r2
  -- map literals
  let (latches, u0) ← mapSlice map2 lacc.next
  let (outputs, u1) ← mapSlice map2 raw.outputs
  let (bad, u2) ← mapSlice map2 raw.bad
  let (invariants, u3) ← mapSlice map2 raw.invariants
  let (justice, u4) ← mapSlices map2 raw.justice
  let (fairness, u5) ← mapSlice map2 raw.fairness
  let (gates, u6) ← mapGates map2 rawGates
  if u0 || u1 || u2 || u3 || u4 || u5 || u6 then throw (.fail .undefLit)
  let _ ← cycleCheck checkAcyclic gates rawGates.length
  finish h firstAnd gates latches lacc.tv outputs bad invariants justice fairness map2 r3

/-- `oxidd_parser::aiger::parse(&ParseOptions { check_acyclic, .. })`, parametric in `cfg` -/
def parseCfg (cfg : Cfg) (checkAcyclic : Bool) (inp : Bytes) : Res Problem' := do
  let (h, r0) ← header inp
  -- `VarSet::new(h.inputs.1 + h.latches.1)`, `reserve_gate_inputs(h.and.1 * 2)`
  let _ ← uadd h.inputs h.latches
  let _ ← umul h.and_ 2
  let firstLatch ← uadd 1 h.inputs
  let firstAnd ← uadd firstLatch h.latches
  let _ ← uadd firstAnd h.and_
  if h.binary then parseBinary cfg h firstLatch firstAnd r0
  else parseAscii cfg checkAcyclic h firstLatch firstAnd r0

/-- `oxidd_parser::aiger::parse(&ParseOptions { check_acyclic, .. })` as it is in `/repo` -/
def parse (checkAcyclic : Bool) (inp : Bytes) : Res Problem' := parseCfg Cfg.fixed checkAcyclic inp

/-- the parser before commit a6ab3b1 (justice sum with overflow checks); kept so that the repaired
defect stays documented as a theorem (`parse_no_panic_fails`) -/
def parseBeforeFix (checkAcyclic : Bool) (inp : Bytes) : Res Problem' :=
  parseCfg Cfg.beforeFix checkAcyclic inp

end OxiddModel.AigerParse
