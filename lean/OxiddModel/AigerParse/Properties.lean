import OxiddModel.AigerParse.LemmasParse

/-!
# Property C18 (second sentence) for the AIGER parser, on raw bytes

"The DIMACS, AIGER (ASCII and binary) and NNF parsers return a problem or a diagnostic for
arbitrary input bytes without panicking, and equivalent ASCII/binary AIGER files parse to the
same problem."

`parse c bytes` (`Model.lean`) is total by construction; what the theorems add is that the places
where the *Rust code* can panic — made explicit in the model as `Diag.panic k` — are unreachable
for every byte string, with one exception that is a defect of the code (`parse_no_panic_fails`),
and that every accepted problem is internally consistent.

Out of scope (see `Model.lean`): memory reservation by header counts and the recursion depth of
`find_cycle` (known findings KF-parser-alloc, KF-parser-deep-chain).
-/
namespace OxiddModel.AigerParse

open OxiddModel.Circuit OxiddModel.Aiger

/-- checks a property of an accepted problem (for the `decide`d examples) -/
def okWith (r : Res Problem') (f : Problem' → Bool) : Bool :=
  match r with
  | .ok p => f p
  | .error _ => false

/-- `r` is the given diagnostic -/
def isErr (r : Res Problem') (d : Diag) : Bool :=
  match r with
  | .ok _ => false
  | .error e => e == d

theorem isErr_eq {r : Res Problem'} {d : Diag} (h : isErr r d = true) : r = .error d := by
  cases r with
  | ok p => simp [isErr] at h
  | error e => simp [isErr] at h; rw [h]

/-- `aag 3 2 0 1 1\n2\n4\n6\n6 4 2\n` -/
def exAagAnd : Bytes :=
  [97, 97, 103, 32, 51, 32, 50, 32, 48, 32, 49, 32, 49, 10, 50, 10, 52, 10, 54, 10, 54, 32, 52, 32,
    50, 10]

/-- `aig 3 2 0 1 1\n6\n\x02\x02` -/
def exAigAnd : Bytes :=
  [97, 105, 103, 32, 51, 32, 50, 32, 48, 32, 49, 32, 49, 10, 54, 10, 2, 2]

/-- `aag 0 0 0 0 0 0 0 17\n` followed by 17 lines `1152921504606846975\n` (= `usize::MAX / 16`, the
largest count `util::usize` accepts): 17 justice properties whose sizes sum to more than
`usize::MAX` -/
def justiceSumWitness : Bytes :=
  [97, 97, 103, 32, 48, 32, 48, 32, 48, 32, 48, 32, 48, 32, 48, 32, 48, 32, 49, 55, 10] ++
    (List.replicate 17
      [49, 49, 53, 50, 57, 50, 49, 53, 48, 52, 54, 48, 54, 56, 52, 54, 57, 55, 53, 10]).flatten

/-! ## (a) no index out of bounds, no failing `unwrap`, no debug assertion, fuel suffices -/

/-- **parse_no_oob**: for every byte string and both settings of `check_acyclic`, the only panic
the model can report is the arithmetic overflow of `justice_len.iter().sum()`, and only for a
header that declares at least 17 justice properties. In particular every `Vec`/slice index
(`aig.map[var]`, `symbol_list[i]`, `and_gate_spans[..]`, the bit set of `find_cycle`), every
`unwrap`, every debug assertion of the `Literal` constructors is safe, all other `usize`
additions and multiplications stay below `2^64`, and the model's fuel for the symbol table loop
and the recursion of `find_cycle` is never exhausted. -/
theorem parse_no_oob (c : Bool) (bytes : Bytes) (k : PanicKind)
    (h : parse c bytes = .error (.panic k)) :
    k = .arith ∧ ∃ hd r, header bytes = .ok (hd, r) ∧ 17 ≤ hd.just := by
  have hs := parse_sat c bytes
  rw [h] at hs
  exact hs k rfl

/-- the statement "`parse c bytes ≠ .error (.panic k)` for all `bytes`" is **false** of the faithful
model: the justice sum overflows (`attempt to add with overflow` in builds with overflow checks; in
builds without, the sum wraps and `reserve_elements` is called with the wrapped value). Confirmed
on the real parser, see REPORT.md of `ext-c18-parser`. -/
theorem parse_no_panic_fails : parse true justiceSumWitness = .error (.panic .arith) :=
  isErr_eq (by decide)

/-- **parse_no_panic_partial**: no panic at all when the header declares at most 16 justice
properties (in particular for every AIGER 1.0 file) -/
theorem parse_no_panic_partial (c : Bool) (bytes : Bytes)
    (hj : ∀ hd r, header bytes = .ok (hd, r) → hd.just ≤ 16) (k : PanicKind) :
    parse c bytes ≠ .error (.panic k) := by
  intro h
  obtain ⟨_, hd, r, hh, h17⟩ := parse_no_oob c bytes k h
  have := hj hd r hh
  omega

/-- non-vacuity of `parse_no_panic_partial`: a file the hypothesis applies to and that is
accepted -/
example : okWith (parse true exAagAnd)
    (fun p => p.gates == [(.input false 1, .input false 0)] && p.outputs == [.gate false 0] &&
      p.map == [.const false, .input false 0, .input false 1, .gate false 0]) = true := by decide

/-! ## (b) an accepted problem is internally consistent -/

/-- **parse_ok_wellformed**: every literal of every section and of every AND gate names a
constant, an existing input/latch or an existing gate; the counts fit (`#circuit inputs = #inputs +
#latches`, one reset value per latch); every entry of the literal map is `UNDEF`, `FALSE` or a
positive literal of the circuit; every name table is empty or complete. -/
theorem parse_ok_wellformed (c : Bool) (bytes : Bytes) (p : Problem')
    (h : parse c bytes = .ok p) : p.WF :=
  ((parse_sat c bytes).of_ok h).1

/-- **parse_ok_binary_topo**: in the binary format every AND gate refers to earlier gates only
(acyclic by construction — the real parser does not run `find_cycle` there) -/
theorem parse_ok_binary_topo (c : Bool) (bytes : Bytes) (p : Problem') (hd : Header) (r : Bytes)
    (h : parse c bytes = .ok p) (hh : header bytes = .ok (hd, r)) (hb : hd.binary = true) :
    Topo p.gates :=
  ((parse_sat c bytes).of_ok h).2 ⟨hd, r, hh, hb⟩

/-- non-vacuity: the binary rendering of the example is accepted, with the same gate, output and
map as the ASCII rendering above -/
example : okWith (parse true exAigAnd)
    (fun p => p.gates == [(.input false 1, .input false 0)] && p.outputs == [.gate false 0] &&
      p.map == [.const false, .input false 0, .input false 1, .gate false 0]) = true := by decide

/-- the two renderings parse to the same problem (one instance of the equivalence claim; the
general statement is checked by the `pair` cases of the stream, see REPORT.md) -/
example : okWith (parse true exAagAnd) (fun p => okWith (parse true exAigAnd) (fun q => p == q)) =
    true := by decide

/-- a cyclic ASCII file is rejected with the cycle diagnostic when `check_acyclic` is set and
accepted otherwise: `aag 1 0 0 0 1\n2 2 2\n` -/
example : isErr (parse true [97, 97, 103, 32, 49, 32, 48, 32, 48, 32, 48, 32, 49, 10, 50, 32, 50,
    32, 50, 10]) (.fail .cycle) = true := by decide
example : okWith (parse false [97, 97, 103, 32, 49, 32, 48, 32, 48, 32, 48, 32, 49, 10, 50, 32, 50,
    32, 50, 10]) (fun p => p.gates == [(.gate false 0, .gate false 0)]) = true := by decide

end OxiddModel.AigerParse
