import OxiddModel.AigerParse.LemmasParse

/-!
# Property C18 (second sentence) for the AIGER parser, on raw bytes

"The DIMACS, AIGER (ASCII and binary) and NNF parsers return a problem or a diagnostic for
arbitrary input bytes without panicking, and equivalent ASCII/binary AIGER files parse to the
same problem."

`parse c bytes` (`Model.lean`) is total by construction; what the theorems add is that the places
where the *Rust code* can panic — made explicit in the model as `Diag.panic k` — are unreachable
for every byte string (`parse_no_panic`; before commit a6ab3b1 of `/repo` there was one exception, a
defect of the code found with this model and kept as `parse_no_panic_fails`), and that every
accepted problem is internally consistent.

Out of scope (see `Model.lean`): memory reservation by header counts and the recursion depth of
`find_cycle` (known findings KF-parser-alloc, KF-parser-deep-chain).
-/
namespace OxiddModel.AigerParse

open OxiddModel.Circuit OxiddModel.Aiger

/-- checks a property of an accepted problem (for the `decide`d examples) -/
def okWith (r : Res Problem') (f : Problem' → Bool) : Bool :=
  match r with
  | .ok p => f p
  | .error _ => false

/-- `r` is the given diagnostic -/
def isErr (r : Res Problem') (d : Diag) : Bool :=
  match r with
  | .ok _ => false
  | .error e => e == d

theorem isErr_eq {r : Res Problem'} {d : Diag} (h : isErr r d = true) : r = .error d := by
  cases r with
  | ok p => simp [isErr] at h
  | error e => simp [isErr] at h; rw [h]

/-- `aag 3 2 0 1 1\n2\n4\n6\n6 4 2\n` -/
def exAagAnd : Bytes :=
  [97, 97, 103, 32, 51, 32, 50, 32, 48, 32, 49, 32, 49, 10, 50, 10, 52, 10, 54, 10, 54, 32, 52, 32,
    50, 10]

/-- `aig 3 2 0 1 1\n6\n\x02\x02` -/
def exAigAnd : Bytes :=
  [97, 105, 103, 32, 51, 32, 50, 32, 48, 32, 49, 32, 49, 10, 54, 10, 2, 2]

/-- `aag 0 0 0 0 0 0 0 17\n` followed by 17 lines `1152921504606846975\n` (= `usize::MAX / 16`, the
largest count `util::usize` accepts): 17 justice properties whose sizes sum to more than
`usize::MAX` -/
def justiceSumWitness : Bytes :=
  [97, 97, 103, 32, 48, 32, 48, 32, 48, 32, 48, 32, 48, 32, 48, 32, 48, 32, 49, 55, 10] ++
    (List.replicate 17
      [49, 49, 53, 50, 57, 50, 49, 53, 48, 52, 54, 48, 54, 56, 52, 54, 57, 55, 53, 10]).flatten

/-! ## (a) no panic: no index out of bounds, no failing `unwrap`, no overflow, no debug assertion -/

/-- **parse_no_panic** (the full statement (a)): for every byte string and both settings of
`check_acyclic` the model of the parser as it is in `/repo` (after commit a6ab3b1) never reaches a
place where the Rust code would panic: every `Vec`/slice index (`aig.map[var]`, `symbol_list[i]`,
`counts[kind]`, `and_gate_spans[..]`, the bit set of `find_cycle`), every `unwrap`
(`TVBitVec::push`, `gates.get(index).unwrap()`), every debug assertion of the `Literal`
constructors is safe, every `usize` addition and multiplication stays below `2^64`, and the model's
fuel for the symbol-table loop and the recursion of `find_cycle` is never exhausted. -/
theorem parse_no_panic (c : Bool) (bytes : Bytes) (k : PanicKind) :
    parse c bytes ≠ .error (.panic k) :=
  (parse_sat c bytes).no_panic k

/-- **parse_no_panic_fails** (regression witness): of the parser *before* commit a6ab3b1 the
statement was false — `justice_len.iter().sum()` overflowed (`attempt to add with overflow` in
builds with overflow checks). The witness was confirmed on the real parser before the repair; the
stream keeps it as case `regress-justice-sum`, which must now give a diagnostic. -/
theorem parse_no_panic_fails : parseBeforeFix true justiceSumWitness = .error (.panic .arith) :=
  isErr_eq (by decide)

/-- the same input is rejected with a diagnostic by the parser as it is -/
example : isErr (parse true justiceSumWitness) .syntax = true := by decide

/-- **parseBeforeFix_no_oob**: also before the fix that overflow was the *only* reachable panic,
and only for a header declaring at least 17 justice properties (this is the former `parse_no_oob`;
the former `parse_no_panic_partial` is subsumed by `parse_no_panic`) -/
theorem parseBeforeFix_no_oob (c : Bool) (bytes : Bytes) (k : PanicKind)
    (h : parseBeforeFix c bytes = .error (.panic k)) :
    k = .arith ∧ ∃ hd r, header bytes = .ok (hd, r) ∧ 17 ≤ hd.just := by
  have hs := parseCfg_sat Cfg.beforeFix c bytes
  unfold parseBeforeFix at h
  rw [h] at hs
  exact ⟨(hs k rfl).1, (hs k rfl).2.2⟩

/-- non-vacuity of `parse_no_panic`: the result can be a problem -/
example : okWith (parse true exAagAnd)
    (fun p => p.gates == [(.input false 1, .input false 0)] && p.outputs == [.gate false 0] &&
      p.map == [.const false, .input false 0, .input false 1, .gate false 0]) = true := by decide

/-! ## (b) an accepted problem is internally consistent -/

/-- **parse_ok_wellformed**: every literal of every section and of every AND gate names a
constant, an existing input/latch or an existing gate; the counts fit (`#circuit inputs = #inputs +
#latches`, one reset value per latch); every entry of the literal map is `UNDEF`, `FALSE` or a
positive literal of the circuit; every name table is empty or complete. -/
theorem parse_ok_wellformed (c : Bool) (bytes : Bytes) (p : Problem')
    (h : parse c bytes = .ok p) : p.WF :=
  ((parse_sat c bytes).of_ok h).1

/-- **parse_ok_binary_topo**: in the binary format every AND gate refers to earlier gates only
(acyclic by construction — the real parser does not run `find_cycle` there) -/
theorem parse_ok_binary_topo (c : Bool) (bytes : Bytes) (p : Problem') (hd : Header) (r : Bytes)
    (h : parse c bytes = .ok p) (hh : header bytes = .ok (hd, r)) (hb : hd.binary = true) :
    Topo p.gates :=
  ((parse_sat c bytes).of_ok h).2 ⟨hd, r, hh, hb⟩

/-- non-vacuity: the binary rendering of the example is accepted, with the same gate, output and
map as the ASCII rendering above -/
example : okWith (parse true exAigAnd)
    (fun p => p.gates == [(.input false 1, .input false 0)] && p.outputs == [.gate false 0] &&
      p.map == [.const false, .input false 0, .input false 1, .gate false 0]) = true := by decide

/-- the two renderings parse to the same problem (one instance of the equivalence claim; the
statement for the combinational AIGER 1.0 subset is `aag_aig_equiv` in `Files.lean`; files with
latches / AIGER 1.9 sections are checked by the `pair` cases of the stream) -/
example : okWith (parse true exAagAnd) (fun p => okWith (parse true exAigAnd) (fun q => p == q)) =
    true := by decide

/-- a cyclic ASCII file is rejected with the cycle diagnostic when `check_acyclic` is set and
accepted otherwise: `aag 1 0 0 0 1\n2 2 2\n` -/
example : isErr (parse true [97, 97, 103, 32, 49, 32, 48, 32, 48, 32, 48, 32, 49, 10, 50, 32, 50,
    32, 50, 10]) (.fail .cycle) = true := by decide
example : okWith (parse false [97, 97, 103, 32, 49, 32, 48, 32, 48, 32, 48, 32, 49, 10, 50, 32, 50,
    32, 50, 10]) (fun p => p.gates == [(.gate false 0, .gate false 0)]) = true := by decide

end OxiddModel.AigerParse
