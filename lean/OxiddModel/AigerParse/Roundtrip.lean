import OxiddModel.AigerParse.Model

/-!
# Round trip of the tokeniser: a printed number is read back (`nom`'s `u64`, `ascii::literal`,
one literal line), and one AND gate written as an ASCII triple and as a binary delta pair is read
to the same numbers

This is the part of the equivalence claim ("equivalent ASCII/binary AIGER files parse to the same
problem") that is proved at the level of bytes; together with `OxiddModel.Aiger.aiger_ascii_binary_same`
(translation of the numbers) it covers one gate. Whole files: `Files.lean` proves
`parse c (printAag P) = parse c' (printAig P) = .ok (canon P)` for the combinational AIGER 1.0 subset
from these lemmas; files with latches, AIGER 1.9 sections, symbols or non-canonical numbering are
tested, not proved (stream `aigparse`, cases `pair-…`, `perm-…`).
-/
namespace OxiddModel.AigerParse

open OxiddModel.Circuit OxiddModel.Aiger

/-- decimal rendering, most significant digit first -/
def printNat (n : Nat) : Bytes :=
  if n < 10 then [48 + n] else printNat (n / 10) ++ [48 + n % 10]
termination_by n
decreasing_by omega

/-- the rest of the input does not continue the number -/
def NoDigitHead : Bytes → Prop
  | [] => True
  | b :: _ => isDigit b = false

/-- the value the loop of `u64` computes for a digit string -/
def digitsVal (v : Nat) (ds : Bytes) : Nat := ds.foldl (fun a d => a * 10 + (d - 48)) v

theorem le_digitsVal : ∀ (ds : Bytes) (v : Nat), v ≤ digitsVal v ds := by
  intro ds
  induction ds with
  | nil => intro v; exact Nat.le_refl _
  | cons d ds ih =>
    intro v
    have := ih (v * 10 + (d - 48))
    simp only [digitsVal, List.foldl_cons] at this ⊢
    omega

theorem u64Loop_digits : ∀ (ds : Bytes) (v : Nat) (rest : Bytes),
    (∀ d ∈ ds, isDigit d = true) → NoDigitHead rest → digitsVal v ds < 2 ^ 64 →
    u64Loop v (ds ++ rest) = some (digitsVal v ds, rest) := by
  intro ds
  induction ds with
  | nil =>
    intro v rest _ hr _
    cases rest with
    | nil => simp [u64Loop, digitsVal]
    | cons b r =>
      have hb : isDigit b = false := hr
      simp [u64Loop, digitsVal, hb]
  | cons d ds ih =>
    intro v rest hd hr hv
    have hdd : isDigit d = true := hd d (List.mem_cons_self ..)
    have hv' : digitsVal (v * 10 + (d - 48)) ds < 2 ^ 64 := by
      simpa [digitsVal] using hv
    have hle := le_digitsVal ds (v * 10 + (d - 48))
    simp only [List.cons_append, u64Loop, hdd, if_true]
    rw [if_pos (by omega)]
    rw [ih _ rest (fun x hx => hd x (List.mem_cons_of_mem _ hx)) hr hv']
    simp [digitsVal]

theorem printNat_digits (n : Nat) : ∀ d ∈ printNat n, isDigit d = true := by
  induction n using Nat.strongRecOn with
  | _ n ih =>
    rw [printNat]
    split
    · intro d hd
      simp at hd
      subst hd
      simp [isDigit]; omega
    · intro d hd
      rcases List.mem_append.mp hd with hd | hd
      · exact ih (n / 10) (by omega) d hd
      · simp at hd
        subst hd
        simp [isDigit]; omega

theorem digitsVal_append (v : Nat) (a b : Bytes) :
    digitsVal v (a ++ b) = digitsVal (digitsVal v a) b := by
  simp [digitsVal, List.foldl_append]

theorem digitsVal_printNat (n : Nat) : digitsVal 0 (printNat n) = n := by
  induction n using Nat.strongRecOn with
  | _ n ih =>
    rw [printNat]
    split
    · simp [digitsVal]
    · rw [digitsVal_append, ih (n / 10) (by omega)]
      simp [digitsVal]
      omega

theorem printNat_ne_nil (n : Nat) : printNat n ≠ [] := by
  rw [printNat]
  split <;> simp

/-- **u64_print**: `nom`'s `u64` reads a printed 64-bit number back, whatever follows it (as long
as it is not a digit) -/
theorem u64_print (n : Nat) (hn : n < 2 ^ 64) (rest : Bytes) (hr : NoDigitHead rest) :
    u64 (printNat n ++ rest) = .ok (n, rest) := by
  have hd := printNat_digits n
  have hv := digitsVal_printNat n
  have hne := printNat_ne_nil n
  generalize printNat n = ds at hd hv hne
  cases ds with
  | nil => exact absurd rfl hne
  | cons d ds =>
    have hdd : isDigit d = true := hd d (List.mem_cons_self ..)
    have hv' : digitsVal (d - 48) ds = n := by
      simpa [digitsVal] using hv
    simp only [List.cons_append, u64, hdd, if_true]
    rw [u64Loop_digits ds (d - 48) rest (fun x hx => hd x (List.mem_cons_of_mem _ hx)) hr
      (by rw [hv']; exact hn), hv']

/-- **literalLine_print**: one line `<literal>\n` of any section is read back -/
theorem literalLine_print (vars n : Nat) (hn : n < 2 ^ 64) (hv : n / 2 ≤ vars) (rest : Bytes) :
    literalLine vars (printNat n ++ 10 :: rest) = .ok (n, rest) := by
  unfold literalLine literal
  rw [u64_print n hn (10 :: rest) (by simp [NoDigitHead, isDigit])]
  have : ¬ n / 2 > vars := by omega
  simp [this, eolOrEof, space0, isSpace, lineEndingOrEof, bind, Except.bind, pure, Except.pure]

/-- **andLine_print**: an ASCII AND line `lhs rhs0 rhs1\n` is read back -/
theorem andLine_print (vars lhs in1 in2 : Nat) (h0 : lhs < 2 ^ 64) (h1 : in1 < 2 ^ 64)
    (h2 : in2 < 2 ^ 64) (v0 : lhs / 2 ≤ vars) (v1 : in1 / 2 ≤ vars) (v2 : in2 / 2 ≤ vars)
    (rest : Bytes) :
    andLine vars (printNat lhs ++ 32 :: (printNat in1 ++ 32 :: (printNat in2 ++ 10 :: rest))) =
      .ok ((lhs, in1, in2), rest) := by
  unfold andLine literal
  rw [u64_print lhs h0 _ (by simp [NoDigitHead, isDigit])]
  have e0 : ¬ lhs / 2 > vars := by omega
  have e1 : ¬ in1 / 2 > vars := by omega
  have e2 : ¬ in2 / 2 > vars := by omega
  have hs : ∀ (n : Nat) (r : Bytes), space0 (printNat n ++ r) = printNat n ++ r := by
    intro n r
    have hd := printNat_digits n
    have hne := printNat_ne_nil n
    generalize printNat n = ds at hd hne
    cases ds with
    | nil => exact absurd rfl hne
    | cons d ds =>
      have hdd : isDigit d = true := hd d (List.mem_cons_self ..)
      have : isSpace d = false := by
        simp [isDigit] at hdd
        simp [isSpace]; omega
      simp [space0, this]
  simp only [e0, bind, Except.bind, pure, Except.pure, if_false, space1, isSpace, hs]
  simp only [BEq.rfl, Bool.true_or, if_true]
  rw [u64_print in1 h1 _ (by simp [NoDigitHead, isDigit])]
  simp only [e1, if_false, hs]
  simp only [BEq.rfl, Bool.true_or, if_true]
  rw [u64_print in2 h2 _ (by simp [NoDigitHead, isDigit])]
  simp [e2, eolOrEof, space0, isSpace, lineEndingOrEof]

/-- **aag_aig_gate_equiv_partial**: one AND gate `lhs = 2 i > in1 ≥ in2` of a canonically numbered
problem, written as the ASCII line `lhs in1 in2\n` and as the binary delta pair, is read to the same
three numbers by both tokenisers (`andLine` / `decodeAnd`), and both branches translate each number
to the same `Literal` (`mapAscii (canonicalMap …)` = `makeLiteral`).

Full statement (proved in `Files.lean` for the combinational AIGER 1.0 subset, `aag_aig_equiv`;
otherwise tested by the `pair` cases of stream `aigparse`):
`parse c (printAag P) = parse c (printAig P) = .ok (canon P)` for every structured problem `P` in
the domain of the binary format, and `parse c (printAag P) = .ok (canon P)` for every admissible
ASCII problem. -/
theorem aag_aig_gate_equiv_partial (vars firstAnd nAnd i in1 in2 : Nat) (hi : 2 * i < 2 ^ 64)
    (h1 : in1 < 2 * i) (h2 : in2 ≤ in1) (hv : i ≤ vars) (hm : vars < firstAnd + nAnd)
    (rest : Bytes) :
    andLine vars (printNat (2 * i) ++ 32 :: (printNat in1 ++ 32 :: (printNat in2 ++ 10 :: rest))) =
        .ok ((2 * i, in1, in2), rest) ∧
      decodeAnd (2 * i) (encodeAnd (2 * i) in1 in2 ++ rest) = some ((in1, in2), rest) ∧
      mapAscii (canonicalMap firstAnd nAnd) in1 = makeLiteral firstAnd in1 ∧
      mapAscii (canonicalMap firstAnd nAnd) in2 = makeLiteral firstAnd in2 :=
  ⟨andLine_print vars (2 * i) in1 in2 hi (by omega) (by omega) (by omega) (by omega) (by omega) rest,
    aiger_delta_roundtrip (2 * i) in1 in2 h1 h2 hi rest,
    aiger_ascii_binary_same firstAnd nAnd in1 (by omega),
    aiger_ascii_binary_same firstAnd nAnd in2 (by omega)⟩

/-- non-vacuity: the gate `6 4 2` of the AIGER documentation -/
example : andLine 3 (printNat 6 ++ 32 :: (printNat 4 ++ 32 :: (printNat 2 ++ 10 :: []))) =
    .ok ((6, 4, 2), []) :=
  (aag_aig_gate_equiv_partial 3 3 1 3 4 2 (by decide) (by decide) (by decide) (by decide)
    (by decide) []).1

end OxiddModel.AigerParse
