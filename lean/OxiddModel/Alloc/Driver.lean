import OxiddModel.Util.Proto
import OxiddModel.Alloc.Trace

/-!
Line-protocol driver `alloc` (C05 / C14 / C07, runtime traces of the node-slot allocator).

The harness (`/verif/harness/src/bin/c05_alloc.rs`) runs scripts on real managers compiled with the
hooks `oxidd_core::util::verif_alloc` and writes the logged events of one manager, one per line, in
the order of the log. The driver replays them on the model state (`Trace.evNext` = `Model.step`) and
judges every event with `Trace.judge` (`Trace.judge_none_iff`: `ok` is printed iff `Trace.evOK`
holds, i.e. iff the model does this step with exactly the reported outcome).

```
store <cap> <chunk> <terms> <threads> <fix 0|1>   -> store ok     a fresh store, threads 0..threads-1
attach <t>                                        -> verdict      `Op.attach`
begin <t>                                         -> verdict      `Op.sessionBegin`
alloc <t> <slot> <source> <next> [| snap]         -> verdict      `Op.alloc`, outcome `Obs.alloc`
oom <t> <delta> [| snap]                          -> verdict      `Op.alloc`, outcome `Obs.oom`
free <t> <slot> <prev>                            -> verdict      `Op.free`, `Obs.freed prev none`
freeho <t> <slot> <prev> <head> <delta> <localAfter> [| snap]     `Obs.freed prev (some (head, delta))`
ffree <t> <slot> <prev> [| snap]                  -> verdict      `Op.free`, `Obs.foreignFreed`
gchand <t> <head> <delta> <localAfter> [| snap]   -> verdict      `Op.gcHandOver`
end <t> <returned 0|1> <head> <start> <stop> <delta> [| snap]     `Op.sessionEnd`
nodes <n>                                         -> ok | live-mismatch model=<n>   (`num_inner_nodes`)
audit                                             -> audit live=… shared=… local=… reserved=… fresh=… count=… deltas=… drift=… <ok|clause>
```
`snap` = `<node_count> <allocated> <lists> <gc 0|1|2>`; `source` = `local-list | local-chunk |
shared-list | chunk | single | foreign-list | foreign-single`.
`verdict` = `ok` | `violation <clause> [model=<value>]`. Anything else: `bad-op`.
-/
namespace OxiddModel.Alloc

structure DState where
  c : Cfg
  s : State
  ready : Bool

def DState.init : DState :=
  { c := { cap := 0, chunk := 1, terms := 1 }, s := State.init { cap := 0, chunk := 1, terms := 1 } 0,
    ready := false }

def sourceName : Source → String
  | .localList => "local-list"
  | .localChunk => "local-chunk"
  | .sharedList => "shared-list"
  | .chunk => "chunk"
  | .single => "single"
  | .foreignList => "foreign-list"
  | .foreignSingle => "foreign-single"

def parseSource : String → Option Source
  | "local-list" => some .localList
  | "local-chunk" => some .localChunk
  | "shared-list" => some .sharedList
  | "chunk" => some .chunk
  | "single" => some .single
  | "foreign-list" => some .foreignList
  | "foreign-single" => some .foreignSingle
  | _ => none

def violName : Viol → String
  | .badThread => "bad-thread"
  | .attachUsed => "attach-used"
  | .beginNested => "begin-nested"
  | .doubleFree => "double-free"
  | .freeUninit => "free-uninit"
  | .noSession => "no-session"
  | .allocLive => "alloc-live"
  | .source m => "source model=" ++ sourceName m
  | .slot m => s!"slot model={m}"
  | .link m => s!"link model={m}"
  | .modelOom => "model-oom"
  | .oomWithFreeSlots => "oom-with-free-slots"
  | .delta m => s!"delta model={m}"
  | .freeMode => "free-mode"
  | .publishedTwice => "published-twice"
  | .unexpectedHandover => "unexpected-handover"
  | .missingHandover => "missing-handover"
  | .head m => s!"head model={m}"
  | .slotsLost => "slots-lost"
  | .spuriousReturn => "spurious-return"
  | .range => "range"
  | .shared => "shared"
  | .keepsHead => "keeps-head"
  | .malformed => "malformed"

/-- `["|", count, allocated, lists, gc]` → snapshot; `[]` → none -/
def parseSnap : List String → Option (Option Snap)
  | [] => some none
  | ["|", a, b, l, g] =>
    match a.toInt?, b.toNat?, l.toNat?, g.toNat? with
    | some a, some b, some l, some g => some (some { count := a, allocated := b, lists := l, gc := g })
    | _, _, _, _ => none
  | _ => none

def judgeEv (d : DState) (e : Ev) : DState × String :=
  match d with
  | { c, s, ready } =>
    match judgeStep c s e with
    | (s', v) =>
      ({ c := c, s := s', ready := ready },
        match v with
        | none => "ok"
        | some v => "violation " ++ violName v)

/-! ### the audit (linear time; a cross-check of the driver, not part of the proofs) -/

/-- follow the links from `h`, marking the cells; stops with an error at a cell that is not free
or already marked -/
def markList (s : State) (seen : Array Bool) (h : Nat) : Except String (Array Bool × Nat) := Id.run do
  let mut seen := seen
  let mut cur := h
  let mut n := 0
  for _ in [0:s.mem.size + 1] do
    if cur = 0 then break
    match s.cell cur with
    | .free nx =>
      if seen.getD cur true then return .error "lists-overlap"
      seen := seen.setIfInBounds cur true
      n := n + 1
      cur := nx
    | _ => return .error "list-broken"
  if cur ≠ 0 then return .error "list-broken"
  return .ok (seen, n)

def auditLine (c : Cfg) (s : State) : String := Id.run do
  let live := s.liveCount
  let fresh := c.cap - s.allocated
  let mut seen : Array Bool := Array.replicate s.mem.size false
  let mut shared := 0
  let mut loc := 0
  let mut reserved := 0
  let mut verdict := ""
  for h in s.stack do
    if h = 0 ∧ verdict = "" then verdict := "zero-head"
    match markList s seen h with
    | .ok (sn, n) => seen := sn; shared := shared + n
    | .error e => if verdict = "" then verdict := e
  for l in s.locals do
    if l.cur then
      match markList s seen l.next with
      | .ok (sn, n) => seen := sn; loc := loc + n
      | .error e => if verdict = "" then verdict := e
  let mut freeCells := 0
  for i in [0:c.cap] do
    let id := i + c.terms
    match s.cell id with
    | .free _ => freeCells := freeCells + 1
    | .uninit => pure ()
    | .live => pure ()
    if id ≥ s.allocated + c.terms ∧ s.cell id ≠ .uninit ∧ verdict = "" then verdict := "fresh-not-uninit"
  for l in s.locals do
    if l.cur then
      for i in [l.init:chunkEnd c l.init] do
        let id := i + c.terms
        reserved := reserved + 1
        if verdict = "" then
          if seen.getD id true then verdict := "reserved-overlap"
          else if s.cell id ≠ .uninit ∨ i ≥ s.allocated then verdict := "reserved-not-uninit"
        seen := seen.setIfInBounds id true
  if verdict = "" then
    if s.mem.size ≠ c.terms + c.cap then verdict := "size"
    else if s.allocated > c.cap then verdict := "allocated"
    else if freeCells ≠ shared + loc then verdict := "free-slot-in-no-list"
    else if live + shared + loc + reserved + fresh ≠ c.cap then verdict := "slots-lost"
    else if !(s.locals.all (fun l => l.cur || decide (l.delta = 0))) then verdict := "stale-delta"
    else if s.count + s.deltaSum ≠ (live : Int) + (s.drift : Int) then verdict := "count-mismatch"
    else verdict := "ok"
  return s!"audit live={live} shared={shared} local={loc} reserved={reserved} fresh={fresh} count={s.count} deltas={s.deltaSum} drift={s.drift} {verdict}"

def stepWords (d : DState) : List String → DState × String
  | ["store", cap, chunk, terms, n, fix] =>
    match cap.toNat?, chunk.toNat?, terms.toNat?, n.toNat? with
    | some cap, some chunk, some terms, some n =>
      if chunk = 0 ∨ terms = 0 ∨ ¬ (fix = "0" ∨ fix = "1") then (d, "bad-op")
      else
        let c : Cfg := { cap := cap, chunk := chunk, terms := terms, fixCount := fix = "1" }
        ({ c := c, s := State.init c n, ready := true }, "store ok")
    | _, _, _, _ => (d, "bad-op")
  | ws =>
    if !d.ready then (d, "bad-op") else
    match ws with
    | ["attach", t] =>
      match t.toNat? with
      | some t => judgeEv d { op := .attach t, obs := .none }
      | none => (d, "bad-op")
    | ["begin", t] =>
      match t.toNat? with
      | some t => judgeEv d { op := .sessionBegin t, obs := .none }
      | none => (d, "bad-op")
    | "alloc" :: t :: slot :: src :: nx :: rest =>
      match t.toNat?, slot.toNat?, parseSource src, nx.toNat?, parseSnap rest with
      | some t, some slot, some src, some nx, some snap =>
        judgeEv d { op := .alloc t, obs := .alloc slot src nx, snap := snap }
      | _, _, _, _, _ => (d, "bad-op")
    | "oom" :: t :: delta :: rest =>
      match t.toNat?, delta.toInt?, parseSnap rest with
      | some t, some delta, some snap => judgeEv d { op := .alloc t, obs := .oom delta, snap := snap }
      | _, _, _ => (d, "bad-op")
    | ["free", t, slot, prev] =>
      match t.toNat?, slot.toNat?, prev.toNat? with
      | some t, some slot, some prev => judgeEv d { op := .free t slot, obs := .freed prev none }
      | _, _, _ => (d, "bad-op")
    | "freeho" :: t :: slot :: prev :: head :: delta :: la :: rest =>
      match t.toNat?, slot.toNat?, prev.toNat?, head.toNat?, delta.toInt?, la.toNat?, parseSnap rest with
      | some t, some slot, some prev, some head, some delta, some la, some snap =>
        judgeEv d { op := .free t slot, obs := .freed prev (some (head, delta)), snap := snap,
                    localAfter := some la }
      | _, _, _, _, _, _, _ => (d, "bad-op")
    | "ffree" :: t :: slot :: prev :: rest =>
      match t.toNat?, slot.toNat?, prev.toNat?, parseSnap rest with
      | some t, some slot, some prev, some snap =>
        judgeEv d { op := .free t slot, obs := .foreignFreed prev, snap := snap }
      | _, _, _, _ => (d, "bad-op")
    | "gchand" :: t :: head :: delta :: la :: rest =>
      match t.toNat?, head.toNat?, delta.toInt?, la.toNat?, parseSnap rest with
      | some t, some head, some delta, some la, some snap =>
        judgeEv d { op := .gcHandOver t, obs := .gcHandOver head delta, snap := snap, localAfter := some la }
      | _, _, _, _, _ => (d, "bad-op")
    | "end" :: t :: r :: head :: a :: b :: delta :: rest =>
      match t.toNat?, head.toNat?, a.toNat?, b.toNat?, delta.toInt?, parseSnap rest with
      | some t, some head, some a, some b, some delta, some snap =>
        if r = "0" ∨ r = "1" then
          judgeEv d { op := .sessionEnd t, obs := .sessionEnd (r = "1") head a b delta, snap := snap }
        else (d, "bad-op")
      | _, _, _, _, _, _ => (d, "bad-op")
    | ["nodes", n] =>
      match n.toNat? with
      | some n => (d, if n = d.s.liveCount then "ok" else s!"live-mismatch model={d.s.liveCount}")
      | none => (d, "bad-op")
    | ["audit"] => (d, auditLine d.c d.s)
    | _ => (d, "bad-op")

def proto : Proto :=
  { σ := DState, init := DState.init, step := fun s line => stepWords s (words line) }

end OxiddModel.Alloc
