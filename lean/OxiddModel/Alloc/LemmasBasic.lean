import OxiddModel.Alloc.Model

/-!
Basic lemmas for the allocator model: how the observers (`cell`, `loc`, `liveCount`, `deltaSum`, …)
react to the primitive updates (`setCell`, `setLoc`), arithmetic of `chunkEnd`, and linked free
lists in memory (`Chain`).
-/
namespace OxiddModel.Alloc

/-! ## observers under the primitive updates -/

@[simp] theorem cell_setCell (s : State) (i j : Nat) (v : Cell) :
    (s.setCell i v).cell j = if j = i ∧ i < s.mem.size then v else s.cell j := by
  simp only [State.cell, State.setCell, Array.getD_eq_getD_getElem?, Array.getElem?_setIfInBounds]
  by_cases h : i = j
  · subst h
    by_cases h2 : i < s.mem.size
    · simp [h2]
    · simp [h2]
  · have : ¬ (j = i) := fun e => h e.symm
    simp [h, this]

@[simp] theorem loc_setCell (s : State) (i : Nat) (v : Cell) (t : Nat) : (s.setCell i v).loc t = s.loc t := rfl
@[simp] theorem stack_setCell (s : State) (i : Nat) (v : Cell) : (s.setCell i v).stack = s.stack := rfl
@[simp] theorem allocated_setCell (s : State) (i : Nat) (v : Cell) : (s.setCell i v).allocated = s.allocated := rfl
@[simp] theorem count_setCell (s : State) (i : Nat) (v : Cell) : (s.setCell i v).count = s.count := rfl
@[simp] theorem gc_setCell (s : State) (i : Nat) (v : Cell) : (s.setCell i v).gc = s.gc := rfl
@[simp] theorem drift_setCell (s : State) (i : Nat) (v : Cell) : (s.setCell i v).drift = s.drift := rfl
@[simp] theorem locals_setCell (s : State) (i : Nat) (v : Cell) : (s.setCell i v).locals = s.locals := rfl
@[simp] theorem size_setCell (s : State) (i : Nat) (v : Cell) : (s.setCell i v).mem.size = s.mem.size := by
  simp [State.setCell]
@[simp] theorem deltaSum_setCell (s : State) (i : Nat) (v : Cell) : (s.setCell i v).deltaSum = s.deltaSum := rfl
@[simp] theorem valid_setCell (s : State) (i : Nat) (v : Cell) (t : Nat) : (s.setCell i v).valid t = s.valid t := rfl

@[simp] theorem loc_setLoc (s : State) (t u : Nat) (l : Local) :
    (s.setLoc t l).loc u = if u = t ∧ t < s.locals.length then l else s.loc u := by
  simp only [State.loc, State.setLoc, List.getD_eq_getElem?_getD, List.getElem?_set]
  by_cases h : t = u
  · subst h
    by_cases h2 : t < s.locals.length
    · simp [h2]
    · simp [h2]
  · have : ¬ (u = t) := fun e => h e.symm
    simp [h, this]

@[simp] theorem cell_setLoc (s : State) (t : Nat) (l : Local) (j : Nat) : (s.setLoc t l).cell j = s.cell j := rfl
@[simp] theorem stack_setLoc (s : State) (t : Nat) (l : Local) : (s.setLoc t l).stack = s.stack := rfl
@[simp] theorem allocated_setLoc (s : State) (t : Nat) (l : Local) : (s.setLoc t l).allocated = s.allocated := rfl
@[simp] theorem count_setLoc (s : State) (t : Nat) (l : Local) : (s.setLoc t l).count = s.count := rfl
@[simp] theorem gc_setLoc (s : State) (t : Nat) (l : Local) : (s.setLoc t l).gc = s.gc := rfl
@[simp] theorem drift_setLoc (s : State) (t : Nat) (l : Local) : (s.setLoc t l).drift = s.drift := rfl
@[simp] theorem mem_setLoc (s : State) (t : Nat) (l : Local) : (s.setLoc t l).mem = s.mem := rfl
@[simp] theorem liveCount_setLoc (s : State) (t : Nat) (l : Local) : (s.setLoc t l).liveCount = s.liveCount := rfl
@[simp] theorem length_setLoc (s : State) (t : Nat) (l : Local) :
    (s.setLoc t l).locals.length = s.locals.length := by simp [State.setLoc]
@[simp] theorem valid_setLoc (s : State) (t : Nat) (l : Local) (u : Nat) : (s.setLoc t l).valid u = s.valid u := by
  simp [State.valid]

theorem valid_iff (s : State) (t : Nat) : s.valid t = true ↔ t < s.locals.length := by
  simp [State.valid]

/-- a thread beyond the declared ones has the pristine local state -/
theorem loc_of_not_valid (s : State) (t : Nat) (h : ¬ t < s.locals.length) : s.loc t = {} := by
  simp [State.loc, List.getD_eq_getElem?_getD, List.getElem?_eq_none (Nat.le_of_not_lt h)]

theorem cell_of_size_le (s : State) (i : Nat) (h : s.mem.size ≤ i) : s.cell i = .uninit := by
  simp [State.cell, Array.getD_eq_getD_getElem?, Array.getElem?_eq_none h]

/-- a cell that is not `uninit` is inside the array -/
theorem lt_size_of_cell_ne (s : State) (i : Nat) (h : s.cell i ≠ .uninit) : i < s.mem.size := by
  apply Classical.byContradiction
  intro hn
  exact h (cell_of_size_le s i (Nat.le_of_not_lt hn))

/-! ## sums and counts -/

theorem sum_set_int (l : List Int) (i : Nat) (v : Int) (h : i < l.length) :
    (l.set i v).sum = l.sum - l[i] + v := by
  induction l generalizing i with
  | nil => simp at h
  | cons x xs ih =>
    cases i with
    | zero => simp [List.sum_cons]; omega
    | succ i =>
      simp only [List.length_cons, Nat.add_lt_add_iff_right] at h
      simp only [List.set_cons_succ, List.sum_cons, List.getElem_cons_succ, ih i h]
      omega

theorem deltaSum_setLoc (s : State) (t : Nat) (l : Local) (h : t < s.locals.length) :
    (s.setLoc t l).deltaSum = s.deltaSum - (s.loc t).delta + l.delta := by
  have hl : t < (s.locals.map (·.delta)).length := by simpa using h
  simp only [State.deltaSum, State.setLoc, List.map_set]
  rw [sum_set_int _ _ _ hl]
  simp [State.loc, List.getD_eq_getElem?_getD, List.getElem?_eq_getElem h]

theorem liveCount_setCell (s : State) (i : Nat) (v : Cell) (h : i < s.mem.size) :
    (s.setCell i v).liveCount =
      s.liveCount - (if s.cell i = .live then 1 else 0) + (if v = .live then 1 else 0) := by
  have hl : i < s.mem.toList.length := by simpa using h
  simp only [State.liveCount, State.setCell, Array.toList_setIfInBounds]
  rw [List.count_set hl]
  have hc : s.cell i = s.mem.toList[i] := by
    simp [State.cell, Array.getD_eq_getD_getElem?, Array.getElem?_eq_getElem h]
  rw [hc]
  simp only [beq_iff_eq]

/-- the number of live cells is at least one if some cell is live -/
theorem liveCount_pos_of_live (s : State) (i : Nat) (h : s.cell i = .live) : 0 < s.liveCount := by
  have hlt : i < s.mem.size := lt_size_of_cell_ne s i (by rw [h]; simp)
  have hc : s.mem.toList[i]'(by simpa using hlt) = .live := by
    have : s.cell i = s.mem.toList[i]'(by simpa using hlt) := by
      simp [State.cell, Array.getD_eq_getD_getElem?, Array.getElem?_eq_getElem hlt]
    rw [← this]; exact h
  simp only [State.liveCount]
  apply List.count_pos_iff.2
  rw [← hc]
  exact List.getElem_mem _

/-! ## `chunkEnd` -/

theorem lt_succ_div_mul (i k : Nat) (hk : 0 < k) : i < (i / k + 1) * k := by
  have := Nat.lt_mul_div_succ i hk
  rw [Nat.mul_comm] at this
  exact this

theorem succ_div_mul_le (i k : Nat) : (i / k + 1) * k ≤ i + k := by
  have := Nat.div_mul_le_self i k
  rw [Nat.add_mul, Nat.one_mul]
  omega

theorem chunkEnd_of_mod_ne (c : Cfg) (i : Nat) (h : i % c.chunk ≠ 0) :
    chunkEnd c i = (i / c.chunk + 1) * c.chunk := by
  simp [chunkEnd, h]

theorem chunkEnd_of_mod_eq (c : Cfg) (i : Nat) (h : i % c.chunk = 0) : chunkEnd c i = i := by
  simp [chunkEnd, h]

theorem le_chunkEnd (c : Cfg) (i : Nat) (hk : 0 < c.chunk) : i ≤ chunkEnd c i := by
  unfold chunkEnd
  split
  · exact Nat.le_refl _
  · exact Nat.le_of_lt (lt_succ_div_mul i c.chunk hk)

/-- the end of the chunk that contains slot `i`, seen from `i + 1` -/
theorem chunkEnd_succ (c : Cfg) (i : Nat) (hk : 0 < c.chunk) :
    chunkEnd c (i + 1) = (i / c.chunk + 1) * c.chunk := by
  have hdm := Nat.div_add_mod i c.chunk
  have hml := Nat.mod_lt i hk
  by_cases h : (i + 1) % c.chunk = 0
  · rw [chunkEnd_of_mod_eq c _ h]
    -- i + 1 is a multiple of chunk, so i % chunk = chunk - 1
    have hd : c.chunk ∣ i + 1 := Nat.dvd_of_mod_eq_zero h
    obtain ⟨q, hq⟩ := hd
    have h1 : i / c.chunk = q - 1 := by
      have hqpos : 0 < q := by
        rcases Nat.eq_zero_or_pos q with h0 | h0
        · subst h0; simp at hq
        · exact h0
      have : i = c.chunk * (q - 1) + (c.chunk - 1) := by
        have : c.chunk * q = c.chunk * (q - 1) + c.chunk := by
          rw [← Nat.mul_succ]; congr 1; omega
        omega
      rw [this, Nat.mul_add_div hk, Nat.div_eq_of_lt (by omega)]
      omega
    rw [h1]
    have hqpos : 0 < q := by
      rcases Nat.eq_zero_or_pos q with h0 | h0
      · subst h0; simp at hq
      · exact h0
    rw [hq, Nat.mul_comm]
    congr 1
    omega
  · rw [chunkEnd_of_mod_ne c _ h]
    congr 2
    -- (i+1)/k = i/k since i % k + 1 < k
    have hlt : i % c.chunk + 1 < c.chunk := by
      apply Classical.byContradiction
      intro hn
      have he : i % c.chunk + 1 = c.chunk := by omega
      apply h
      have : i + 1 = c.chunk * (i / c.chunk) + c.chunk := by omega
      rw [this, Nat.add_mod, Nat.mul_mod_right, Nat.mod_self]
      simp
    have : i + 1 = c.chunk * (i / c.chunk) + (i % c.chunk + 1) := by omega
    rw [this, Nat.mul_add_div hk, Nat.div_eq_of_lt hlt]
    omega

theorem chunkEnd_succ_of_mod_ne (c : Cfg) (i : Nat) (hk : 0 < c.chunk) (h : i % c.chunk ≠ 0) :
    chunkEnd c (i + 1) = chunkEnd c i := by
  rw [chunkEnd_succ c i hk, chunkEnd_of_mod_ne c i h]

theorem lt_chunkEnd_of_mod_ne (c : Cfg) (i : Nat) (hk : 0 < c.chunk) (h : i % c.chunk ≠ 0) :
    i < chunkEnd c i := by
  rw [chunkEnd_of_mod_ne c i h]; exact lt_succ_div_mul i c.chunk hk

/-! ## free lists in memory -/

/-- `Chain f h l`: following the links from the head `h` one visits exactly the cells `l`, all of
them free, and ends with the link `0` -/
def Chain (f : Nat → Cell) : Nat → List Nat → Prop
  | h, [] => h = 0
  | h, x :: xs => h = x ∧ x ≠ 0 ∧ ∃ n, f x = .free n ∧ Chain f n xs

theorem Chain.nil_iff {f : Nat → Cell} {h : Nat} : Chain f h [] ↔ h = 0 := Iff.rfl

theorem Chain.head_eq_zero_iff {f : Nat → Cell} {h : Nat} {l : List Nat} (hc : Chain f h l) :
    h = 0 ↔ l = [] := by
  cases l with
  | nil => simp [Chain] at hc; simp [hc]
  | cons x xs => simp [Chain] at hc; simp; omega

/-- the members of a chain are free cells with non-zero ids -/
theorem Chain.mem_free {f : Nat → Cell} : ∀ {h : Nat} {l : List Nat}, Chain f h l →
    ∀ x ∈ l, x ≠ 0 ∧ ∃ n, f x = .free n := by
  intro h l
  induction l generalizing h with
  | nil => intro _ x hx; cases hx
  | cons y ys ih =>
    intro hc x hx
    obtain ⟨_, hy0, n, hn, hrest⟩ := hc
    rcases List.mem_cons.1 hx with rfl | hx
    · exact ⟨hy0, n, hn⟩
    · exact ih hrest x hx

/-- frame rule: a chain does not notice changes outside its cells -/
theorem Chain.frame {f g : Nat → Cell} : ∀ {h : Nat} {l : List Nat}, Chain f h l →
    (∀ x ∈ l, g x = f x) → Chain g h l := by
  intro h l
  induction l generalizing h with
  | nil => intro hc _; exact hc
  | cons y ys ih =>
    intro hc hfg
    obtain ⟨hh, hy0, n, hn, hrest⟩ := hc
    refine ⟨hh, hy0, n, ?_, ih hrest (fun x hx => hfg x (List.mem_cons_of_mem _ hx))⟩
    rw [hfg y (List.mem_cons_self)]; exact hn

/-- the list reached from a head is unique -/
theorem Chain.det {f : Nat → Cell} : ∀ {h : Nat} {l l' : List Nat}, Chain f h l → Chain f h l' → l = l' := by
  intro h l
  induction l generalizing h with
  | nil =>
    intro l' hc hc'
    cases l' with
    | nil => rfl
    | cons y ys =>
      simp only [Chain] at hc hc'
      omega
  | cons x xs ih =>
    intro l' hc hc'
    cases l' with
    | nil =>
      simp only [Chain] at hc hc'
      omega
    | cons y ys =>
      obtain ⟨h1, _, n, hn, hrest⟩ := hc
      obtain ⟨h2, _, n', hn', hrest'⟩ := hc'
      have hxy : x = y := by omega
      subst hxy
      rw [hn] at hn'
      cases hn'
      rw [ih hrest hrest']

/-- the part of a chain from one of its members on is a chain -/
theorem Chain.suffix {f : Nat → Cell} : ∀ {h : Nat} {l : List Nat}, Chain f h l → ∀ x ∈ l,
    ∃ l', Chain f x (x :: l') ∧ l'.length < l.length := by
  intro h l
  induction l generalizing h with
  | nil => intro _ x hx; cases hx
  | cons y ys ih =>
    intro hc x hx
    rcases List.mem_cons.1 hx with rfl | hx
    · obtain ⟨_, hy0, n, hn, hrest⟩ := hc
      exact ⟨ys, ⟨rfl, hy0, n, hn, hrest⟩, by simp⟩
    · obtain ⟨_, _, n, _, hrest⟩ := hc
      obtain ⟨l', hl', hlen⟩ := ih hrest x hx
      exact ⟨l', hl', by simp; omega⟩

/-- **acyclic and duplicate-free**: a chain visits no cell twice -/
theorem Chain.nodup {f : Nat → Cell} : ∀ {h : Nat} {l : List Nat}, Chain f h l → l.Nodup := by
  intro h l
  induction l generalizing h with
  | nil => intro _; exact List.nodup_nil
  | cons y ys ih =>
    intro hc
    have hc0 := hc
    obtain ⟨hh, hy0, n, hn, hrest⟩ := hc
    refine List.nodup_cons.2 ⟨?_, ih hrest⟩
    intro hmem
    obtain ⟨l', hl', hlen⟩ := Chain.suffix hrest y hmem
    have hy : Chain f y (y :: ys) := ⟨rfl, hy0, n, hn, hrest⟩
    have := Chain.det hl' hy
    simp only [List.cons.injEq, true_and] at this
    subst this
    omega

theorem Chain.cons_iff {f : Nat → Cell} {h x : Nat} {xs : List Nat} :
    Chain f h (x :: xs) ↔ h = x ∧ x ≠ 0 ∧ ∃ n, f x = .free n ∧ Chain f n xs := Iff.rfl

/-- two lists are disjoint -/
def Disj (a b : List Nat) : Prop := ∀ x, x ∈ a → x ∉ b

theorem Disj.symm {a b : List Nat} (h : Disj a b) : Disj b a := fun x hb ha => h x ha hb

theorem Disj.nil_left (b : List Nat) : Disj [] b := fun _ h => by cases h
theorem Disj.nil_right (a : List Nat) : Disj a [] := fun _ _ h => by cases h

end OxiddModel.Alloc
