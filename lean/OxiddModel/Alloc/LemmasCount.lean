import OxiddModel.Alloc.LemmasStep2

/-!
Counting slots: the number of live / free / uninitialised cells as counts over the index range,
the length of duplicate-free lists that enumerate a set of indices.
-/
namespace OxiddModel.Alloc

/-- number of indices below `n` that satisfy `p` -/
def cnt (p : Nat → Bool) (n : Nat) : Nat := (List.range n).countP p

theorem cnt_zero (p : Nat → Bool) : cnt p 0 = 0 := rfl

theorem cnt_succ (p : Nat → Bool) (n : Nat) : cnt p (n + 1) = cnt p n + (if p n then 1 else 0) := by
  simp [cnt, List.range_succ, List.countP_append, List.countP_cons]

theorem cnt_congr {p q : Nat → Bool} {n : Nat} (h : ∀ i, i < n → p i = q i) : cnt p n = cnt q n := by
  induction n with
  | zero => rfl
  | succ n ih =>
    rw [cnt_succ, cnt_succ, ih (fun i hi => h i (by omega)), h n (by omega)]

theorem cnt_le (p : Nat → Bool) (n : Nat) : cnt p n ≤ n := by
  induction n with
  | zero => simp [cnt_zero]
  | succ n ih => rw [cnt_succ]; split <;> omega

/-- counting in a list = counting over its index range -/
theorem count_eq_cnt (l : List Cell) (v : Cell) :
    l.count v = cnt (fun i => l.getD i .uninit == v) l.length := by
  induction l with
  | nil => rfl
  | cons x xs ih =>
    simp only [cnt, List.length_cons, List.range_succ_eq_map, List.countP_cons, List.countP_map,
      List.count_cons]
    rw [ih]
    simp only [cnt]
    congr 1

theorem liveCount_eq_cnt (s : State) : s.liveCount = cnt (fun i => s.cell i == .live) s.mem.size := by
  simp only [State.liveCount]
  rw [count_eq_cnt]
  simp only [Array.length_toList]
  apply cnt_congr
  intro i _
  simp [State.cell, Array.getD_eq_getD_getElem?, List.getD_eq_getElem?_getD]

def isFree : Cell → Bool
  | .free _ => true
  | _ => false

/-- every cell is live, free or uninitialised -/
theorem cnt_partition (f : Nat → Cell) (n : Nat) :
    cnt (fun i => f i == .live) n + cnt (fun i => isFree (f i)) n + cnt (fun i => f i == .uninit) n = n := by
  induction n with
  | zero => rfl
  | succ n ih =>
    simp only [cnt_succ]
    cases h : f n with
    | uninit =>
      simp only [show isFree Cell.uninit = false from rfl, show (Cell.uninit == Cell.live) = false from rfl,
        show (Cell.uninit == Cell.uninit) = true from rfl, Bool.false_eq_true, ↓reduceIte]
      omega
    | free m =>
      simp only [show isFree (Cell.free m) = true from rfl, show (Cell.free m == Cell.live) = false from rfl,
        show (Cell.free m == Cell.uninit) = false from rfl, Bool.false_eq_true, ↓reduceIte]
      omega
    | live =>
      simp only [show isFree Cell.live = false from rfl, show (Cell.live == Cell.live) = true from rfl,
        show (Cell.live == Cell.uninit) = false from rfl, Bool.false_eq_true, ↓reduceIte]
      omega

/-- the indices outside `[a, b)` -/
theorem cnt_outside (a b n : Nat) (hab : a ≤ b) :
    cnt (fun i => decide (i < a ∨ b ≤ i)) n = min a n + (n - b) := by
  induction n with
  | zero => simp [cnt_zero]
  | succ n ih =>
    rw [cnt_succ, ih]
    by_cases h : n < a ∨ b ≤ n
    · simp only [h, decide_true, ↓reduceIte]
      simp only [Nat.min_def]
      split <;> split <;> omega
    · simp only [h, decide_false, Bool.false_eq_true, ↓reduceIte]
      simp only [Nat.min_def]
      split <;> split <;> omega

/-- a duplicate-free list that enumerates `{i < n | p i}` has that many elements -/
theorem length_eq_cnt {L : List Nat} {p : Nat → Bool} {n : Nat} (hnd : L.Nodup)
    (hmem : ∀ x, x ∈ L ↔ x < n ∧ p x = true) : L.length = cnt p n := by
  have hnd2 : ((List.range n).filter p).Nodup := List.Nodup.sublist List.filter_sublist List.nodup_range
  have hperm : L.Perm ((List.range n).filter p) := by
    rw [List.perm_ext_iff_of_nodup hnd hnd2]
    intro a
    rw [hmem a, List.mem_filter, List.mem_range]
  rw [hperm.length_eq, cnt, List.countP_eq_length_filter]

/-- the concatenation of pairwise disjoint duplicate-free lists is duplicate-free -/
theorem nodup_flatten_of {L : List (List Nat)} (hnd : ∀ l ∈ L, l.Nodup) (hd : L.Pairwise Disj) :
    L.flatten.Nodup := by
  induction L with
  | nil => simp
  | cons l ls ih =>
    rw [List.flatten_cons, List.nodup_append]
    rw [List.pairwise_cons] at hd
    refine ⟨hnd l List.mem_cons_self, ih (fun l' hl' => hnd l' (List.mem_cons_of_mem _ hl')) hd.2, ?_⟩
    intro a ha b hb hab
    subst hab
    obtain ⟨l', hl', hal'⟩ := List.mem_flatten.1 hb
    exact hd.1 l' hl' a ha hal'

/-- one more live cell -/
theorem cnt_upd_live (f : Nat → Cell) (id n : Nat) (hid : id < n) (hnl : f id ≠ .live) :
    cnt (fun i => upd f id .live i == .live) n = cnt (fun i => f i == .live) n + 1 := by
  have key : ∀ m, cnt (fun i => upd f id .live i == .live) m =
      cnt (fun i => f i == .live) m + (if id < m then 1 else 0) := by
    intro m
    induction m with
    | zero => simp [cnt_zero]
    | succ m ih =>
      rw [cnt_succ, cnt_succ, ih]
      by_cases hm : m = id
      · subst hm
        have h1 : (f m == Cell.live) = false := by simpa using hnl
        simp [h1]
      · rw [upd_ne _ _ hm]
        have h1 : (id < m + 1) = (id < m) := by
          apply propext; constructor <;> intro h <;> omega
        simp only [h1]
        omega
  rw [key n]; simp [hid]

theorem StackOK.nodup {f : Nat → Cell} : ∀ {hs : List Nat} {ls : List (List Nat)}, StackOK f hs ls →
    ∀ l ∈ ls, l.Nodup := by
  intro hs
  induction hs with
  | nil => intro ls h l hl; cases ls <;> simp_all [StackOK]
  | cons h hs ih =>
    intro ls hok l hl
    cases ls with
    | nil => simp [StackOK] at hok
    | cons l0 ls =>
      obtain ⟨_, hc, hrest⟩ := hok
      rcases List.mem_cons.1 hl with rfl | hl
      · exact hc.nodup
      · exact ih hrest l hl

/-- the sum of the deltas is 0 if every thread's delta is 0 -/
theorem deltaSum_zero {s : State} (h : ∀ t, (s.loc t).delta = 0) : s.deltaSum = 0 := by
  have hall : ∀ l ∈ s.locals, l.delta = 0 := by
    intro l hl
    obtain ⟨i, hi, rfl⟩ := List.getElem_of_mem hl
    have := h i
    simpa [State.loc, List.getD_eq_getElem?_getD, List.getElem?_eq_getElem hi] using this
  simp only [State.deltaSum]
  generalize s.locals = ls at hall
  induction ls with
  | nil => rfl
  | cons x xs ih =>
    simp only [List.map_cons, List.sum_cons, hall x List.mem_cons_self,
      ih (fun l hl => hall l (List.mem_cons_of_mem _ hl))]
    rfl

end OxiddModel.Alloc
