import OxiddModel.Alloc.LemmasStep

/-!
`linkRange` (the loop of `return_preallocated`) at the level of the cell function: it produces
`linkF`; it keeps the size and the number of live cells.
-/
namespace OxiddModel.Alloc

def cellOf (m : Array Cell) : Nat → Cell := fun j => m.getD j .uninit

theorem cell_eq_cellOf (s : State) : s.cell = cellOf s.mem := rfl

theorem cellOf_set (m : Array Cell) (i : Nat) (v : Cell) (h : i < m.size) :
    cellOf (m.setIfInBounds i v) = upd (cellOf m) i v := by
  funext j
  simp only [cellOf, upd, Array.getD_eq_getD_getElem?, Array.getElem?_setIfInBounds]
  by_cases hj : i = j
  · subst hj; simp [h]
  · have : ¬ (j = i) := fun e => hj e.symm
    simp [hj, this]

theorem size_linkRange (m : Array Cell) (a k : Nat) : (linkRange m a k).size = m.size := by
  induction k generalizing m a with
  | zero => rfl
  | succ k ih => simp [linkRange, ih]

theorem cellOf_linkRange (m : Array Cell) (a k : Nat) (hb : a + k ≤ m.size) :
    cellOf (linkRange m a k) = fun j => if a ≤ j ∧ j < a + k then .free (j + 1) else cellOf m j := by
  induction k generalizing m a with
  | zero => funext j; simp [linkRange]; omega
  | succ k ih =>
    simp only [linkRange]
    rw [ih _ _ (by simp; omega), cellOf_set _ _ _ (by omega)]
    funext j
    by_cases hja : j = a
    · subst hja
      have h1 : ¬ (j + 1 ≤ j ∧ j < j + 1 + k) := by omega
      have h2 : j ≤ j ∧ j < j + (k + 1) := by omega
      simp [h1, h2]
    · simp only [upd_ne _ _ hja]
      by_cases hin : a + 1 ≤ j ∧ j < a + 1 + k
      · have h2 : a ≤ j ∧ j < a + (k + 1) := by omega
        simp [hin, h2]
      · have h2 : ¬ (a ≤ j ∧ j < a + (k + 1)) := by omega
        simp [hin, h2]

/-- the memory after `return_preallocated` linked `k + 1` cells from `a` on -/
theorem cellOf_link (m : Array Cell) (a k last : Nat) (hb : a + k < m.size) :
    cellOf (linkRange (m.setIfInBounds (a + k) (.free last)) a k) = linkF (cellOf m) a (k + 1) last := by
  rw [cellOf_linkRange _ _ _ (by simp; omega), cellOf_set _ _ _ hb]
  funext j
  simp only [linkF]
  by_cases hin : a ≤ j ∧ j < a + k
  · have h2 : a ≤ j ∧ j < a + (k + 1) := by omega
    have h3 : ¬ (j + 1 = a + (k + 1)) := by omega
    simp [hin, h2, h3]
  · by_cases hl : j = a + k
    · subst hl
      have h2 : a ≤ a + k ∧ a + k < a + (k + 1) := by omega
      have h3 : a + k + 1 = a + (k + 1) := by omega
      rw [if_neg hin, if_pos h2, if_pos h3, upd_same]
    · have h2 : ¬ (a ≤ j ∧ j < a + (k + 1)) := by omega
      simp [hin, h2, upd_ne _ _ hl]

theorem count_live_set (m : Array Cell) (i : Nat) (v : Cell) (h : i < m.size)
    (hold : cellOf m i ≠ .live) (hv : v ≠ .live) :
    (m.setIfInBounds i v).toList.count .live = m.toList.count .live := by
  have hl : i < m.toList.length := by simpa using h
  rw [Array.toList_setIfInBounds, List.count_set hl]
  have hc : cellOf m i = m.toList[i] := by
    simp [cellOf, Array.getD_eq_getD_getElem?, Array.getElem?_eq_getElem h]
  rw [hc] at hold
  have h1 : ¬ ((m.toList[i] == Cell.live) = true) := by simpa using hold
  have h2 : ¬ ((v == Cell.live) = true) := by simpa using hv
  rw [if_neg h1, if_neg h2]
  omega

theorem count_live_linkRange (m : Array Cell) (a k : Nat) (hb : a + k ≤ m.size)
    (hnl : ∀ j, a ≤ j → j < a + k → cellOf m j ≠ .live) :
    (linkRange m a k).toList.count .live = m.toList.count .live := by
  induction k generalizing m a with
  | zero => rfl
  | succ k ih =>
    simp only [linkRange]
    rw [ih _ _ (by simp; omega)]
    · exact count_live_set m a _ (by omega) (hnl a (Nat.le_refl _) (by omega)) (by simp)
    · intro j h1 h2
      rw [cellOf_set _ _ _ (by omega), upd_ne _ _ (by omega)]
      exact hnl j (by omega) (by omega)

end OxiddModel.Alloc
