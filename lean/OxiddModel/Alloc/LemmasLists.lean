import OxiddModel.Alloc.LemmasBasic

/-!
The list part of the invariant (`ListInv`) at the level of functions (`f : Nat → Cell` the memory,
`st` the shared stack, `lc : Nat → Local` the thread-local states) with its ghost (`Ghost`: the
members of every shared list and of every thread-local list), and the transitions that the
operations of the allocator perform on it.
-/
namespace OxiddModel.Alloc

/-- function update -/
def upd {α : Type} (f : Nat → α) (i : Nat) (v : α) : Nat → α := fun j => if j = i then v else f j

@[simp] theorem upd_same {α : Type} (f : Nat → α) (i : Nat) (v : α) : upd f i v i = v := by simp [upd]
theorem upd_ne {α : Type} (f : Nat → α) {i j : Nat} (v : α) (h : j ≠ i) : upd f i v j = f j := by
  simp [upd, h]

/-- ghost: the members of the shared lists (parallel to the stack) and of the thread-local lists -/
structure Ghost where
  sl : List (List Nat)
  ll : Nat → List Nat

/-- every entry of the shared stack is the head of a non-empty chain -/
def StackOK (f : Nat → Cell) : List Nat → List (List Nat) → Prop
  | [], [] => True
  | h :: hs, l :: ls => l ≠ [] ∧ Chain f h l ∧ StackOK f hs ls
  | _, _ => False

theorem StackOK.frame {f g : Nat → Cell} : ∀ {hs : List Nat} {ls : List (List Nat)}, StackOK f hs ls →
    (∀ l ∈ ls, ∀ x ∈ l, g x = f x) → StackOK g hs ls := by
  intro hs
  induction hs with
  | nil => intro ls h _; cases ls <;> simp_all [StackOK]
  | cons h hs ih =>
    intro ls hok hfg
    cases ls with
    | nil => simp [StackOK] at hok
    | cons l ls =>
      obtain ⟨hne, hc, hrest⟩ := hok
      exact ⟨hne, hc.frame (hfg l (List.mem_cons_self)),
        ih hrest (fun l' hl' => hfg l' (List.mem_cons_of_mem _ hl'))⟩

theorem StackOK.mem_free {f : Nat → Cell} : ∀ {hs : List Nat} {ls : List (List Nat)}, StackOK f hs ls →
    ∀ l ∈ ls, ∀ x ∈ l, x ≠ 0 ∧ ∃ n, f x = .free n := by
  intro hs
  induction hs with
  | nil => intro ls h l hl; cases ls <;> simp_all [StackOK]
  | cons h hs ih =>
    intro ls hok l hl
    cases ls with
    | nil => simp [StackOK] at hok
    | cons l0 ls =>
      obtain ⟨_, hc, hrest⟩ := hok
      rcases List.mem_cons.1 hl with rfl | hl
      · exact hc.mem_free
      · exact ih hrest l hl

theorem StackOK.length_eq {f : Nat → Cell} : ∀ {hs : List Nat} {ls : List (List Nat)}, StackOK f hs ls →
    ls.length = hs.length := by
  intro hs
  induction hs with
  | nil => intro ls h; cases ls <;> simp_all [StackOK]
  | cons h hs ih =>
    intro ls hok
    cases ls with
    | nil => simp [StackOK] at hok
    | cons l ls => simp [ih hok.2.2]

/-- the heads on the stack are not 0 -/
theorem StackOK.head_ne_zero {f : Nat → Cell} : ∀ {hs : List Nat} {ls : List (List Nat)}, StackOK f hs ls →
    ∀ h ∈ hs, h ≠ 0 := by
  intro hs
  induction hs with
  | nil => intro _ _ h hh; cases hh
  | cons h0 hs ih =>
    intro ls hok h hh
    cases ls with
    | nil => simp [StackOK] at hok
    | cons l ls =>
      obtain ⟨hne, hc, hrest⟩ := hok
      rcases List.mem_cons.1 hh with rfl | hh
      · intro h0; exact hne ((hc.head_eq_zero_iff).1 h0)
      · exact ih hrest h hh

/-- **The list part of the invariant.** -/
structure ListInv (f : Nat → Cell) (st : List Nat) (lc : Nat → Local) (g : Ghost) : Prop where
  /-- every shared list is a non-empty chain of free cells ending in 0 -/
  stack : StackOK f st g.sl
  /-- the shared lists are pairwise disjoint -/
  sl_disj : g.sl.Pairwise Disj
  /-- the local list of a thread with local state is a chain -/
  loc_chain : ∀ t, (lc t).cur = true → Chain f (lc t).next (g.ll t)
  /-- a thread without local state owns no list -/
  loc_nil : ∀ t, (lc t).cur = false → g.ll t = []
  /-- shared and local lists are disjoint -/
  sl_ll : ∀ l ∈ g.sl, ∀ t, Disj l (g.ll t)
  /-- local lists of different threads are disjoint -/
  ll_ll : ∀ t u, t ≠ u → Disj (g.ll t) (g.ll u)
  /-- no free cell is lost: it is a member of some list -/
  free_in : ∀ id n, f id = .free n → (∃ l ∈ g.sl, id ∈ l) ∨ ∃ t, id ∈ g.ll t

namespace ListInv

variable {f : Nat → Cell} {st : List Nat} {lc : Nat → Local} {g : Ghost}

/-- members of the lists are free cells -/
theorem shared_free (h : ListInv f st lc g) : ∀ l ∈ g.sl, ∀ x ∈ l, x ≠ 0 ∧ ∃ n, f x = .free n :=
  h.stack.mem_free

theorem local_free (h : ListInv f st lc g) (t : Nat) : ∀ x ∈ g.ll t, x ≠ 0 ∧ ∃ n, f x = .free n := by
  intro x hx
  cases hc : (lc t).cur with
  | true => exact (h.loc_chain t hc).mem_free x hx
  | false => rw [h.loc_nil t hc] at hx; cases hx

/-- a cell that is not free is in no list -/
theorem not_mem_shared (h : ListInv f st lc g) {id : Nat} (hid : ∀ n, f id ≠ .free n) :
    ∀ l ∈ g.sl, id ∉ l := by
  intro l hl hm
  obtain ⟨_, n, hn⟩ := h.shared_free l hl id hm
  exact hid n hn

theorem not_mem_local (h : ListInv f st lc g) {id : Nat} (hid : ∀ n, f id ≠ .free n) :
    ∀ t, id ∉ g.ll t := by
  intro t hm
  obtain ⟨_, n, hn⟩ := h.local_free t id hm
  exact hid n hn

/-- cells that are not free may change (to something that is not free) -/
theorem frame_cells (h : ListInv f st lc g) {f' : Nat → Cell}
    (hsame : ∀ j n, f j = .free n → f' j = f j) (hnew : ∀ j n, f' j = .free n → f j = .free n) :
    ListInv f' st lc g where
  stack := h.stack.frame (fun l hl x hx => by
    obtain ⟨_, n, hn⟩ := h.shared_free l hl x hx; exact hsame x n hn)
  sl_disj := h.sl_disj
  loc_chain := fun t ht => (h.loc_chain t ht).frame (fun x hx => by
    obtain ⟨_, n, hn⟩ := h.local_free t x hx; exact hsame x n hn)
  loc_nil := h.loc_nil
  sl_ll := h.sl_ll
  ll_ll := h.ll_ll
  free_in := fun id n hn => h.free_in id n (hnew id n hn)

/-- only `cur` and `next` of the thread-local states matter -/
theorem loc_irrelevant (h : ListInv f st lc g) {lc' : Nat → Local}
    (hl : ∀ t, (lc' t).cur = (lc t).cur ∧ (lc' t).next = (lc t).next) : ListInv f st lc' g where
  stack := h.stack
  sl_disj := h.sl_disj
  loc_chain := fun t ht => by
    rw [(hl t).2]; exact h.loc_chain t (by rw [← (hl t).1]; exact ht)
  loc_nil := fun t ht => h.loc_nil t (by rw [← (hl t).1]; exact ht)
  sl_ll := h.sl_ll
  ll_ll := h.ll_ll
  free_in := h.free_in

/-- a thread with an empty local list (`next = 0`) really owns nothing -/
theorem ll_nil_of_next_zero (h : ListInv f st lc g) {t : Nat} (hn : (lc t).next = 0) : g.ll t = [] := by
  cases hc : (lc t).cur with
  | true =>
    have := h.loc_chain t hc
    exact (this.head_eq_zero_iff).1 hn
  | false => exact h.loc_nil t hc

/-- **`add_node` from the local list**: the head is a free cell (in particular not live), it
leaves the list. -/
theorem popLocal (h : ListInv f st lc g) {t id : Nat} (hc : (lc t).cur = true)
    (hid : (lc t).next = id) (h0 : id ≠ 0) :
    ∃ n rest, f id = .free n ∧ g.ll t = id :: rest ∧
      ∀ lc' : Nat → Local, (lc' t).cur = true → (lc' t).next = n → (∀ u, u ≠ t → lc' u = lc u) →
        ListInv (upd f id .live) st lc' { g with ll := upd g.ll t rest } := by
  have hch := h.loc_chain t hc
  rw [hid] at hch
  cases hl : g.ll t with
  | nil => rw [hl] at hch; simp [Chain] at hch; omega
  | cons x rest =>
    rw [hl] at hch
    obtain ⟨hx, _, n, hn, hrest⟩ := hch
    subst hx
    refine ⟨n, rest, hn, rfl, ?_⟩
    intro lc' hc' hn' hother
    have hnd : (id :: rest).Nodup := by
      have := (h.loc_chain t hc).nodup; rw [hl] at this; exact this
    have hnotrest : id ∉ rest := (List.nodup_cons.1 hnd).1
    have hidt : id ∈ g.ll t := by rw [hl]; exact List.mem_cons_self
    -- id is in no other list
    have hns : ∀ l ∈ g.sl, id ∉ l := fun l hl' hm => h.sl_ll l hl' t id hm hidt
    have hnl : ∀ u, u ≠ t → id ∉ g.ll u := fun u hu hm => h.ll_ll t u (Ne.symm hu) id hidt hm
    have hsub : ∀ x, x ∈ rest → x ∈ g.ll t := fun x hx => by rw [hl]; exact List.mem_cons_of_mem _ hx
    refine
      { stack := h.stack.frame (fun l hl' x hx => upd_ne _ _ (fun e => hns l hl' (e ▸ hx)))
        sl_disj := h.sl_disj
        loc_chain := ?_
        loc_nil := ?_
        sl_ll := ?_
        ll_ll := ?_
        free_in := ?_ }
    · intro u hu
      by_cases hut : u = t
      · subst hut
        simp only [upd_same]
        rw [hn']
        exact hrest.frame (fun x hx => upd_ne _ _ (fun e => hnotrest (e ▸ hx)))
      · rw [hother u hut] at hu ⊢
        simp only [upd_ne _ _ hut]
        exact (h.loc_chain u hu).frame (fun x hx => upd_ne _ _ (fun e => hnl u hut (e ▸ hx)))
    · intro u hu
      by_cases hut : u = t
      · subst hut; rw [hc'] at hu; cases hu
      · rw [hother u hut] at hu
        simp only [upd_ne _ _ hut]
        exact h.loc_nil u hu
    · intro l hl' u
      by_cases hut : u = t
      · subst hut
        simp only [upd_same]
        exact fun x hx hr => h.sl_ll l hl' u x hx (hsub x hr)
      · simp only [upd_ne _ _ hut]; exact h.sl_ll l hl' u
    · intro u v huv
      by_cases hut : u = t
      · subst hut
        have hvt : v ≠ u := Ne.symm huv
        simp only [upd_same, upd_ne _ _ hvt]
        exact fun x hx => h.ll_ll u v huv x (hsub x hx)
      · by_cases hvt : v = t
        · subst hvt
          simp only [upd_same, upd_ne _ _ hut]
          exact fun x hx hr => h.ll_ll u v huv x hx (hsub x hr)
        · simp only [upd_ne _ _ hut, upd_ne _ _ hvt]; exact h.ll_ll u v huv
    · intro j m hj
      have hji : j ≠ id := by
        intro e; subst e; simp at hj
      rw [upd_ne _ _ hji] at hj
      rcases h.free_in j m hj with hs | ⟨u, hu⟩
      · exact Or.inl hs
      · refine Or.inr ⟨u, ?_⟩
        by_cases hut : u = t
        · subst hut
          simp only [upd_same]
          rw [hl] at hu
          rcases List.mem_cons.1 hu with e | hr
          · exact absurd e hji
          · exact hr
        · simp only [upd_ne _ _ hut]; exact hu

/-- **a whole list moves from the shared stack to a thread** whose local list is empty -/
theorem popShared (h : ListInv f st lc g) {t id : Nat} {rest : List Nat} (hst : st = id :: rest)
    (hc : (lc t).cur = true) (hn : (lc t).next = 0) :
    ∃ l ls, g.sl = l :: ls ∧
      ∀ lc' : Nat → Local, (lc' t).cur = true → (lc' t).next = id → (∀ u, u ≠ t → lc' u = lc u) →
        ListInv f rest lc' { sl := ls, ll := upd g.ll t l } := by
  subst hst
  have hempty : g.ll t = [] := h.ll_nil_of_next_zero hn
  cases hsl : g.sl with
  | nil => have := h.stack; rw [hsl] at this; simp [StackOK] at this
  | cons l ls =>
    have hstk := h.stack
    rw [hsl] at hstk
    obtain ⟨hne, hch, hrest⟩ := hstk
    have hpw := h.sl_disj
    rw [hsl, List.pairwise_cons] at hpw
    refine ⟨l, ls, rfl, ?_⟩
    intro lc' hc' hn' hother
    have hlmem : l ∈ g.sl := by rw [hsl]; exact List.mem_cons_self
    have hlsmem : ∀ l' ∈ ls, l' ∈ g.sl := fun l' hl' => by rw [hsl]; exact List.mem_cons_of_mem _ hl'
    refine
      { stack := hrest
        sl_disj := hpw.2
        loc_chain := ?_
        loc_nil := ?_
        sl_ll := ?_
        ll_ll := ?_
        free_in := ?_ }
    · intro u hu
      by_cases hut : u = t
      · subst hut; simp only [upd_same]; rw [hn']; exact hch
      · rw [hother u hut] at hu ⊢
        simp only [upd_ne _ _ hut]; exact h.loc_chain u hu
    · intro u hu
      by_cases hut : u = t
      · subst hut; rw [hc'] at hu; cases hu
      · rw [hother u hut] at hu
        simp only [upd_ne _ _ hut]; exact h.loc_nil u hu
    · intro l' hl' u
      by_cases hut : u = t
      · subst hut; simp only [upd_same]
        exact (hpw.1 l' hl').symm
      · simp only [upd_ne _ _ hut]; exact h.sl_ll l' (hlsmem l' hl') u
    · intro u v huv
      by_cases hut : u = t
      · subst hut
        have hvt : v ≠ u := Ne.symm huv
        simp only [upd_same, upd_ne _ _ hvt]
        exact h.sl_ll l hlmem v
      · by_cases hvt : v = t
        · subst hvt
          simp only [upd_same, upd_ne _ _ hut]
          exact (h.sl_ll l hlmem u).symm
        · simp only [upd_ne _ _ hut, upd_ne _ _ hvt]; exact h.ll_ll u v huv
    · intro j m hj
      rcases h.free_in j m hj with ⟨l', hl', hm⟩ | ⟨u, hu⟩
      · rw [hsl] at hl'
        rcases List.mem_cons.1 hl' with e | hl'
        · subst e; exact Or.inr ⟨t, by simp only [upd_same]; exact hm⟩
        · exact Or.inl ⟨l', hl', hm⟩
      · refine Or.inr ⟨u, ?_⟩
        by_cases hut : u = t
        · subst hut; rw [hempty] at hu; cases hu
        · simp only [upd_ne _ _ hut]; exact hu

/-- **`add_node` on a thread without local state**: the head of the top list is handed out, the
rest of the list is pushed again -/
theorem popForeign (h : ListInv f st lc g) {id : Nat} {rest : List Nat} (hst : st = id :: rest) :
    ∃ n, f id = .free n ∧ ∃ g', ListInv (upd f id .live) (if n ≠ 0 then n :: rest else rest) lc g' := by
  subst hst
  cases hsl : g.sl with
  | nil => have := h.stack; rw [hsl] at this; simp [StackOK] at this
  | cons l ls =>
    have hstk := h.stack
    rw [hsl] at hstk
    obtain ⟨hne, hch, hrest⟩ := hstk
    have hpw := h.sl_disj
    rw [hsl, List.pairwise_cons] at hpw
    have hlmem : l ∈ g.sl := by rw [hsl]; exact List.mem_cons_self
    have hlsmem : ∀ l' ∈ ls, l' ∈ g.sl := fun l' hl' => by rw [hsl]; exact List.mem_cons_of_mem _ hl'
    cases hl : l with
    | nil => exact absurd hl hne
    | cons x l' =>
      rw [hl] at hch
      obtain ⟨hx, hx0, n, hn, hch'⟩ := hch
      subst hx
      have hnd : (id :: l').Nodup := by
        have := (show Chain f id (id :: l') from ⟨rfl, hx0, n, hn, hch'⟩).nodup; exact this
      have hnotin : id ∉ l' := (List.nodup_cons.1 hnd).1
      have hidl : id ∈ l := by rw [hl]; exact List.mem_cons_self
      have hsub : ∀ x, x ∈ l' → x ∈ l := fun x hx => by rw [hl]; exact List.mem_cons_of_mem _ hx
      have hns : ∀ l'' ∈ ls, id ∉ l'' := fun l'' hl'' hm => hpw.1 l'' hl'' id hidl hm
      have hnl : ∀ u, id ∉ g.ll u := fun u hm => h.sl_ll l hlmem u id hidl hm
      have hframe_ls : StackOK (upd f id .live) rest ls :=
        hrest.frame (fun l'' hl'' x hx => upd_ne _ _ (fun e => hns l'' hl'' (e ▸ hx)))
      have hch'' : Chain (upd f id .live) n l' :=
        hch'.frame (fun x hx => upd_ne _ _ (fun e => hnotin (e ▸ hx)))
      have hn0 : n = 0 ↔ l' = [] := hch'.head_eq_zero_iff
      refine ⟨n, hn, ⟨{ sl := if n ≠ 0 then l' :: ls else ls, ll := g.ll }, ?_⟩⟩
      have hloc_chain : ∀ u, (lc u).cur = true → Chain (upd f id .live) (lc u).next (g.ll u) :=
        fun u hu => (h.loc_chain u hu).frame (fun x hx => upd_ne _ _ (fun e => hnl u (e ▸ hx)))
      by_cases hnz : n = 0
      · have hl'nil : l' = [] := hn0.1 hnz
        simp only [hnz, ne_eq, not_true_eq_false, ↓reduceIte]
        refine
          { stack := hframe_ls
            sl_disj := hpw.2
            loc_chain := hloc_chain
            loc_nil := h.loc_nil
            sl_ll := fun l'' hl'' u => h.sl_ll l'' (hlsmem l'' hl'') u
            ll_ll := h.ll_ll
            free_in := ?_ }
        intro j m hj
        have hji : j ≠ id := by intro e; subst e; simp at hj
        rw [upd_ne _ _ hji] at hj
        rcases h.free_in j m hj with ⟨l'', hl'', hm⟩ | hu
        · rw [hsl] at hl''
          rcases List.mem_cons.1 hl'' with e | hl''
          · subst e; rw [hl, hl'nil] at hm; simp at hm; exact absurd hm hji
          · exact Or.inl ⟨l'', hl'', hm⟩
        · exact Or.inr hu
      · simp only [ne_eq, hnz, not_false_eq_true, ↓reduceIte]
        have hl'ne : l' ≠ [] := fun e => hnz (hn0.2 e)
        refine
          { stack := ⟨hl'ne, hch'', hframe_ls⟩
            sl_disj := List.pairwise_cons.2 ⟨fun l'' hl'' x hx => hpw.1 l'' hl'' x (hsub x hx), hpw.2⟩
            loc_chain := hloc_chain
            loc_nil := h.loc_nil
            sl_ll := ?_
            ll_ll := h.ll_ll
            free_in := ?_ }
        · intro l'' hl'' u
          rcases List.mem_cons.1 hl'' with e | hl''
          · subst e; exact fun x hx => h.sl_ll l hlmem u x (hsub x hx)
          · exact h.sl_ll l'' (hlsmem l'' hl'') u
        · intro j m hj
          have hji : j ≠ id := by intro e; subst e; simp at hj
          rw [upd_ne _ _ hji] at hj
          rcases h.free_in j m hj with ⟨l'', hl'', hm⟩ | hu
          · rw [hsl] at hl''
            rcases List.mem_cons.1 hl'' with e | hl''
            · subst e
              rw [hl] at hm
              rcases List.mem_cons.1 hm with e | hm
              · exact absurd e hji
              · exact Or.inl ⟨l', List.mem_cons_self, hm⟩
            · exact Or.inl ⟨l'', List.mem_cons_of_mem _ hl'', hm⟩
          · exact Or.inr hu

/-- **`free_slot` on a thread with local state**: the cell becomes the new head of its list -/
theorem pushLocal (h : ListInv f st lc g) {t id : Nat} (hc : (lc t).cur = true)
    (hnf : ∀ n, f id ≠ .free n) (h0 : id ≠ 0) {lc' : Nat → Local} (hc' : (lc' t).cur = true)
    (hn' : (lc' t).next = id) (hother : ∀ u, u ≠ t → lc' u = lc u) :
    ListInv (upd f id (.free (lc t).next)) st lc' { g with ll := upd g.ll t (id :: g.ll t) } := by
  have hns := h.not_mem_shared hnf
  have hnl := h.not_mem_local hnf
  refine
    { stack := h.stack.frame (fun l hl x hx => upd_ne _ _ (fun e => hns l hl (e ▸ hx)))
      sl_disj := h.sl_disj
      loc_chain := ?_
      loc_nil := ?_
      sl_ll := ?_
      ll_ll := ?_
      free_in := ?_ }
  · intro u hu
    by_cases hut : u = t
    · subst hut
      simp only [upd_same]
      rw [hn']
      exact ⟨rfl, h0, (lc u).next, by simp,
        (h.loc_chain u hc).frame (fun x hx => upd_ne _ _ (fun e => hnl u (e ▸ hx)))⟩
    · rw [hother u hut] at hu ⊢
      simp only [upd_ne _ _ hut]
      exact (h.loc_chain u hu).frame (fun x hx => upd_ne _ _ (fun e => hnl u (e ▸ hx)))
  · intro u hu
    by_cases hut : u = t
    · subst hut; rw [hc'] at hu; cases hu
    · rw [hother u hut] at hu
      simp only [upd_ne _ _ hut]; exact h.loc_nil u hu
  · intro l hl u
    by_cases hut : u = t
    · subst hut
      simp only [upd_same]
      intro x hx hm
      rcases List.mem_cons.1 hm with e | hm
      · exact hns l hl (e ▸ hx)
      · exact h.sl_ll l hl u x hx hm
    · simp only [upd_ne _ _ hut]; exact h.sl_ll l hl u
  · intro u v huv
    by_cases hut : u = t
    · subst hut
      have hvt : v ≠ u := Ne.symm huv
      simp only [upd_same, upd_ne _ _ hvt]
      intro x hx hm
      rcases List.mem_cons.1 hx with e | hx
      · exact hnl v (e ▸ hm)
      · exact h.ll_ll u v huv x hx hm
    · by_cases hvt : v = t
      · subst hvt
        simp only [upd_same, upd_ne _ _ hut]
        intro x hx hm
        rcases List.mem_cons.1 hm with e | hm
        · exact hnl u (e ▸ hx)
        · exact h.ll_ll u v huv x hx hm
      · simp only [upd_ne _ _ hut, upd_ne _ _ hvt]; exact h.ll_ll u v huv
  · intro j m hj
    by_cases hji : j = id
    · subst hji
      exact Or.inr ⟨t, by simp⟩
    · rw [upd_ne _ _ hji] at hj
      rcases h.free_in j m hj with hs | ⟨u, hu⟩
      · exact Or.inl hs
      · refine Or.inr ⟨u, ?_⟩
        by_cases hut : u = t
        · subst hut; simp only [upd_same]; exact List.mem_cons_of_mem _ hu
        · simp only [upd_ne _ _ hut]; exact hu

/-- **a thread publishes its (non-empty) local list**: it becomes the top of the shared stack,
the thread keeps nothing (`next = 0`) or gives up its local state -/
theorem publish (h : ListInv f st lc g) {t : Nat} (hc : (lc t).cur = true) (hne : (lc t).next ≠ 0)
    {lc' : Nat → Local} (hown : (lc' t).cur = false ∨ (lc' t).next = 0)
    (hother : ∀ u, u ≠ t → lc' u = lc u) :
    ListInv f ((lc t).next :: st) lc' { sl := g.ll t :: g.sl, ll := upd g.ll t [] } := by
  have hch := h.loc_chain t hc
  have hlne : g.ll t ≠ [] := fun e => hne ((hch.head_eq_zero_iff).2 e)
  refine
    { stack := ⟨hlne, hch, h.stack⟩
      sl_disj := List.pairwise_cons.2 ⟨fun l hl => (h.sl_ll l hl t).symm, h.sl_disj⟩
      loc_chain := ?_
      loc_nil := ?_
      sl_ll := ?_
      ll_ll := ?_
      free_in := ?_ }
  · intro u hu
    by_cases hut : u = t
    · subst hut
      simp only [upd_same]
      rcases hown with hf | hz
      · rw [hf] at hu; cases hu
      · rw [hz]; exact rfl
    · rw [hother u hut] at hu ⊢
      simp only [upd_ne _ _ hut]; exact h.loc_chain u hu
  · intro u hu
    by_cases hut : u = t
    · subst hut; simp
    · rw [hother u hut] at hu
      simp only [upd_ne _ _ hut]; exact h.loc_nil u hu
  · intro l hl u
    by_cases hut : u = t
    · subst hut; simp only [upd_same]; exact Disj.nil_right _
    · simp only [upd_ne _ _ hut]
      rcases List.mem_cons.1 hl with e | hl
      · subst e; exact h.ll_ll t u (Ne.symm hut)
      · exact h.sl_ll l hl u
  · intro u v huv
    by_cases hut : u = t
    · subst hut; simp only [upd_same]; exact Disj.nil_left _
    · by_cases hvt : v = t
      · subst hvt; simp only [upd_same]; exact Disj.nil_right _
      · simp only [upd_ne _ _ hut, upd_ne _ _ hvt]; exact h.ll_ll u v huv
  · intro j m hj
    rcases h.free_in j m hj with ⟨l, hl, hm⟩ | ⟨u, hu⟩
    · exact Or.inl ⟨l, List.mem_cons_of_mem _ hl, hm⟩
    · by_cases hut : u = t
      · subst hut; exact Or.inl ⟨g.ll u, List.mem_cons_self, hu⟩
      · exact Or.inr ⟨u, by simp only [upd_ne _ _ hut]; exact hu⟩

/-- a thread with an empty local list gives up its local state (or changes fields other than
`cur`, `next`) -/
theorem closeEmpty (h : ListInv f st lc g) {t : Nat} (hn : (lc t).next = 0)
    {lc' : Nat → Local} (hown : (lc' t).cur = false ∨ (lc' t).next = 0)
    (hother : ∀ u, u ≠ t → lc' u = lc u) : ListInv f st lc' g := by
  have hempty := h.ll_nil_of_next_zero hn
  refine
    { stack := h.stack
      sl_disj := h.sl_disj
      loc_chain := ?_
      loc_nil := ?_
      sl_ll := h.sl_ll
      ll_ll := h.ll_ll
      free_in := h.free_in }
  · intro u hu
    by_cases hut : u = t
    · subst hut
      rcases hown with hf | hz
      · rw [hf] at hu; cases hu
      · rw [hz, hempty]; exact rfl
    · rw [hother u hut] at hu ⊢; exact h.loc_chain u hu
  · intro u hu
    by_cases hut : u = t
    · subst hut; exact hempty
    · rw [hother u hut] at hu; exact h.loc_nil u hu

/-- **`return_slot`** (`free_slot` on a thread without local state): the cell is put in front of
the top list of the shared stack (a new list if the stack is empty) -/
theorem pushForeign (h : ListInv f st lc g) {id : Nat} (hnf : ∀ n, f id ≠ .free n) (h0 : id ≠ 0) :
    ∃ g', ListInv (upd f id (.free (st.headD 0))) (id :: st.tail) lc g' := by
  have hns := h.not_mem_shared hnf
  have hnl := h.not_mem_local hnf
  have hloc_chain : ∀ u, (lc u).cur = true →
      Chain (upd f id (.free (st.headD 0))) (lc u).next (g.ll u) :=
    fun u hu => (h.loc_chain u hu).frame (fun x hx => upd_ne _ _ (fun e => hnl u (e ▸ hx)))
  have hframe : StackOK (upd f id (.free (st.headD 0))) st g.sl :=
    h.stack.frame (fun l hl x hx => upd_ne _ _ (fun e => hns l hl (e ▸ hx)))
  cases hst : st with
  | nil =>
    have hsl : g.sl = [] := by
      have := h.stack; rw [hst] at this
      cases hg : g.sl with
      | nil => rfl
      | cons a b => rw [hg] at this; simp [StackOK] at this
    refine ⟨{ sl := [[id]], ll := g.ll }, ?_⟩
    simp only [List.headD_nil, List.tail_nil]
    refine
      { stack := ⟨by simp, ⟨rfl, h0, 0, by simp, rfl⟩, trivial⟩
        sl_disj := by simp
        loc_chain := by rw [hst] at hloc_chain; exact hloc_chain
        loc_nil := h.loc_nil
        sl_ll := ?_
        ll_ll := h.ll_ll
        free_in := ?_ }
    · intro l hl u x hx hm
      simp only [List.mem_singleton] at hl
      subst hl
      simp only [List.mem_singleton] at hx
      subst hx
      exact hnl u hm
    · intro j m hj
      by_cases hji : j = id
      · subst hji; exact Or.inl ⟨[j], by simp, by simp⟩
      · rw [upd_ne _ _ hji] at hj
        rcases h.free_in j m hj with ⟨l, hl, _⟩ | hu
        · rw [hsl] at hl; cases hl
        · exact Or.inr hu
  | cons hd rest =>
    rw [hst] at hframe
    cases hsl : g.sl with
    | nil => rw [hsl] at hframe; simp [StackOK] at hframe
    | cons l ls =>
      rw [hsl] at hframe
      obtain ⟨hne, hch, hrest⟩ := hframe
      have hpw := h.sl_disj
      rw [hsl, List.pairwise_cons] at hpw
      have hlmem : l ∈ g.sl := by rw [hsl]; exact List.mem_cons_self
      have hlsmem : ∀ l' ∈ ls, l' ∈ g.sl := fun l' hl' => by rw [hsl]; exact List.mem_cons_of_mem _ hl'
      refine ⟨{ sl := (id :: l) :: ls, ll := g.ll }, ?_⟩
      simp only [List.headD_cons, List.tail_cons]
      refine
        { stack := ⟨by simp, ⟨rfl, h0, hd, by simp, hch⟩, hrest⟩
          sl_disj := ?_
          loc_chain := by rw [hst] at hloc_chain; exact hloc_chain
          loc_nil := h.loc_nil
          sl_ll := ?_
          ll_ll := h.ll_ll
          free_in := ?_ }
      · refine List.pairwise_cons.2 ⟨?_, hpw.2⟩
        intro l' hl' x hx hm
        rcases List.mem_cons.1 hx with e | hx
        · exact hns l' (hlsmem l' hl') (e ▸ hm)
        · exact hpw.1 l' hl' x hx hm
      · intro l' hl' u x hx hm
        rcases List.mem_cons.1 hl' with e | hl'
        · subst e
          rcases List.mem_cons.1 hx with e | hx
          · exact hnl u (e ▸ hm)
          · exact h.sl_ll l hlmem u x hx hm
        · exact h.sl_ll l' (hlsmem l' hl') u x hx hm
      · intro j m hj
        by_cases hji : j = id
        · subst hji; exact Or.inl ⟨j :: l, List.mem_cons_self, List.mem_cons_self⟩
        · rw [upd_ne _ _ hji] at hj
          rcases h.free_in j m hj with ⟨l', hl', hm⟩ | hu
          · rw [hsl] at hl'
            rcases List.mem_cons.1 hl' with e | hl'
            · subst e; exact Or.inl ⟨id :: l', List.mem_cons_self, List.mem_cons_of_mem _ hm⟩
            · exact Or.inl ⟨l', List.mem_cons_of_mem _ hl', hm⟩
          · exact Or.inr hu

end ListInv

end OxiddModel.Alloc
