import OxiddModel.Alloc.LemmasCount

/-!
Consequences of the invariant used by the headline theorems: what an allocation does, when it
fails, accounting of `drift`, counting at quiescent points.
-/
namespace OxiddModel.Alloc

theorem inv_reachable {c : Cfg} {n : Nat} {ops : List Op} {s : State} (ht : 0 < c.terms) (hk : 0 < c.chunk)
    (hr : run c (State.init c n) ops = some s) : Inv c s :=
  inv_run (inv_init c n ht hk) hr

/-! ## allocation -/

/-- the observation of `add_node` is a slot or out of memory -/
theorem addNode_obs {c : Cfg} {s : State} (h : Inv c s) {t : Nat} (ht : t < s.locals.length) :
    (∃ id src nx, (addNode c s t).2 = .alloc id src nx) ∨ ∃ d, (addNode c s t).2 = .oom d := by
  obtain ⟨⟨g, hL⟩, hC⟩ := h
  have hp := (addNode_spec hL hC ht).2.2.1
  revert hp
  generalize addNode c s t = r
  obtain ⟨r1, r2⟩ := r
  cases r2 <;> simp [AllocPost]

theorem alloc_step_facts {c : Cfg} {s s' : State} {t id nx : Nat} {src : Source} (h : Inv c s)
    (hs : step c s (.alloc t) = some (s', .alloc id src nx)) :
    s.cell id ≠ .live ∧ id < s.mem.size ∧ s'.cell = upd s.cell id .live := by
  obtain ⟨hv, e⟩ := ite_some_eq hs
  have ht := (valid_iff s t).1 hv
  obtain ⟨⟨g, hL⟩, hC⟩ := h
  have hp := (addNode_spec hL hC ht).2.2.1
  rw [e] at hp
  exact hp

/-- the conditions under which `add_node` reports out of memory -/
theorem oom_conditions {c : Cfg} {s : State} {t : Nat} {d : Int} (h : (addNode c s t).2 = .oom d) :
    ((s.loc t).cur = true → (s.loc t).next = 0 ∧ (s.loc t).init % c.chunk = 0) ∧
    s.stack = [] ∧ c.cap ≤ s.allocated := by
  unfold addNode at h
  by_cases hc : (s.loc t).cur = true
  · simp only [hc, ↓reduceIte] at h
    by_cases hid : (s.loc t).next ≠ 0
    · simp only [hid, ne_eq, not_false_eq_true, ↓reduceIte] at h; cases h
    · have hn : (s.loc t).next = 0 := by
        apply Classical.byContradiction; intro hh; exact hid hh
      simp only [hn, ne_eq, not_true_eq_false, ↓reduceIte] at h
      by_cases hm : (s.loc t).init % c.chunk ≠ 0
      · simp only [hm, ne_eq, not_false_eq_true, ↓reduceIte] at h; cases h
      · have hm0 : (s.loc t).init % c.chunk = 0 := by
          apply Classical.byContradiction; intro hh; exact hm hh
        simp only [hm0, not_true_eq_false, ↓reduceIte] at h
        refine ⟨fun _ => ⟨hn, hm0⟩, ?_⟩
        unfold getSlotFromShared takeFromShared at h
        have hcur : ((bumpCount c (s.setLoc t { next := 0, init := (s.loc t).init, delta := 0, cur := true })
            ((s.loc t).delta + 1)).loc t).cur = true := by
          by_cases hv : t < s.locals.length
          · show ((s.setLoc t _).loc t).cur = true
            rw [locfun_setLoc _ _ _ hv]; simp
          · rw [loc_of_not_valid s t hv] at hc; cases hc
        simp only [hcur, ↓reduceIte] at h
        have hst : (bumpCount c (s.setLoc t { next := 0, init := (s.loc t).init, delta := 0, cur := true })
            ((s.loc t).delta + 1)).stack = s.stack := rfl
        have hal : (bumpCount c (s.setLoc t { next := 0, init := (s.loc t).init, delta := 0, cur := true })
            ((s.loc t).delta + 1)).allocated = s.allocated := rfl
        rw [hst, hal] at h
        cases hs : s.stack with
        | cons x xs => rw [hs] at h; simp at h
        | nil =>
          rw [hs] at h
          simp only at h
          by_cases h1 : s.allocated + c.chunk < c.cap
          · simp only [h1, ↓reduceIte] at h; cases h
          · simp only [h1, ↓reduceIte] at h
            by_cases h2 : s.allocated < c.cap
            · simp only [h2, ↓reduceIte] at h; cases h
            · exact ⟨rfl, by omega⟩
  · simp only [hc, Bool.false_eq_true, ↓reduceIte] at h
    refine ⟨fun hh => absurd hh hc, ?_⟩
    unfold getSlotFromShared takeFromShared at h
    have hcur : ((bumpCount c s 1).loc t).cur = (s.loc t).cur := rfl
    simp only [hcur, hc, Bool.false_eq_true, ↓reduceIte] at h
    have hst : (bumpCount c s 1).stack = s.stack := rfl
    have hal : (bumpCount c s 1).allocated = s.allocated := rfl
    rw [hst, hal] at h
    cases hs : s.stack with
    | cons x xs => rw [hs] at h; simp at h
    | nil =>
      rw [hs] at h
      simp only at h
      by_cases h2 : s.allocated ≥ c.cap
      · exact ⟨rfl, h2⟩
      · simp only [h2, ↓reduceIte] at h; cases h

/-- **out of memory with at most one open session ⇒ every slot is live** -/
theorem oom_all_live {c : Cfg} {s : State} (h : Inv c s) {t : Nat} (hot : s.onlyThread t) {d : Int}
    (hoom : (addNode c s t).2 = .oom d) :
    ∀ id, c.terms ≤ id → id < c.terms + c.cap → s.cell id = .live := by
  obtain ⟨⟨g, hL⟩, _⟩ := h
  obtain ⟨hpre, hst, hcap⟩ := oom_conditions hoom
  have hal : s.allocated = c.cap := by have := hL.alloc_le; omega
  -- no thread owns a list
  have hll : ∀ u, g.ll u = [] := by
    intro u
    by_cases hut : u = t
    · subst hut
      cases hc : (s.loc u).cur with
      | true => exact hL.lists.ll_nil_of_next_zero (hpre hc).1
      | false => exact hL.lists.loc_nil u hc
    · exact hL.lists.loc_nil u (hot u hut)
  have hsl : g.sl = [] := by
    have := hL.lists.stack
    rw [hst] at this
    cases hg : g.sl with
    | nil => rfl
    | cons a b => rw [hg] at this; simp [StackOK] at this
  intro id h1 h2
  cases hcell : s.cell id with
  | live => rfl
  | free n =>
    exfalso
    rcases hL.lists.free_in id n hcell with ⟨l, hl, _⟩ | ⟨u, hu⟩
    · rw [hsl] at hl; cases hl
    · rw [hll u] at hu; cases hu
  | uninit =>
    exfalso
    obtain ⟨u, hu⟩ := (hL.res.uninit_iff id h1 (by omega)).1 hcell
    by_cases hut : u = t
    · subst hut
      exact ResInv.res_empty (hpre hu.1).2 id hu
    · have := hot u hut
      have h3 := hu.1
      rw [this] at h3; cases h3

/-- if every slot is live then `liveCount = cap` -/
theorem liveCount_of_all_live {c : Cfg} {s : State} (h : Inv c s)
    (hall : ∀ id, c.terms ≤ id → id < c.terms + c.cap → s.cell id = .live) : s.liveCount = c.cap := by
  obtain ⟨⟨g, hL⟩, _⟩ := h
  have hpart := cnt_partition s.cell s.mem.size
  rw [← liveCount_eq_cnt] at hpart
  have hfree : cnt (fun i => isFree (s.cell i)) s.mem.size = 0 := by
    have : cnt (fun i => isFree (s.cell i)) s.mem.size = cnt (fun _ => false) s.mem.size := by
      apply cnt_congr
      intro i hi
      by_cases h1 : c.terms ≤ i
      · rw [hall i h1 (by rw [hL.size] at hi; exact hi)]; rfl
      · rw [hL.res.outside i (Or.inl (by omega))]; rfl
    rw [this]
    have hz : ∀ n, cnt (fun _ => false) n = 0 := by
      intro n; induction n with
      | zero => rfl
      | succ n ih => rw [cnt_succ, ih]; simp
    exact hz _
  have hun : cnt (fun i => s.cell i == .uninit) s.mem.size = c.terms := by
    have : cnt (fun i => s.cell i == .uninit) s.mem.size =
        cnt (fun i => decide (i < c.terms ∨ s.mem.size ≤ i)) s.mem.size := by
      apply cnt_congr
      intro i hi
      by_cases h1 : c.terms ≤ i
      · rw [hall i h1 (by rw [hL.size] at hi; exact hi)]
        have : ¬ (i < c.terms ∨ s.mem.size ≤ i) := by omega
        simp [this]
      · rw [hL.res.outside i (Or.inl (by omega))]
        have : i < c.terms ∨ s.mem.size ≤ i := Or.inl (by omega)
        simp [this]
    rw [this, cnt_outside _ _ _ (by rw [hL.size]; omega)]
    rw [hL.size]
    simp only [Nat.min_def]
    split <;> omega
  rw [hL.size] at hpart hfree hun
  omega

/-- **with at most one open session an allocation succeeds as long as not all slots are live** -/
theorem alloc_succeeds {c : Cfg} {s : State} (h : Inv c s) {t : Nat} (ht : t < s.locals.length)
    (hot : s.onlyThread t) (hlt : s.liveCount < c.cap) :
    ∃ id src nx, (addNode c s t).2 = .alloc id src nx := by
  rcases addNode_obs h ht with ha | ⟨d, hd⟩
  · exact ha
  · have := liveCount_of_all_live h (oom_all_live h hot hd)
    omega

/-- one more live slot after a successful allocation -/
theorem liveCount_alloc_step {c : Cfg} {s s' : State} {t id nx : Nat} {src : Source} (h : Inv c s)
    (hs : step c s (.alloc t) = some (s', .alloc id src nx)) : s'.liveCount = s.liveCount + 1 := by
  obtain ⟨hnl, hlt, hcell⟩ := alloc_step_facts h hs
  have h' := inv_step h hs
  obtain ⟨⟨g, hL⟩, _⟩ := h
  obtain ⟨⟨g', hL'⟩, _⟩ := h'
  rw [liveCount_eq_cnt, liveCount_eq_cnt, hcell, hL'.size, ← hL.size]
  exact cnt_upd_live s.cell id s.mem.size hlt hnl

/-! ## accounting -/

/-- the observations at which the code loses a `node_count` update -/
def driftObs : Obs → Nat
  | .oom _ => 1
  | .freed _ (some _) => 1
  | _ => 0

theorem drift_takeFromShared (c : Cfg) (s : State) (t : Nat) (d : Int) :
    (takeFromShared c s t d).1.drift =
      s.drift + (if c.fixCount then 0 else driftObs (takeFromShared c s t d).2) := by
  unfold takeFromShared
  dsimp only
  by_cases hfix : c.fixCount = true
  · simp only [hfix, ↓reduceIte]
    repeat' split
    all_goals simp
  · simp only [hfix, Bool.false_eq_true, ↓reduceIte]
    repeat' split
    all_goals simp [driftObs]

theorem drift_addNode (c : Cfg) (s : State) (t : Nat) :
    (addNode c s t).1.drift = s.drift + (if c.fixCount then 0 else driftObs (addNode c s t).2) := by
  unfold addNode getSlotFromShared
  dsimp only
  split
  · split
    · simp [driftObs]
    · split
      · simp [driftObs]
      · rw [drift_takeFromShared]; rfl
  · rw [drift_takeFromShared]; rfl

theorem drift_freeSlot (c : Cfg) (s : State) (t id : Nat) :
    (freeSlot c s t id).1.drift = s.drift + (if c.fixCount then 0 else driftObs (freeSlot c s t id).2) := by
  unfold freeSlot
  dsimp only
  by_cases hfix : c.fixCount = true
  · simp only [hfix, ↓reduceIte]
    repeat' split
    all_goals simp
  · simp only [hfix, Bool.false_eq_true, ↓reduceIte]
    repeat' split
    all_goals simp [driftObs]

theorem drift_returnPreallocated (c : Cfg) (s : State) (t : Nat) :
    (returnPreallocated c s t).1.drift = s.drift ∧ driftObs (returnPreallocated c s t).2 = 0 := by
  unfold returnPreallocated
  dsimp only
  split <;> simp [driftObs]

/-- **`drift` counts exactly the failed allocations and the hand-overs inside `free_slot`** (and
nothing with the proposed patch) -/
theorem drift_step {c : Cfg} {s s' : State} {op : Op} {o : Obs} (hs : step c s op = some (s', o)) :
    s'.drift = s.drift + (if c.fixCount then 0 else driftObs o) := by
  cases op with
  | attach t =>
    obtain ⟨_, e⟩ := ite_some_eq hs
    obtain ⟨e1, e2⟩ := Prod.mk.inj e
    subst e1; subst e2
    simp [driftObs]
  | sessionBegin t =>
    obtain ⟨_, e⟩ := ite_some_eq hs
    obtain ⟨e1, e2⟩ := Prod.mk.inj e
    subst e1; subst e2
    simp [driftObs]
  | alloc t =>
    obtain ⟨_, e⟩ := ite_some_eq hs
    have e1 : s' = (addNode c s t).1 := by rw [e]
    have e2 : o = (addNode c s t).2 := by rw [e]
    subst e1; subst e2
    exact drift_addNode c s t
  | free t id =>
    obtain ⟨_, e⟩ := ite_some_eq hs
    have e1 : s' = (freeSlot c s t id).1 := by rw [e]
    have e2 : o = (freeSlot c s t id).2 := by rw [e]
    subst e1; subst e2
    exact drift_freeSlot c s t id
  | gcHandOver t =>
    obtain ⟨_, e⟩ := ite_some_eq hs
    have e1 : s' = (gcAfter c s t).1 := by rw [e]
    have e2 : o = (gcAfter c s t).2 := by rw [e]
    subst e1; subst e2
    have : (gcAfter c s t).1.drift = s.drift := by
      unfold gcAfter lwmCheck State.setGc gcPublish
      simp only
      split <;> rfl
    rw [this]
    simp [gcAfter, driftObs]
  | sessionEnd t =>
    obtain ⟨_, e⟩ := ite_some_eq hs
    have e1 : s' = (guardDrop c s t).1 := by rw [e]
    have e2 : o = (guardDrop c s t).2 := by rw [e]
    subst e1; subst e2
    unfold guardDrop
    simp only
    split
    · obtain ⟨h1, h2⟩ := drift_returnPreallocated c
        (s.setLoc t { next := (s.loc t).next, init := (s.loc t).init, delta := (s.loc t).delta, cur := false }) t
      rw [h1, h2]; simp
    · simp [driftObs]

/-- total number of lost updates of a sequence of observations -/
def driftOf (os : List Obs) : Nat := (os.map driftObs).sum

theorem drift_runObs {c : Cfg} {ops : List Op} : ∀ {s s' : State} {os : List Obs},
    runObs c s ops = some (s', os) → s'.drift = s.drift + (if c.fixCount then 0 else driftOf os) := by
  induction ops with
  | nil =>
    intro s s' os h
    simp only [runObs, Option.some.injEq, Prod.mk.injEq] at h
    obtain ⟨rfl, rfl⟩ := h
    simp [driftOf]
  | cons op ops ih =>
    intro s s' os h
    simp only [runObs] at h
    cases hs : step c s op with
    | none => rw [hs] at h; cases h
    | some r =>
      obtain ⟨s1, o⟩ := r
      rw [hs] at h
      simp only at h
      cases hr : runObs c s1 ops with
      | none => rw [hr] at h; cases h
      | some r2 =>
        obtain ⟨s2, os2⟩ := r2
        rw [hr] at h
        simp only [Option.some.injEq, Prod.mk.injEq] at h
        obtain ⟨rfl, rfl⟩ := h
        rw [ih hr, drift_step hs]
        by_cases hfix : c.fixCount = true
        · simp [hfix]
        · simp only [hfix, Bool.false_eq_true, ↓reduceIte, driftOf, List.map_cons, List.sum_cons]
          omega

theorem quiescent_iff (s : State) : s.quiescent ↔ s.locals.all (fun l => !l.cur) = true := by
  simp only [State.quiescent, List.all_eq_true, Bool.not_eq_true']
  constructor
  · intro h l hl
    obtain ⟨i, hi, rfl⟩ := List.getElem_of_mem hl
    have := h i
    simpa [State.loc, List.getD_eq_getElem?_getD, List.getElem?_eq_getElem hi] using this
  · intro h t
    by_cases ht : t < s.locals.length
    · have := h s.locals[t] (List.getElem_mem ht)
      simpa [State.loc, List.getD_eq_getElem?_getD, List.getElem?_eq_getElem ht] using this
    · rw [loc_of_not_valid s t ht]

instance (s : State) : Decidable s.quiescent := decidable_of_iff _ (quiescent_iff s).symm

theorem onlyThread_iff (s : State) (t : Nat) :
    s.onlyThread t ↔ ((List.range s.locals.length).all (fun u => u == t || !(s.loc u).cur)) = true := by
  simp only [State.onlyThread, List.all_eq_true, List.mem_range, Bool.or_eq_true, beq_iff_eq,
    Bool.not_eq_true']
  constructor
  · intro h u _
    by_cases hut : u = t
    · exact Or.inl hut
    · exact Or.inr (h u hut)
  · intro h u hut
    by_cases hu : u < s.locals.length
    · rcases h u hu with e | e
      · exact absurd e hut
      · exact e
    · rw [loc_of_not_valid s u hu]

instance (s : State) (t : Nat) : Decidable (s.onlyThread t) := decidable_of_iff _ (onlyThread_iff s t).symm

end OxiddModel.Alloc
