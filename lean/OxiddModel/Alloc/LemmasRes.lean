import OxiddModel.Alloc.LemmasLists

/-!
The reservation part of the invariant (`ResInv`: which cells are uninitialised and who may use
them) at the level of functions, its transitions, and the linking of a pre-allocated range into a
free list (`return_preallocated`).
-/
namespace OxiddModel.Alloc

/-- slot `id` lies in the range pre-allocated for thread `t` -/
def Res (c : Cfg) (lc : Nat → Local) (t id : Nat) : Prop :=
  (lc t).cur = true ∧ (lc t).init + c.terms ≤ id ∧ id < chunkEnd c (lc t).init + c.terms

/-- **The reservation part of the invariant** (`a` = `allocated`). -/
structure ResInv (c : Cfg) (f : Nat → Cell) (lc : Nat → Local) (a : Nat) : Prop where
  /-- ids of terminals and slots from `allocated` on are uninitialised -/
  outside : ∀ id, id < c.terms ∨ a + c.terms ≤ id → f id = .uninit
  /-- below `allocated` exactly the pre-allocated slots are uninitialised -/
  uninit_iff : ∀ id, c.terms ≤ id → id < a + c.terms → (f id = .uninit ↔ ∃ t, Res c lc t id)
  /-- a slot is pre-allocated for at most one thread -/
  res_unique : ∀ t u id, Res c lc t id → Res c lc u id → t = u
  /-- pre-allocated ranges lie below `allocated` -/
  res_le : ∀ t, (lc t).cur = true → chunkEnd c (lc t).init ≤ a

namespace ResInv

variable {c : Cfg} {f : Nat → Cell} {lc : Nat → Local} {a : Nat}

/-- a cell that is not uninitialised is a slot below `allocated` -/
theorem range_of_ne_uninit (h : ResInv c f lc a) {id : Nat} (hne : f id ≠ .uninit) :
    c.terms ≤ id ∧ id < a + c.terms := by
  refine ⟨?_, ?_⟩
  · apply Classical.byContradiction; intro hn
    exact hne (h.outside id (Or.inl (by omega)))
  · apply Classical.byContradiction; intro hn
    exact hne (h.outside id (Or.inr (by omega)))

/-- nothing about reservations changes; cells change between free and live only -/
theorem frame (h : ResInv c f lc a) {f' : Nat → Cell} {lc' : Nat → Local}
    (hres : ∀ t id, Res c lc' t id ↔ Res c lc t id)
    (hle : ∀ t, (lc' t).cur = true → chunkEnd c (lc' t).init ≤ a)
    (hf : ∀ j, f' j = .uninit ↔ f j = .uninit) : ResInv c f' lc' a where
  outside := fun id hid => (hf id).2 (h.outside id hid)
  uninit_iff := fun id h1 h2 => by
    rw [hf id, h.uninit_iff id h1 h2]
    exact ⟨fun ⟨t, ht⟩ => ⟨t, (hres t id).2 ht⟩, fun ⟨t, ht⟩ => ⟨t, (hres t id).1 ht⟩⟩
  res_unique := fun t u id ht hu => h.res_unique t u id ((hres t id).1 ht) ((hres u id).1 hu)
  res_le := hle

/-- `Res` only looks at `cur` and `init` -/
theorem res_congr {lc lc' : Nat → Local} (hl : ∀ t, (lc' t).cur = (lc t).cur ∧ (lc' t).init = (lc t).init)
    (t id : Nat) : Res c lc' t id ↔ Res c lc t id := by
  simp only [Res, (hl t).1, (hl t).2]

/-- a thread whose `init` is a multiple of the chunk size has nothing pre-allocated -/
theorem res_empty {lc : Nat → Local} {t : Nat} (h0 : (lc t).init % c.chunk = 0) (id : Nat) :
    ¬ Res c lc t id := by
  intro ⟨_, h1, h2⟩
  rw [chunkEnd_of_mod_eq c _ h0] at h2
  omega

/-- **`add_node` from the pre-allocated range**: the slot `init + terms` is uninitialised (in
particular not live) -/
theorem takeReserved (h : ResInv c f lc a) (hk : 0 < c.chunk) {t : Nat} (hc : (lc t).cur = true)
    (hm : (lc t).init % c.chunk ≠ 0) :
    f ((lc t).init + c.terms) = .uninit ∧ (lc t).init + c.terms < a + c.terms ∧
      ∀ lc' : Nat → Local, (lc' t).cur = true → (lc' t).init = (lc t).init + 1 →
        (∀ u, u ≠ t → lc' u = lc u) → ResInv c (upd f ((lc t).init + c.terms) .live) lc' a := by
  have hlt := lt_chunkEnd_of_mod_ne c _ hk hm
  have hle := h.res_le t hc
  have hres : Res c lc t ((lc t).init + c.terms) := ⟨hc, Nat.le_refl _, by omega⟩
  have hun : f ((lc t).init + c.terms) = .uninit :=
    (h.uninit_iff _ (by omega) (by omega)).2 ⟨t, hres⟩
  refine ⟨hun, by omega, ?_⟩
  intro lc' hc' hi' hother
  have hce : chunkEnd c (lc' t).init = chunkEnd c (lc t).init := by
    rw [hi']; exact chunkEnd_succ_of_mod_ne c _ hk hm
  have hce' : chunkEnd c ((lc t).init + 1) = chunkEnd c (lc t).init := by rw [← hi']; exact hce
  have hres_t : ∀ id, Res c lc' t id ↔ Res c lc t id ∧ id ≠ (lc t).init + c.terms := by
    intro id
    simp only [Res, hc', hc, hi', hce', true_and]
    omega
  have hres_u : ∀ u, u ≠ t → ∀ id, Res c lc' u id ↔ Res c lc u id := by
    intro u hu id; simp only [Res, hother u hu]
  refine
    { outside := ?_
      uninit_iff := ?_
      res_unique := ?_
      res_le := ?_ }
  · intro id hid
    have : id ≠ (lc t).init + c.terms := by omega
    rw [upd_ne _ _ this]; exact h.outside id hid
  · intro id h1 h2
    by_cases hid : id = (lc t).init + c.terms
    · subst hid
      simp only [upd_same]
      constructor
      · intro hh; cases hh
      · intro ⟨u, hu⟩
        exfalso
        by_cases hut : u = t
        · subst hut; exact ((hres_t _).1 hu).2 rfl
        · exact hut (h.res_unique u t _ ((hres_u u hut _).1 hu) hres)
    · rw [upd_ne _ _ hid, h.uninit_iff id h1 h2]
      constructor
      · intro ⟨u, hu⟩
        by_cases hut : u = t
        · subst hut; exact ⟨u, (hres_t id).2 ⟨hu, hid⟩⟩
        · exact ⟨u, (hres_u u hut id).2 hu⟩
      · intro ⟨u, hu⟩
        by_cases hut : u = t
        · subst hut; exact ⟨u, ((hres_t id).1 hu).1⟩
        · exact ⟨u, (hres_u u hut id).1 hu⟩
  · intro u v id hu hv
    have hu' : Res c lc u id := by
      by_cases hut : u = t
      · subst hut; exact ((hres_t id).1 hu).1
      · exact (hres_u u hut id).1 hu
    have hv' : Res c lc v id := by
      by_cases hvt : v = t
      · subst hvt; exact ((hres_t id).1 hv).1
      · exact (hres_u v hvt id).1 hv
    exact h.res_unique u v id hu' hv'
  · intro u hu
    by_cases hut : u = t
    · subst hut; rw [hce]; exact hle
    · rw [hother u hut] at hu ⊢; exact h.res_le u hu

/-- **a new chunk is reserved**: slot `a` is handed out, the rest of its chunk is pre-allocated
for the thread -/
theorem reserveChunk (h : ResInv c f lc a) (hk : 0 < c.chunk) {t : Nat}
    (hm : (lc t).init % c.chunk = 0) {lc' : Nat → Local} (hc' : (lc' t).cur = true)
    (hi' : (lc' t).init = a + 1) (hother : ∀ u, u ≠ t → lc' u = lc u) :
    ResInv c (upd f (a + c.terms) .live) lc' ((a / c.chunk + 1) * c.chunk) := by
  have hE1 := lt_succ_div_mul a c.chunk hk
  have hce : chunkEnd c (lc' t).init = (a / c.chunk + 1) * c.chunk := by
    rw [hi']; exact chunkEnd_succ c a hk
  have hres_u : ∀ u, u ≠ t → ∀ id, Res c lc' u id ↔ Res c lc u id := by
    intro u hu id; simp only [Res, hother u hu]
  have hce' : chunkEnd c (a + 1) = (a / c.chunk + 1) * c.chunk := by rw [← hi']; exact hce
  have hres_t : ∀ id, Res c lc' t id ↔ a + 1 + c.terms ≤ id ∧ id < (a / c.chunk + 1) * c.chunk + c.terms := by
    intro id; simp only [Res, hc', hi', hce', true_and]
  have hold_t : ∀ id, ¬ Res c lc t id := res_empty hm
  have hres_lt : ∀ u id, Res c lc u id → id < a + c.terms := by
    intro u id ⟨hu, _, h2⟩
    have := h.res_le u hu; omega
  refine
    { outside := ?_
      uninit_iff := ?_
      res_unique := ?_
      res_le := ?_ }
  · intro id hid
    have hne : id ≠ a + c.terms := by omega
    rw [upd_ne _ _ hne]
    exact h.outside id (by omega)
  · intro id h1 h2
    by_cases hid : id = a + c.terms
    · subst hid
      simp only [upd_same]
      constructor
      · intro hh; cases hh
      · intro ⟨u, hu⟩
        exfalso
        by_cases hut : u = t
        · subst hut; have := (hres_t _).1 hu; omega
        · have := hres_lt u _ ((hres_u u hut _).1 hu); omega
    · rw [upd_ne _ _ hid]
      by_cases hlt : id < a + c.terms
      · rw [h.uninit_iff id h1 hlt]
        constructor
        · intro ⟨u, hu⟩
          by_cases hut : u = t
          · subst hut; exact absurd hu (hold_t id)
          · exact ⟨u, (hres_u u hut id).2 hu⟩
        · intro ⟨u, hu⟩
          by_cases hut : u = t
          · subst hut; have := (hres_t _).1 hu; omega
          · exact ⟨u, (hres_u u hut id).1 hu⟩
      · have hun : f id = .uninit := h.outside id (Or.inr (by omega))
        simp only [hun, true_iff]
        exact ⟨t, (hres_t id).2 ⟨by omega, h2⟩⟩
  · intro u v id hu hv
    by_cases hut : u = t
    · by_cases hvt : v = t
      · rw [hut, hvt]
      · subst hut
        have h1 := (hres_t id).1 hu
        have h2 := hres_lt v id ((hres_u v hvt id).1 hv)
        omega
    · by_cases hvt : v = t
      · subst hvt
        have h1 := (hres_t id).1 hv
        have h2 := hres_lt u id ((hres_u u hut id).1 hu)
        omega
      · exact h.res_unique u v id ((hres_u u hut id).1 hu) ((hres_u v hvt id).1 hv)
  · intro u hu
    by_cases hut : u = t
    · subst hut; rw [hce]; exact Nat.le_refl _
    · rw [hother u hut] at hu ⊢
      have := h.res_le u hu; omega

/-- **a single slot is taken from the end of the allocated range** -/
theorem single (h : ResInv c f lc a) {lc' : Nat → Local}
    (hl : ∀ t, (lc' t).cur = (lc t).cur ∧ (lc' t).init = (lc t).init) :
    ResInv c (upd f (a + c.terms) .live) lc' (a + 1) := by
  have hres : ∀ t id, Res c lc' t id ↔ Res c lc t id := res_congr hl
  have hres_lt : ∀ u id, Res c lc u id → id < a + c.terms := by
    intro u id ⟨hu, _, h2⟩
    have := h.res_le u hu; omega
  refine
    { outside := ?_
      uninit_iff := ?_
      res_unique := fun t u id ht hu => h.res_unique t u id ((hres t id).1 ht) ((hres u id).1 hu)
      res_le := ?_ }
  · intro id hid
    have hne : id ≠ a + c.terms := by omega
    rw [upd_ne _ _ hne]; exact h.outside id (by omega)
  · intro id h1 h2
    by_cases hid : id = a + c.terms
    · subst hid
      simp only [upd_same]
      constructor
      · intro hh; cases hh
      · intro ⟨u, hu⟩
        have := hres_lt u _ ((hres u _).1 hu); omega
    · rw [upd_ne _ _ hid, h.uninit_iff id h1 (by omega)]
      exact ⟨fun ⟨t, ht⟩ => ⟨t, (hres t id).2 ht⟩, fun ⟨t, ht⟩ => ⟨t, (hres t id).1 ht⟩⟩
  · intro t ht
    rw [(hl t).1] at ht; rw [(hl t).2]
    have := h.res_le t ht; omega

/-- a thread starts using the store with `init = 0` (or a multiple of the chunk size) -/
theorem begin (h : ResInv c f lc a) {t : Nat} (hold : ∀ id, ¬ Res c lc t id)
    {lc' : Nat → Local} (hi' : (lc' t).init % c.chunk = 0) (hle : chunkEnd c (lc' t).init ≤ a)
    (hother : ∀ u, u ≠ t → lc' u = lc u) : ResInv c f lc' a := by
  apply h.frame (lc' := lc')
  · intro u id
    by_cases hut : u = t
    · subst hut
      exact ⟨fun hr => absurd hr (res_empty hi' id), fun hr => absurd hr (hold id)⟩
    · simp only [Res, hother u hut]
  · intro u hu
    by_cases hut : u = t
    · subst hut; exact hle
    · rw [hother u hut] at hu ⊢; exact h.res_le u hu
  · intro j; exact Iff.rfl

end ResInv

/-! ## linking a pre-allocated range (`return_preallocated`) -/

/-- the memory after `n` cells from `a` on have been linked into a list that continues with `last` -/
def linkF (f : Nat → Cell) (a n last : Nat) : Nat → Cell := fun j =>
  if a ≤ j ∧ j < a + n then (if j + 1 = a + n then .free last else .free (j + 1)) else f j

theorem linkF_zero (f : Nat → Cell) (a last : Nat) : linkF f a 0 last = f := by
  funext j; simp [linkF]; omega

theorem linkF_succ (f : Nat → Cell) (a n last : Nat) :
    linkF f a (n + 1) last = upd (linkF f (a + 1) n last) a (.free (if n = 0 then last else a + 1)) := by
  funext j
  by_cases hja : j = a
  · subst hja
    simp only [linkF, upd_same]
    by_cases hn : n = 0
    · subst hn; simp
    · have : ¬ (j + 1 = j + (n + 1)) := by omega
      simp [hn]
  · rw [upd_ne _ _ hja]
    simp only [linkF]
    by_cases hin : a + 1 ≤ j ∧ j < a + 1 + n
    · have h1 : a ≤ j ∧ j < a + (n + 1) := by omega
      simp only [hin, h1, and_self, ↓reduceIte]
      by_cases hl : j + 1 = a + 1 + n
      · have : j + 1 = a + (n + 1) := by omega
        rw [if_pos hl, if_pos this]
      · have : ¬ (j + 1 = a + (n + 1)) := by omega
        rw [if_neg hl, if_neg this]
    · have h1 : ¬ (a ≤ j ∧ j < a + (n + 1)) := by omega
      simp [hin, h1]

/-- **the uninitialised cells `a .. a+n` are linked in front of a thread's local list** -/
theorem ListInv.pushRange {f : Nat → Cell} {st : List Nat} {lc : Nat → Local} {g : Ghost}
    (h : ListInv f st lc g) {t : Nat} (hc : (lc t).cur = true) :
    ∀ (n a : Nat), a ≠ 0 → (∀ j, a ≤ j → j < a + n → ∀ m, f j ≠ .free m) →
      ∀ lc' : Nat → Local, (lc' t).cur = true → (lc' t).next = (if n = 0 then (lc t).next else a) →
        (∀ u, u ≠ t → lc' u = lc u) →
        ListInv (linkF f a n (lc t).next) st lc' { g with ll := upd g.ll t (List.range' a n ++ g.ll t) } := by
  intro n
  induction n with
  | zero =>
    intro a _ _ lc' hc' hn' hother
    rw [linkF_zero]
    have hg : ({ g with ll := upd g.ll t (List.range' a 0 ++ g.ll t) } : Ghost) = g := by
      cases g with
      | mk sl ll =>
        simp only [List.range'_zero, List.nil_append, Ghost.mk.injEq, true_and]
        funext u
        by_cases hut : u = t
        · subst hut; simp
        · simp [upd_ne _ _ hut]
    rw [hg]
    apply h.loc_irrelevant
    intro u
    by_cases hut : u = t
    · subst hut; simp only [↓reduceIte] at hn'; exact ⟨by rw [hc', hc], hn'⟩
    · rw [hother u hut]; exact ⟨rfl, rfl⟩
  | succ n ih =>
    intro a ha hnf lc' hc' hn' hother
    -- first link a+1 .. a+1+n
    let lcm : Nat → Local := upd lc t { lc t with next := if n = 0 then (lc t).next else a + 1 }
    have hmid := ih (a + 1) (by omega) (fun j h1 h2 => hnf j (by omega) (by omega)) lcm
      (by simp [lcm, hc]) (by simp [lcm]) (fun u hu => by simp [lcm, upd_ne _ _ hu])
    rw [linkF_succ]
    have hcm : (lcm t).cur = true := by simp [lcm, hc]
    have hnfa : ∀ m, linkF f (a + 1) n (lc t).next a ≠ .free m := by
      intro m
      have : ¬ (a + 1 ≤ a ∧ a < a + 1 + n) := by omega
      simp only [linkF, this, ↓reduceIte]
      exact hnf a (Nat.le_refl _) (by omega) m
    have hpush := hmid.pushLocal (t := t) (id := a) hcm hnfa ha (lc' := lc') hc'
      (by rw [hn']; simp)
      (fun u hu => by rw [hother u hu]; simp [lcm, upd_ne _ _ hu])
    have hnext : (lcm t).next = if n = 0 then (lc t).next else a + 1 := by simp [lcm]
    rw [hnext] at hpush
    have hg : ({ g with ll := upd g.ll t (List.range' a (n + 1) ++ g.ll t) } : Ghost) =
        { ({ g with ll := upd g.ll t (List.range' (a + 1) n ++ g.ll t) } : Ghost) with
          ll := upd (upd g.ll t (List.range' (a + 1) n ++ g.ll t)) t
            (a :: (upd g.ll t (List.range' (a + 1) n ++ g.ll t)) t) } := by
      simp only [Ghost.mk.injEq, true_and]
      funext u
      by_cases hut : u = t
      · subst hut; simp [List.range'_succ]
      · simp [upd_ne _ _ hut]
    rw [hg]
    exact hpush

/-- the reservation part when a thread gives up its local state and its pre-allocated range has
been linked into a list -/
theorem ResInv.closeLink {c : Cfg} {f : Nat → Cell} {lc : Nat → Local} {a : Nat} (h : ResInv c f lc a)
    {t : Nat} (hc : (lc t).cur = true) {f' : Nat → Cell}
    (hin : ∀ j, Res c lc t j → ∃ m, f' j = .free m) (hout : ∀ j, ¬ Res c lc t j → f' j = f j)
    {lc' : Nat → Local} (hc' : (lc' t).cur = false) (hother : ∀ u, u ≠ t → lc' u = lc u) :
    ResInv c f' lc' a := by
  have hres_u : ∀ u, u ≠ t → ∀ id, Res c lc' u id ↔ Res c lc u id := by
    intro u hu id; simp only [Res, hother u hu]
  have hres_t : ∀ id, ¬ Res c lc' t id := by
    intro id ⟨h1, _⟩; rw [hc'] at h1; cases h1
  have hres_lt : ∀ u id, Res c lc u id → c.terms ≤ id ∧ id < a + c.terms := by
    intro u id ⟨hu, h1, h2⟩
    have := h.res_le u hu; omega
  refine
    { outside := ?_
      uninit_iff := ?_
      res_unique := ?_
      res_le := ?_ }
  · intro id hid
    have hn : ¬ Res c lc t id := fun hr => by have := hres_lt t id hr; omega
    rw [hout id hn]; exact h.outside id hid
  · intro id h1 h2
    by_cases hr : Res c lc t id
    · obtain ⟨m, hm⟩ := hin id hr
      rw [hm]
      constructor
      · intro hh; cases hh
      · intro ⟨u, hu⟩
        exfalso
        by_cases hut : u = t
        · subst hut; exact hres_t id hu
        · exact hut (h.res_unique u t id ((hres_u u hut id).1 hu) hr)
    · rw [hout id hr, h.uninit_iff id h1 h2]
      constructor
      · intro ⟨u, hu⟩
        by_cases hut : u = t
        · subst hut; exact absurd hu hr
        · exact ⟨u, (hres_u u hut id).2 hu⟩
      · intro ⟨u, hu⟩
        by_cases hut : u = t
        · subst hut; exact absurd hu (hres_t id)
        · exact ⟨u, (hres_u u hut id).1 hu⟩
  · intro u v id hu hv
    by_cases hut : u = t
    · subst hut; exact absurd hu (hres_t id)
    · by_cases hvt : v = t
      · subst hvt; exact absurd hv (hres_t id)
      · exact h.res_unique u v id ((hres_u u hut id).1 hu) ((hres_u v hvt id).1 hv)
  · intro u hu
    by_cases hut : u = t
    · subst hut; rw [hc'] at hu; cases hu
    · rw [hother u hut] at hu ⊢; exact h.res_le u hu

end OxiddModel.Alloc
